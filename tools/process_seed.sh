#!/bin/bash
# process_seed.sh <name>: confirm the seeded change in /tmp/seed/<name>, store it, write meta.json, and run every check on the changed tree
name=$1
/verif/tools/keep_seed.sh /tmp/seed/$name $name || exit 1
/venv/bin/python - "$name" <<'PY'
import json, sys, os
name = sys.argv[1]
d = f"/verif/seeded/{name}"
am = json.load(open(f"{d}/agent_meta.json")) if os.path.exists(f"{d}/agent_meta.json") else {}
meta = {"property": am.get("property", name[:3]), "summary": am.get("summary", ""), "files": am.get("files", []), "needs": am.get("needs", ""),
        "confirmed_by_main": ["compileall ok", "tools/baseline.py <worktree>: missing=0", "demo.py exits 1 with the change, 0 with the patch reversed"],
        "origin": "independent sub-agent given only the property text and a scratch worktree"}
json.dump(meta, open(f"{d}/meta.json", "w"), indent=1)
PY
/venv/bin/python /verif/tools/check_tree.py /tmp/seed/$name 2>&1 | grep -v conda | cut -c1-420
