#!/bin/bash
# save_twin.sh <dir containing xgi/> <name>: store the difference between /repo's tree and <dir> as refactors/<name>.diff (git-apply format)
d=$1; name=$2
out=/verif/refactors/$name.diff
: > $out
(cd $d && find xgi -name '*.py' | sort) | while read f; do
  if ! cmp -s /repo/$f $d/$f; then
    diff -u --label a/$f --label b/$f /repo/$f $d/$f | sed "1i diff --git a/$f b/$f" >> $out
  fi
done
git -C /repo apply --check $out && echo "saved $out ($(wc -l < $out) lines)"
