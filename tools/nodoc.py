#!/usr/bin/env python3
"""Print a python file without docstrings/comment-only lines, with original line numbers."""
import ast, sys
src = open(sys.argv[1]).read()
tree = ast.parse(src)
skip = set()
for node in ast.walk(tree):
    if isinstance(node, (ast.FunctionDef, ast.ClassDef, ast.Module, ast.AsyncFunctionDef)):
        b = node.body
        if b and isinstance(b[0], ast.Expr) and isinstance(b[0].value, ast.Constant) and isinstance(b[0].value.value, str):
            for l in range(b[0].lineno, b[0].end_lineno + 1):
                skip.add(l)
    if isinstance(node, ast.Expr) and isinstance(node.value, ast.Constant) and isinstance(node.value.value, str):
        for l in range(node.lineno, node.end_lineno + 1):
            skip.add(l)
for i, line in enumerate(src.splitlines(), 1):
    if i in skip or not line.strip():
        continue
    print(f"{i}\t{line}")
