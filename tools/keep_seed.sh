#!/bin/bash
# keep_seed.sh <worktree> <name>: confirm a seeded change (tests pass, demo fails with / passes without) and store it under /verif/seeded/<name>/
set -u
wt=$1; name=$2
cd "$wt" || exit 2
git diff -- xgi > /tmp/keep_$name.diff
if ! diff -q /tmp/keep_$name.diff _seed/patch.diff >/dev/null; then echo "NOTE: patch.diff differs from git diff; using git diff"; cp /tmp/keep_$name.diff _seed/patch.diff; fi
[ -s _seed/patch.diff ] || { echo "empty patch"; exit 1; }
/venv/bin/python -m compileall -q xgi >/dev/null || { echo "does not compile"; exit 1; }
b=$(/venv/bin/python /verif/tools/baseline.py "$wt" 2>/dev/null | grep stable_pass)
echo "baseline: $b"
case "$b" in *"missing=0"*) ;; *) b2=$(/venv/bin/python /verif/tools/baseline.py "$wt" 2>/dev/null | grep -E "stable_pass|MISSING"); echo "rerun: $b2"; case "$b2" in *"missing=0"*) ;; *) echo "TESTS FAIL"; exit 1;; esac;; esac
/venv/bin/python _seed/demo.py >/tmp/keep_$name.out1 2>&1; r1=$?
git apply -R _seed/patch.diff || { echo "cannot reverse"; exit 1; }
/venv/bin/python _seed/demo.py >/tmp/keep_$name.out0 2>&1; r0=$?
git apply _seed/patch.diff
echo "demo with change: exit $r1; without: exit $r0"
if [ $r1 -ne 0 ] && [ $r0 -eq 0 ]; then
  mkdir -p /verif/seeded/$name
  cp _seed/patch.diff _seed/demo.py /verif/seeded/$name/
  [ -f _seed/meta.json ] && cp _seed/meta.json /verif/seeded/$name/agent_meta.json
  tail -5 /tmp/keep_$name.out1 > /verif/seeded/$name/demo_output_with_change.txt
  echo "KEPT /verif/seeded/$name"
else
  echo "REJECTED"; exit 1
fi
