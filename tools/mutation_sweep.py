#!/venv/bin/python
"""Generic mutation sweep (developer tool, not a registered check): generate single-site AST mutants of xgi/, run every
claimed check on each (scratch copies under a temp dir), then run the pinned test-suite on the mutants no check reports.
What is left - mutants that compile, pass the suite and are reported by no check - is the list to triage by hand: either
equivalent / outside every property, or a gap in the rules.

usage: mutation_sweep.py gen <out.json> [file-substring ...]
       mutation_sweep.py checks <mutants.json> <result.json> [jobs]
       mutation_sweep.py tests <result.json> <final.json> [jobs]
"""
import ast, copy, json, os, shutil, subprocess, sys, tempfile, hashlib
from concurrent.futures import ProcessPoolExecutor

sys.path.insert(0, "/verif")
REPO = "/repo"
SKIP_FILES = ("xgi/readwrite/xgi_data.py", "xgi/utils/tensor.py")


def func_bodies(tree):
    for n in ast.walk(tree):
        if isinstance(n, (ast.FunctionDef, ast.AsyncFunctionDef)):
            yield n


class Site:
    def __init__(self, op, node, desc):
        self.op, self.node, self.desc = op, node, desc


def sites_of(tree):
    out = []
    in_func = set()
    for f in func_bodies(tree):
        for n in ast.walk(f):
            in_func.add(id(n))
    for n in ast.walk(tree):
        if id(n) not in in_func:
            continue
        if isinstance(n, (ast.Expr,)) and isinstance(n.value, ast.Call):
            out.append(Site("DEL", n, "delete call statement"))
        elif isinstance(n, (ast.Assign, ast.AugAssign, ast.Delete)):
            out.append(Site("DEL", n, "delete statement"))
        elif isinstance(n, (ast.Continue, ast.Break)):
            out.append(Site("DEL", n, f"delete {type(n).__name__.lower()}"))
        elif isinstance(n, ast.Return) and n.value is None:
            out.append(Site("DEL", n, "delete bare return"))
        if isinstance(n, ast.If):
            out.append(Site("NEG", n, "negate if test"))
        if isinstance(n, ast.Compare) and len(n.ops) == 1 and type(n.ops[0]) in CMP:
            out.append(Site("CMP", n, "swap comparison operator"))
        if isinstance(n, ast.Constant) and n.value in ("in", "out"):
            out.append(Site("STR", n, "swap in/out literal"))
        if isinstance(n, ast.Call):
            name = getattr(n.func, "id", None)
            if name in ("deepcopy", "copy", "set", "list", "frozenset", "dict", "sorted", "tuple") and len(n.args) == 1 and not n.keywords:
                out.append(Site("UNWRAP", n, f"drop {name}()"))
            if isinstance(n.func, ast.Attribute) and n.func.attr == "copy" and not n.args:
                out.append(Site("UNWRAP", n, "drop .copy()"))
            for i, k in enumerate(n.keywords):
                if k.arg is not None:
                    out.append(Site(f"KW{i}", n, f"drop keyword {k.arg}"))
            if len(n.args) == 2 and all(isinstance(a, ast.Name) for a in n.args) and n.args[0].id != n.args[1].id:
                out.append(Site("SWAP", n, "swap the two arguments"))
            if isinstance(n.func, ast.Attribute) and n.func.attr in METH:
                out.append(Site("METH", n, f"{n.func.attr} -> {METH[n.func.attr]}"))
        if isinstance(n, ast.BinOp) and isinstance(n.op, (ast.Add, ast.Sub)) and isinstance(n.right, ast.Constant) and n.right.value == 1:
            out.append(Site("OFF1", n, "drop +/- 1"))
    return out


CMP = {ast.Lt: ast.LtE, ast.LtE: ast.Lt, ast.Gt: ast.GtE, ast.GtE: ast.Gt, ast.Eq: ast.NotEq, ast.NotEq: ast.Eq, ast.In: ast.NotIn, ast.NotIn: ast.In, ast.Is: ast.IsNot, ast.IsNot: ast.Is}
METH = {"add": "discard", "remove": "discard", "discard": "remove", "update": "intersection_update", "union": "intersection", "difference": "union", "items": "keys"}


def apply(tree, site_index):
    t = copy.deepcopy(tree)
    sites = sites_of(t)
    s = sites[site_index]
    n = s.node

    class T(ast.NodeTransformer):
        def generic_visit(self, node):
            if node is n:
                return mutate(node)
            return super().generic_visit(node)

    def mutate(node):
        if s.op == "DEL":
            return ast.copy_location(ast.Pass(), node)
        if s.op == "NEG":
            node.test = ast.UnaryOp(op=ast.Not(), operand=node.test)
            return node
        if s.op == "CMP":
            node.ops = [CMP[type(node.ops[0])]()]
            return node
        if s.op == "STR":
            return ast.copy_location(ast.Constant(value="out" if node.value == "in" else "in"), node)
        if s.op == "UNWRAP":
            return node.args[0] if node.args else node.func.value
        if s.op.startswith("KW"):
            i = int(s.op[2:])
            node.keywords = [k for j, k in enumerate(node.keywords) if j != i]
            return node
        if s.op == "SWAP":
            node.args = [node.args[1], node.args[0]]
            return node
        if s.op == "METH":
            node.func.attr = METH[node.func.attr]
            return node
        if s.op == "OFF1":
            return node.left
        return node

    t = T().visit(t)
    ast.fix_missing_locations(t)
    return ast.unparse(t), s


def gen(out, filters):
    muts = []
    for dp, dn, fn in os.walk(os.path.join(REPO, "xgi")):
        for f in sorted(fn):
            if not f.endswith(".py"):
                continue
            rel = os.path.relpath(os.path.join(dp, f), REPO)
            if rel in SKIP_FILES or (filters and not any(x in rel for x in filters)):
                continue
            src = open(os.path.join(REPO, rel)).read()
            tree = ast.parse(src)
            n = len(sites_of(tree))
            for i in range(n):
                try:
                    new, s = apply(tree, i)
                    compile(new, rel, "exec")
                except Exception:
                    continue
                fnname = None
                for fdef in func_bodies(tree):
                    if fdef.lineno <= s.node.lineno <= (fdef.end_lineno or fdef.lineno):
                        fnname = fdef.name
                muts.append({"id": hashlib.sha1((rel + str(i)).encode()).hexdigest()[:10], "file": rel, "site": i, "op": s.op, "desc": s.desc, "line": s.node.lineno, "function": fnname, "text": " ".join(ast.unparse(s.node).split())[:100]})
    json.dump(muts, open(out, "w"), indent=0)
    print(len(muts), "mutants")


_W = {}


def _worker_dir():
    if "d" not in _W:
        d = tempfile.mkdtemp(prefix="xgi_mut_")
        shutil.copytree(os.path.join(REPO, "xgi"), os.path.join(d, "xgi"), ignore=shutil.ignore_patterns("__pycache__"))
        _W["d"] = d
    return _W["d"]


def run_checks_on(m):
    from sa import cli
    from sa.model import AnalysisError

    d = _worker_dir()
    path = os.path.join(d, m["file"])
    orig = open(os.path.join(REPO, m["file"])).read()
    new, _ = apply(ast.parse(orig), m["site"])
    open(path, "w").write(new)
    man = json.load(open("/verif/MANIFEST.json"))
    hits, err = [], []
    try:
        for c in man["checks"]:
            p = c["property_id"]
            try:
                code, res, viol, known, lines = cli.run_check(p, d, "quick", None, 0, quiet=True, write=False)
            except AnalysisError as e:
                code, viol = 2, []
            except Exception as e:  # noqa: BLE001
                code, viol = 2, []
            if code == 1:
                hits.append([p, sorted({v.rule for v in viol})])
            elif code == 2:
                err.append(p)
    finally:
        open(path, "w").write(orig)
    return {**m, "hits": hits, "exit2": err}


def checks(inp, out, jobs):
    muts = json.load(open(inp))
    with ProcessPoolExecutor(max_workers=jobs) as ex:
        res = list(ex.map(run_checks_on, muts, chunksize=4))
    json.dump(res, open(out, "w"), indent=0)
    surv = [r for r in res if not r["hits"] and not r["exit2"]]
    print(f"{len(res)} mutants: reported {sum(1 for r in res if r['hits'])}, refused(exit2) {sum(1 for r in res if not r['hits'] and r['exit2'])}, silent {len(surv)}")
    for d in {_W.get("d")}:
        pass


def _test_worker_dir():
    if "t" not in _W:
        d = tempfile.mkdtemp(prefix="xgi_mutt_")
        subprocess.run(f"git -C {REPO} archive HEAD | tar -x -C {d}", shell=True, check=True)
        _W["t"] = d
    return _W["t"]


def run_tests_on(m):
    d = _test_worker_dir()
    path = os.path.join(d, m["file"])
    orig = open(os.path.join(REPO, m["file"])).read()
    new, _ = apply(ast.parse(orig), m["site"])
    open(path, "w").write(new)
    try:
        r = subprocess.run(["/venv/bin/python", "/verif/tools/baseline.py", d], capture_output=True, text=True, timeout=1800)
        line = next((l for l in r.stdout.splitlines() if l.startswith("stable_pass")), "")
        missing = int(line.split("missing=")[1]) if "missing=" in line else -1
        miss = [l.strip() for l in r.stdout.splitlines() if "MISSING" in l][:5]
    except Exception as e:  # noqa: BLE001
        missing, miss = -1, [str(e)]
    finally:
        open(path, "w").write(orig)
    return {**m, "tests_missing": missing, "tests_missing_names": miss}


def tests(inp, out, jobs):
    res = json.load(open(inp))
    surv = [r for r in res if not r["hits"] and not r["exit2"]]
    with ProcessPoolExecutor(max_workers=jobs) as ex:
        done = list(ex.map(run_tests_on, surv))
    json.dump(done, open(out, "w"), indent=0)
    live = [r for r in done if r["tests_missing"] == 0 or all("test_issue_515" in x or "draw.draw" in x for x in r["tests_missing_names"]) and 0 < r["tests_missing"] <= 2]
    print(f"{len(done)} silent mutants: {len(live)} also pass the test-suite")
    for r in live:
        print(f"  {r['file']}:{r['line']} {r['function']} [{r['op']}] {r['desc']}: {r['text']}")


def recheck(inp, jobs):
    """Re-run the checks on the survivors of an earlier sweep (after rules were strengthened)."""
    done = json.load(open(inp))
    live = [r for r in done if r.get("tests_missing") == 0 or (0 < r.get("tests_missing", -1) <= 2 and all("test_issue_515" in x or "draw.draw" in x for x in r["tests_missing_names"]))]
    with ProcessPoolExecutor(max_workers=jobs) as ex:
        res = list(ex.map(run_checks_on, live, chunksize=2))
    still = [r for r in res if not r["hits"]]
    print(f"{len(live)} survivors re-checked: now reported {sum(1 for r in res if r['hits'])}, still silent {len(still)}")
    for r in res:
        tag = ",".join(f"{p}:{'/'.join(rs)}" for p, rs in r["hits"]) or ("exit2:" + ",".join(r["exit2"]) if r["exit2"] else "SILENT")
        print(f"  {tag:28s} {r['file']}:{r['line']} {r['function']} [{r['op']}] {r['desc']}: {r['text'][:70]}")


if __name__ == "__main__":
    cmd = sys.argv[1]
    if cmd == "recheck":
        recheck(sys.argv[2], int(sys.argv[3]) if len(sys.argv) > 3 else 16)
        sys.exit(0)
    if cmd == "gen":
        gen(sys.argv[2], sys.argv[3:])
    elif cmd == "checks":
        checks(sys.argv[2], sys.argv[3], int(sys.argv[4]) if len(sys.argv) > 4 else 16)
    elif cmd == "tests":
        tests(sys.argv[2], sys.argv[3], int(sys.argv[4]) if len(sys.argv) > 4 else 10)
