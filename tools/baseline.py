#!/usr/bin/env python3
"""Run the pinned baseline suite of /repo (guard off) and compare with BASELINE.json stable_pass.
Exit 0 iff every stable_pass test passed."""
import json, subprocess, sys, tempfile, os
import xml.etree.ElementTree as ET
repo = sys.argv[1] if len(sys.argv) > 1 else "/repo"
b = json.load(open("/root/.vp/BASELINE.json"))
fd, path = tempfile.mkstemp(suffix=".xml"); os.close(fd)
cmd = f"cd {repo} && /venv/bin/python -m pytest -ra -q -p no:cacheprovider --timeout=900 --continue-on-collection-errors --ignore=_seed --junitxml={path}"
env = dict(os.environ); env.pop("XGI_VERIF", None)
p = subprocess.run(cmd, shell=True, capture_output=True, text=True, env=env)
passed = set()
for tc in ET.parse(path).getroot().iter("testcase"):
    if not any(ch.tag in ("failure", "error", "skipped") for ch in tc):
        passed.add(f"{tc.get('classname')}::{tc.get('name')}")
os.unlink(path)
missing = [t for t in b["stable_pass"] if t not in passed]
print(f"stable_pass={len(b['stable_pass'])} passed_now={len(passed)} missing={len(missing)}")
for m in missing[:40]:
    print("  MISSING", m)
sys.exit(1 if missing else 0)
