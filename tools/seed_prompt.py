#!/usr/bin/env python3
"""Print the sub-agent prompt for seeding a property-breaking change. usage: seed_prompt.py C18 /tmp/seed/C18a [focus text]"""
import json, sys
pid, wt = sys.argv[1], sys.argv[2]
focus = " ".join(sys.argv[3:])
prop = None
for l in open("/verif/properties.jsonl"):
    p = json.loads(l)
    if p["id"] == pid:
        prop = p
print(f"""You are helping to evaluate a verification tool. Work ONLY inside the git worktree {wt} (a checkout of the Python library `xgi`, already created for you). Do NOT read, list or modify anything under /verif or /repo, and do not look at other directories under /tmp/seed.

PROPERTY ({pid}: {prop['title']}):
{prop['statement']}
Quantifier: {prop['quantifier']['text']}

TASK: make ONE realistic change to the library source (files under {wt}/xgi/) that BREAKS this property, such that
 1. the package still imports and every file compiles;
 2. the existing test-suite still passes: run `/venv/bin/python /tmp/seed/baseline.py {wt}` (about 30 s): it runs tests/ and the doctests in your worktree and compares with the list of tests that pass on the unchanged tree; it must print `missing=0` (two drawing tests, `test_issue_515` and the `xgi.drawing.draw.draw` doctest, are flaky on the unchanged tree - if only those are reported, rerun);
 3. the breakage needs something SPECIFIC to manifest - a particular multi-step sequence of calls, an unusual but admissible input, a particular flag/branch/format, or two cooperating edits that each look fine alone - NOT something ordinary use or the existing tests would expose at once;
 4. it looks like a plausible mistake a maintainer could make (a refactor, an optimisation, a new code path, a forgotten branch, an off-by-one, a dropped copy, a wrong guard), not sabotage with dead code or comments that give it away. Do not add comments that point at the bug.
{('FOCUS for diversity: ' + focus) if focus else ''}

DELIVERABLES (write them under {wt}/_seed/):
 - `patch.diff`: output of `git -C {wt} diff -- xgi` (only library source; nothing else changed);
 - `demo.py`: a small stand-alone program, run as `cd {wt} && /venv/bin/python _seed/demo.py`, that exits with status 1 (printing what went wrong) when the change is applied and exits 0 on the unchanged library. It MUST begin with `import sys, os; sys.path.insert(0, os.path.dirname(os.path.dirname(os.path.abspath(__file__))))` so that `import xgi` picks up the library of the directory that contains `_seed/` (the installed xgi is a different checkout!). It must put its code under `if __name__ == "__main__":` (the test collector imports every .py file it finds). It must exercise the public API only and state in a comment what it needs in order to manifest;
 - `meta.json`: {{"property": "{pid}", "summary": "...", "files": [...], "needs": "what is required for the breakage to manifest", "ran": ["commands you ran and their outcome"]}}.
Verify all of it yourself: run the test-suite check with the change (missing=0), run demo.py with the change (must exit 1), then `git apply -R _seed/patch.diff`, run demo.py again (must exit 0), `git apply _seed/patch.diff`. NEVER use `git stash` (it is shared with sibling worktrees used by other people). Leave the change applied in the worktree when you finish and make sure `git diff -- xgi` equals _seed/patch.diff.
In your final answer, report briefly: the change, why tests do not catch it, and the verification results.""")
