#!/venv/bin/python
"""Apply every /verif/seeded/*/patch.diff to a scratch copy of /repo/xgi and run the claimed checks on it.
usage: sweep_seeds.py [name ...] [--all-checks]   (default: only the check of the property the seed breaks + list others that fire)"""
import json, os, shutil, subprocess, sys, tempfile
sys.path.insert(0, "/verif")
from sa import cli
from sa.model import AnalysisError

def main():
    names = [a for a in sys.argv[1:] if not a.startswith("--")]
    allchecks = "--all-checks" in sys.argv
    base = "/verif/seeded"
    man = json.load(open("/verif/MANIFEST.json"))
    claimed = [c["property_id"] for c in man["checks"]]
    rows = []
    for name in sorted(os.listdir(base)):
        if names and name not in names:
            continue
        d = os.path.join(base, name)
        patch = os.path.join(d, "patch.diff")
        if not os.path.exists(patch):
            continue
        meta = {}
        if os.path.exists(os.path.join(d, "meta.json")):
            meta = json.load(open(os.path.join(d, "meta.json")))
        prop = meta.get("property") or name[:3]
        tmp = tempfile.mkdtemp(prefix="xgi_seed_")
        try:
            shutil.copytree("/repo/xgi", os.path.join(tmp, "xgi"), ignore=shutil.ignore_patterns("__pycache__"))
            r = subprocess.run(["patch", "-p1", "-s", "-d", tmp, "-i", patch], capture_output=True, text=True)
            if r.returncode != 0:
                rows.append((name, prop, "PATCH-FAILS", r.stdout[-200:]))
                continue
            props = claimed if allchecks else ([prop] if prop in claimed else [])
            caught, others, errs = [], [], []
            for p in props:
                try:
                    code, res, viol, known, lines = cli.run_check(p, tmp, "quick", None, 0, write=False)
                except AnalysisError as e:
                    code, viol = 2, []
                    errs.append(f"{p}:exit2 {e}")
                except Exception as e:
                    code, viol = 2, []
                    errs.append(f"{p}:internal {type(e).__name__} {e}")
                if code == 1:
                    (caught if p == prop else others).append((p, sorted({v.rule for v in viol})))
                elif code == 2 and not errs:
                    errs.append(f"{p}:exit2")
            rows.append((name, prop, "CAUGHT" if caught else ("not-claimed" if prop not in claimed else "MISSED"), caught, others, errs))
        finally:
            shutil.rmtree(tmp, ignore_errors=True)
    for r in rows:
        print(*r)

main()
