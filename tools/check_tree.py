#!/venv/bin/python
"""Run every claimed check against a source tree (--repo DIR) without writing evidence; print non-silent results."""
import json, sys
sys.path.insert(0, "/verif")
from sa import cli
from sa.model import AnalysisError
root = sys.argv[1]
only = sys.argv[2:]
man = json.load(open("/verif/MANIFEST.json"))
bad = 0
for c in man["checks"]:
    p = c["property_id"]
    if only and p not in only:
        continue
    try:
        code, res, viol, known, lines = cli.run_check(p, root, "quick", None, 0, write=False)
    except AnalysisError as e:
        code, viol, lines = 2, [], [f"ANALYSIS-ERROR {e}"]
    except Exception as e:
        import traceback
        code, viol, lines = 2, [], [f"INTERNAL {type(e).__name__}: {e}", traceback.format_exc()[-600:]]
    if code != 0:
        bad += 1
        print(f"== {p} exit={code}")
        for v in viol[:8]:
            print(f"   [{v.rule}] {v.function}:{v.line} {v.message[:260]}")
        for ln in lines:
            if ln.startswith(("ANALYSIS", "INTERNAL")) or "Traceback" in ln:
                print("   " + ln[:400])
print("non-silent checks:", bad)
