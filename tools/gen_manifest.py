#!/usr/bin/env python3
"""Regenerate /verif/MANIFEST.json from the table below (kept in one place so the manifest is always valid)."""
import json
import os
import sys

HERE = os.path.dirname(os.path.dirname(os.path.abspath(__file__)))
sys.path.insert(0, HERE)
from sa.cli import RULE_MODULES  # noqa: E402

TRUSTED = (
    "CPython 3.12 ast of /repo/xgi is the program that runs (no exec/eval/monkey-patching of analysed functions); "
    "call resolution as in DESIGN 2.2; third-party facts are the explicit tables in sa/thirdparty.py; "
    "asynchronous exceptions and user-defined __hash__/__eq__/__iter__ that raise or lie are out of scope"
)

CLAIMS = {
    "C01": dict(
        technique="static analysis: who-may-write (encapsulation) check over the resolved program + paired-update obligation walk (relational deltas with accumulator summaries, exceptional exits per iteration, finally blocks) over every path of every writer method; alias variants (two ID parameters bound to one ID) and size comparisons of local copies as membership formulas; R-SHARE one-object-per-entry lint",
        text="Decides the inductive step of the incidence invariant by static analysis: only methods of the core classes write the four tables (R-ENC), and on every normal and exceptional exit of every writer method of Hypergraph each edge-side gain/loss is paired with the node-side one, each new key has its attribute record, every member is a registered node, and a store never replaces an entry whose key may already exist (three-valued key presence) (R-ATTR/R-INC/R-EXISTS/R-EXIT/R-EXC/R-ONCE); in-place set operators on stored member sets, sets accumulated over loop iterations, finally blocks and exceptions between iterations are modelled; the per-site counter rules of C04 are checked for this class as the premise that automatic keys are new. Which edit is performed is not decided (C05). Calls that hand the same ID to two parameters are analysed as separate variants; `len(copy) != len(entry)` guards are interpreted as formulas over membership atoms; no container object is stored under two keys (R-SHARE).",
        ref="3 C01",
    ),
    "C02": dict(
        technique="static analysis: paired-update obligation walk with tail/head <-> out/in side pairing over every path of every DiHypergraph writer; alias variants; R-SHARE",
        text="Same inductive argument as C01 for DiHypergraph with sides: edge 'in' (tail) pairs with node 'out', edge 'out' (head) with node 'in'; every writer method is checked on all normal and exceptional exits (including an exception in a later iteration of a loop whose effects are only settled after it), including strong node removal; in/out literals chosen per branch are followed by tail duplication. Alias variants and R-SHARE as in C01.",
        ref="3 C02",
    ),
    "C03": dict(
        technique="static analysis: guard-dominance and must-pass-through queries on the CFG of every simplex insertion/removal site; R-SHARE; length-filter requirement on uncapped face producers",
        text="Decides that every insertion of a simplex is dominated by the duplicate, emptiness and existing-ID guards, is followed on every path by scheduling of all its faces through guarded face insertion, is bounded by max_order (which is compared with None, never tested for truthiness: 0 is a limit), stores frozensets, and that removal removes all strict supersets first. Value-level facts about which faces exist are not decided. No container object is stored under two keys (R-SHARE). Faces that replace a too-large simplex come from a producer capped by max_order (powerset max_size, combinations r, or _subfaces filtered by length).",
        ref="3 C03",
    ),
    "C04": dict(
        technique="static analysis: provenance of every inserted edge key (automatic vs caller-supplied) and must-pass-through of the counter update on the CFG; no automatic ID drawn between a caller-keyed insertion and its counter update",
        text="Decides the counter invariant: every caller-keyed insertion into the edge table is dominated by an existing-ID guard that leaves the network unchanged, and is followed on every path, per key and not under a truthiness guard, by update_uid_counter; the counter is assigned only by its owners; copy/pickle carry it; update_uid_counter keeps max(old, id+1). Between a caller-keyed insertion and its counter update no automatic ID is drawn (directly or through a method whose effect summary draws one).",
        ref="3 C04",
    ),
    "C05": dict(
        technique="static analysis: raise-site classification, validate-before-write ordering at every explicit rejection, effect footprint of swap/shuffle/clear, dead-parameter liveness analysis, IDDict override table vs dict-method call sites; CFG order and guard table of the cleanup steps; handler placement of skipped lookups (E-SKIP), optional-ID truthiness lint (E-IDKEEP)",
        text="Narrow: decides (a) that edits rejected for a missing/invalid ID raise the library's own error type at every explicit raise and every caller-keyed plain-container access, (b) that double_edge_swap and random_edge_shuffle insert/delete no key and touch no attribute or counter, (c) that aliases and thin wrappers forward every parameter, (d) that every explicit rejection (raise statement) in a mutator is reached before any table write of the rejected item, (e) that direction 'in'/'out' edits the tail/head side, clear()/clear_edges() have exactly their documented table footprint, update() forwards what it is given, the 'first' options of merge_duplicate_edges pick the smallest ID, no keyed dict method that IDDict does not override is used on a table without a guard, and every parameter of every method can influence what it does (dead-parameter analysis). Equality with a reference model after edit sequences is NOT decided. The step order and flag guards of cleanup (rules Q-ORDER / Q-FLAG / Q-COPY of C19) are checked as part of the documented effect of that edit. A handler that skips an unknown ID sits inside the bulk loop, not around it (E-SKIP); optional ID parameters are tested against None, never for truthiness (E-IDKEEP).",
        ref="3 C05",
    ),
    "C06": dict(
        technique="static analysis: alias analysis of view bindings, who-may-rebind the tables, no-memoisation lint, order-provenance tags, filter mode/operator table extraction, dead-parameter liveness analysis, side-literal table for directed statistics, zero-count pattern lints with embedded positive examples; who-may-bind check of a view's ID list; full-table domain of neighbour-set selections",
        text="Decides the mechanisms that make views and statistics live and ordered: views alias the live tables, tables are never rebound outside __init__/__setstate__, nothing is memoised, every ordered output follows the view, filter modes map to their comparison operators, view methods forward every parameter, from_view binds all table references, directed totals are sizes of unions (never sums of the two sides), one-sided directed statistics read their own side, stored attribute values are never replaced by a default through truthiness, and every parameter of every view method / stat function is live. Numerical definitions of statistics are not decided. Only IDView.__init__ and from_view bind a view's ID list, and no view is constructed with an explicit ID list elsewhere (V-IDS), so every derived view is validated and in network order. lookup / duplicates examine every ID of the table (V-DOMAIN); the threshold of neighbors(idx, s) bounds only sets of the ID table (V-NBR).",
        ref="3 C06",
    ),
    "C07": dict(
        technique="static analysis: escape/alias analysis with copy barriers at every network-to-network transfer, pickle state-table agreement; per-site counter rules of all classes and package-wide who-may-write check as premises; copy() delegating to the constructor checked through the converter branch",
        text="Decides independence and completeness of transferred state for copy(), pickle and the network-to-network constructor branches: every flow from the source network into the new one passes a copy barrier (deep for attributes in copy(); member tables filled directly must be fresh down to the member sets), getstate/setstate/__init__ agree on the attribute set, the counter is copied. Equality of copied values is not decided. The bulk adders the constructors rebuild through pass the counter beyond every transferred ID (U-GUARD / U-BUMP at every insertion site of the three classes) and nothing outside the classes fills a network's tables (R-ENC). A copy() that delegates to the constructor is checked through the converter's network branch with copy()'s deep-copy obligation.",
        ref="3 C07",
    ),
    "C08": dict(
        technique="static analysis: interprocedural may-write (effect) analysis over every public callable with a network parameter",
        text="Decides that the may-write set on the input network is empty for every public function, method, view accessor and stat that is not a declared mutator, transitively through all resolved callees, with in_place flags constant-propagated and aliases tracked through local containers (records with constant keys are slot-sensitive); accessor results are checked to be fresh copies. Sound over-approximation relative to the third-party table.",
        ref="3 C08",
    ),
    "C09": dict(
        technique="static analysis: ID/position kind inference (abstract interpretation) over every subscript of the algorithm, linalg and stats modules; order provenance of index maps (K-ORD) and permutation-labelled networks (K-PERM)",
        text="Decides the addressing discipline behind relabelling invariance: a label is never used as a position in a positional container nor a position as a label in an ID-keyed map, every matrix builder numbers its rows/columns in view order (callers use matrices without their index maps), positionally paired sequences have the same order provenance, tuples out of combination-style enumerations are made canonical before they serve as identities, and pairs drawn with combinations() from a member set are not recorded with an orientation (K-PAIR). Numerical invariance itself is not decided. A position map numbering one sequence is never applied to a sequence listing another (K-ORD); a network whose labels are only known to be a permutation of 0..n-1 is never paired positionally with a label-indexed vector (K-PERM).",
        ref="3 C09",
    ),
    "C10": dict(
        technique="static analysis: writer/reader key-table extraction and comparison, sibling-branch footprint cross-check, role-by-test and arc-orientation rules, forward taint from NumPy arrays to ID sinks, provenance resolution of IDs through helpers, dead-parameter liveness analysis, key-domain analysis of regrouping maps; writer/reader arc-orientation agreement by enumeration and guard, through inlined statement helpers; must-pass check that record attributes reach the network; optional-ID truthiness lint on the builders",
        text="Narrow: decides that the dict-format writers and readers agree on keys and enumerations (incl. direction literals), that all class-to-class converter branches transfer nodes, edges and network attributes, that bipartite endpoints are classified by a test, not by position, and that the direction of every membership read from a DiGraph is taken from the orientation of the arc being enumerated (the writer uses the opposite convention consistently), that no label reaches a network-building call or a returned table after a detour through a NumPy array built from the labels, that every parameter of every converter can influence its result (dead-parameter analysis), and that sibling maps filled under different conditions are read over the union of their keys (T-DOM). Round-trip equality of values is NOT decided. On the writer side of the bipartite graph, arcs written while enumerating tail|head must be decided by a positive test against the matching side (a node in both tail and head keeps both arcs). In from_hif_dict the attributes of every node / edge record reach the network on every path of the record loop; the builders keep falsy labels (T-IDKEEP).",
        ref="3 C10",
    ),
    "C11": dict(
        technique="static analysis: delegation/forwarding checks on every reader/writer, delimiter symmetry, array-rank fact propagation, serialise-before-open and write-after-serialise dominance on the CFG, provenance resolution of parsed fields, memo-key completeness, writer/reader mode agreement, dead-parameter liveness analysis; orientation-preserving load of incidence matrices",
        text="Narrow: decides that each read_*/write_* pair goes through the paired converters, forwards every parameter, joins and splits on the received delimiter (which is never rebound), forces text matrices two-dimensional, serialises before opening the file, casts node and edge fields of the text parsers with their own type from their own column (followed through helpers), keys any conversion memo by everything the stored value depends on, opens text formats in the same mode family on both sides, writes every serialised record and every member of a collection to the file whose relative path it records (followed through os.path.join and name-building helpers; the dataset name reaches the file name without a lossy transformation), stores the literal the reader dispatches on, and keeps every parameter of every reader/writer live. Round-trip equality of values is NOT decided. A loaded incidence matrix keeps its orientation: only the loader's ndmin=2 is accepted, atleast_2d after a squeezing load is reported.",
        ref="3 C11",
    ),
    "C12": dict(
        technique="static analysis: ID/position kind inference on matrix builders, index-map provenance (view-order placement), definite assignment in degenerate branches, sparse/dense sibling dtype agreement, filtering-history signatures of zipped sequences, dead-parameter liveness analysis; CFG dominance of the threshold comparison over any collapse of the counts; lint for buffered index-array updates; symbolic linear-form comparison of sparse and dense sibling branches",
        text="Narrow: decides that rows/columns are addressed through index maps (never labels), that returned maps derive from the map that placed the entries and that this map numbers a view in view order, that degenerate-shape branches assign their result on every path, that the sparse and dense constructions of one builder use the same element type, that stored weights are never replaced by a default through truthiness, that sequences consumed pairwise were filtered identically, that the adjacency tensor is populated idempotently (repeated edges do not add up), and that every parameter of every builder is live. Numerical equality with textbook definitions is NOT decided. In builders with a threshold s the counts are compared with s before they are collapsed to 0/1 on every path (M-THRESH). Matrices are never filled by in-place updates through index arrays where repeated indices must add up (M-FANCY); where a builder is straight-line matrix arithmetic, its sparse and dense branches are equal as symbolic linear forms (M-SIB).",
        ref="3 C12",
    ),
    "C13": dict(
        technique="static analysis: abstract interpretation of the boundary sign exponent in the parity domain, face-loop shape checks, per-path symbolic evaluation of the Hodge composition; who-may-rebind check of the orientation map",
        text="Narrow: decides that the sign exponent stored by boundary_matrix has the textbook parity (up to an order-only sign), that the reference orientation is fixed before faces are enumerated, that every face of the combinations enumeration is stored and looked up by member set and addressed by its simplex ID (kind inference), that _subfaces enumerates the simplex in the order it is given, and that hodge_laplacian, evaluated symbolically on every path to a return, is B_k^T B_k + B_{k+1} B_{k+1}^T of boundary matrices built with the same orientations (the upper term absent only where there are no (k+1)-simplices; a literal-shaped matrix returned only where there are no nodes). The identity on concrete complexes is NOT decided. The orientation map is the caller's or the default over the edge view and is never rebuilt, merged or updated per call (B-ORIENT).",
        ref="3 C13",
    ),
    "C16": dict(
        technique="static analysis: member-shape kind rule at every edge-adding call in generators, must-reach add_nodes_from, skip-loop bound agreement, mixed-radix decoder extraction, alignment of pairwise-consumed sequences, taint from with-repetition enumerations to edge-adding calls, dead-parameter liveness analysis; unfiltered node collection handed to add_nodes_from",
        text="Narrow: decides that every generator hands add_edge/add_edges_from iterables of node IDs (never nested lists), adds the requested node set on every path, that skip-sampling loop bounds agree with their decoder's domain, that p in {0,1} branches are present or handled, that sequences consumed pairwise (orders and probabilities) are never reordered one without the other, that candidates enumerated with repetition (Cartesian products of node groups, product index decoders) reach an edge-adding call only under a test on their number of distinct nodes, and that every parameter of every generator is live. Edge counts and distributions are NOT decided. The node collection registered by a generator is not a filtered selection of the requested nodes.",
        ref="3 C16",
    ),
    "C17": dict(
        technique="static analysis: interprocedural RNG-family analysis (which generator every draw uses, whether seed reaches it) with dominance of seeding over draws; reaching definitions of generator objects, draw-function aliases and seeding coverage modulo seed-is-None paths",
        text="Decides that every random family a seeded public function may draw from, transitively, is seeded from its seed parameter (or receives it), that seeding dominates every draw, and that the seeding guard is `is not None`. Sound relative to the third-party table of stochastic callees. Generator objects and aliases of draw functions are followed by reaching definitions: an unseeded binding may reach a draw only on paths that establish seed is None; seeding must cover every other path.",
        ref="3 C17",
    ),
    "C18": dict(
        technique="static analysis: interprocedural may-write analysis with the receiver marked frozen (freeze-list completeness), dominance of freeze() in subhypergraph; class-level method aliases and factory closures modelled as methods; getattr/setattr with names from literal tuples resolved in the effect analysis",
        text="Decides that every public method of the three classes not shadowed by freeze(), and every public library function handed a frozen network, reaches no structural write (calls to shadowed names raise first); exception.frozen always raises XGIError; subhypergraph freezes what it returns; is_frozen/copy have the required shape. New methods are included automatically. Methods created by class-level assignment (aliases, closures returned by a factory) are analysed as methods that bypass instance-level shadows.",
        ref="3 C18",
    ),
    "C19": dict(
        technique="static analysis: step identification by effect footprint and ordering/guard checks on the CFG of the cleanup methods and convert_labels_to_integers, transfer completeness of << and dual, encoding agreement in complement, None-vs-truthiness lint for selections; definition of both modes of largest_connected_hypergraph by the one selected component; maximality decided against a complete face enumeration (Q-MAX)",
        text="Narrow: decides the sequencing of cleanup (relabelling last, singleton removal before isolate removal), one flag per step with documented polarity, copy semantics of in_place, and that relabelling records old labels after re-insertion from zip(view, range) (or puts them into the re-inserted attribute dicts with the label applied last); that << and dual transfer nodes, edges and network attributes of their operands; that the two key encodings compared by complement() have the same canonical form; that optional selections of subhypergraph are defaulted by `is None`, not by truthiness. Set-theoretic results of derived networks are NOT decided. largest_connected_hypergraph: the copy is subhypergraph(nodes=<selected component>) and the in-place mode removes exactly its complement (Q-LCC). from_max_simplices takes maximal simplices from the edge view or decides against faces of every size (Q-MAX).",
        ref="3 C19",
    ),
    "C20": dict(
        technique="static analysis: ID/position kind inference over layout and drawing code, key provenance of layout dicts, guarded-range-division lint, step order on the CFG of draw_simplices, canonical-identity lint for faces, hull-mode reaching definitions of polygon vertices, structural-parameter forwarding between draw functions, dead-parameter liveness analysis; order provenance of index maps (L-IDX); no unkeyed ordering of labels in the drawing code (L-SORT)",
        text="Narrow: decides that positions are addressed by label and arrays by position in the layout/drawing functions the property names, that every layout's keys come from the node view (edge positions from the edge view; dicts filled in loops are checked store by store), that a rescaling that divides by a max-min range handles the constant input, that draw_simplices cuts to max_order before taking maximal simplices, that faces are never de-duplicated by raw combination tuples, that outside hull mode a polygon's vertex array is not selected through a convex hull, that draw functions pass pos/ax/max_order/hull/radius on to the sibling draw functions they delegate to, and that every parameter of every layout is live. Rendered geometry is NOT decided. A position map numbering the node view is never applied to an array stacked in another order (L-IDX). The drawing code never orders labels without a key or a type filter (L-SORT).",
        ref="3 C20",
    ),
}

NOT_APPLICABLE = {
    "C14": "static analysis cannot decide it: every clause compares computed values (components, distances, clustering, projected graphs) with an independent computation on arbitrary inputs; correctness of the hand-rolled BFS/Dijkstra loops depends on run-time counters, not on a code shape a rule can name. The structural facts in reach (ID/position discipline, purity) are decided under C09/C08.",
    "C15": "static analysis cannot decide it: the simpliciality measures are inclusion-exclusion counts over how concrete maximal faces intersect; no clause is visible in the shape of the code (label-order dependence of the Trie is reported as information under C09).",
}

PENDING_REASON = "not claimed in this revision: the static rule for it is not implemented yet (see DESIGN.md section 3 for the intended clause); no check is registered rather than a placeholder"


def main():
    implemented = []
    for pid, mod in RULE_MODULES.items():
        path = os.path.join(HERE, *mod.split(".")) + ".py"
        if os.path.exists(path):
            implemented.append(pid)
    checks = []
    for pid in sorted(implemented):
        c = CLAIMS[pid]
        checks.append(
            {
                "property_id": pid,
                "quick_cmd": f"./check {pid} --tier quick",
                "thorough_cmd": f"./check {pid} --tier thorough",
                "evidence_file": f"evidence/{pid}.json",
                "replay_cmd_template": f"./check {pid} --replay {{path}}",
                "engine": "sa",
                "level_claimed": {"category": "other", "text": c["text"], "design_ref": c["ref"]},
                "level_note": TRUSTED,
                "technique": c["technique"],
            }
        )
    na = [{"property_id": k, "reason": v} for k, v in sorted(NOT_APPLICABLE.items())]
    for pid in sorted(CLAIMS):
        if pid not in implemented:
            na.append({"property_id": pid, "reason": PENDING_REASON})
    na.sort(key=lambda d: d["property_id"])
    manifest = {
        "version": 1,
        "setup_cmd": "/venv/bin/python -m compileall -q sa >/dev/null && ./check C18 --tier quick --only Hypergraph.freeze >/dev/null; true",
        "hooks": {
            "guard": "XGI_VERIF",
            "enable": "no hooks: the checks are static analyses of /repo's working tree; nothing in /repo is instrumented",
            "baseline_off_cmd": "cd /repo && /venv/bin/python -m pytest -ra -q -p no:cacheprovider --timeout=900 --continue-on-collection-errors",
            "source_commits": [],
            "add_only": True,
        },
        "engines": [
            {
                "name": "sa",
                "path": "sa/",
                "serves_properties": sorted(implemented),
                "kind_free_text": "repository-specific static analysis in pure stdlib Python (ast): program model with import/MRO/freeze-shadow resolution, statement CFG with dominance/reachability, interprocedural effect+alias analysis, ID/position kind inference, RNG-family analysis; one rule module per property",
            }
        ],
        "checks": checks,
        "not_applicable": na,
        "notes": "Every check parses /repo/xgi on each run with /venv/bin/python (stdlib ast only), imports and executes nothing from /repo, exits 0/1/2 (2 = ANALYSIS-ERROR: the analysis itself could not be carried out). known_findings.json lists repaired defects (fixed:) and any recorded finding.",
    }
    with open(os.path.join(HERE, "MANIFEST.json"), "w") as f:
        json.dump(manifest, f, indent=1)
    print("claimed:", ",".join(sorted(implemented)), "| not_applicable:", ",".join(d["property_id"] for d in na))


if __name__ == "__main__":
    main()
