#!/usr/bin/env python3
"""Print the sub-agent prompt for a behaviour-preserving refactoring. usage: refactor_prompt.py <worktree> <area text>"""
import sys
wt = sys.argv[1]
area = " ".join(sys.argv[2:])
print(f"""You are helping to evaluate a verification tool for false alarms. Work ONLY inside the git worktree {wt} (a checkout of the Python library `xgi`, already created for you). Do NOT read, list or modify anything under /verif or /repo, and do not look at other directories under /tmp/seed. NEVER use `git stash` (it is shared with sibling worktrees).

TASK: make a set of realistic, strictly BEHAVIOUR-PRESERVING refactorings of the library source, the kind a maintainer does during clean-up, in this area:
    {area}
Aim for 5-8 independent edits, each small to medium: e.g. rename local variables, extract a private helper function/method and call it, inline a helper, reorder independent statements, replace a loop by a comprehension or vice versa, replace an if/elif chain by a dict dispatch or vice versa, hoist an expression into a local, use an equivalent standard-library idiom (set(x) vs x.copy() for sets, `k in d` vs `k in d.keys()`, dict(zip(..)) vs a dict comprehension, explicit loop vs any()/all()), split a long function, merge two identical branches, change the order of guard clauses that are independent, rewrite a conditional expression as an if statement. Do NOT change any observable behaviour: same results, same exceptions (types and conditions), same warnings, same iteration/insertion order of nodes and edges, same side effects on arguments, same use of random generators and seeds. Do not touch docstrings except where a signature of a NEW private helper needs one. Do not add or remove public API.

The refactorings must keep the test-suite green: run `/venv/bin/python /tmp/seed/baseline.py {wt}` (about 30 s; it runs tests/ and doctests in your worktree and compares with the tests that pass on the unchanged tree; it must print `missing=0`; two drawing tests, `test_issue_515` and the `xgi.drawing.draw.draw` doctest, are flaky on the unchanged tree - if only those are reported, rerun).

DELIVERABLES (write them under {wt}/_seed/):
 - `patch.diff`: output of `git -C {wt} diff -- xgi`;
 - `notes.md`: one bullet per edit: file, function, what was changed and one sentence on why behaviour is unchanged.
Leave the changes applied. In your final answer list the edits briefly and the baseline result.""")
