"""Program model of the xgi package, built from source only (nothing is imported or run).

Parses every module under <repo>/xgi, resolves relative imports, star imports through
``__all__`` and the re-export chain up to ``xgi/__init__.py``; builds the class model
(MRO, methods, names shadowed by ``freeze``) and the public API table.
"""
from __future__ import annotations

import ast
import copy
import hashlib
import os
from dataclasses import dataclass, field


class AnalysisError(Exception):
    """The analysis could not be carried out (exit 2), as opposed to a violation."""


CORE_CLASSES = ("Hypergraph", "DiHypergraph", "SimplicialComplex")
VIEW_CLASSES = ("IDView", "NodeView", "EdgeView", "DiNodeView", "DiEdgeView")


@dataclass
class FunctionInfo:
    module: "ModuleInfo"
    name: str
    qualname: str
    node: ast.FunctionDef
    cls: "ClassInfo | None" = None
    parent: "FunctionInfo | None" = None

    @property
    def file(self):
        return self.module.relfile

    @property
    def params(self):
        a = self.node.args
        return [x.arg for x in a.posonlyargs + a.args]

    @property
    def kwonly(self):
        return [x.arg for x in self.node.args.kwonlyargs]

    @property
    def all_params(self):
        a = self.node.args
        out = [x.arg for x in a.posonlyargs + a.args + a.kwonlyargs]
        if a.vararg:
            out.append(a.vararg.arg)
        if a.kwarg:
            out.append(a.kwarg.arg)
        return out

    @property
    def fq(self):
        return f"{self.module.name}:{self.qualname}"

    def docstring(self):
        return ast.get_docstring(self.node) or ""

    def decorators(self):
        return [ast.unparse(d) for d in self.node.decorator_list]

    def is_property(self):
        return any(d in ("property", "functools.cached_property", "cached_property") for d in self.decorators())

    def __hash__(self):
        return hash(self.fq)

    def __eq__(self, other):
        return isinstance(other, FunctionInfo) and other.fq == self.fq

    def __repr__(self):
        return f"<fn {self.fq}>"


@dataclass
class ClassInfo:
    module: "ModuleInfo"
    name: str
    node: ast.ClassDef
    base_exprs: list = field(default_factory=list)
    methods: dict = field(default_factory=dict)
    class_attrs: dict = field(default_factory=dict)

    def __hash__(self):
        return hash((self.module.name, self.name))

    def __eq__(self, other):
        return isinstance(other, ClassInfo) and (other.module.name, other.name) == (self.module.name, self.name)

    def __repr__(self):
        return f"<class {self.module.name}.{self.name}>"


@dataclass
class ModuleInfo:
    name: str
    file: str
    relfile: str
    is_pkg: bool
    src: str
    tree: ast.Module
    functions: dict = field(default_factory=dict)
    classes: dict = field(default_factory=dict)
    imports: dict = field(default_factory=dict)  # local name -> ("mod", modname) | ("obj", modname, attr)
    star_imports: list = field(default_factory=list)
    all: list | None = None
    assigns: dict = field(default_factory=dict)  # module-level NAME = expr

    @property
    def package(self):
        return self.name if self.is_pkg else self.name.rsplit(".", 1)[0]

    def __repr__(self):
        return f"<module {self.name}>"


@dataclass(frozen=True)
class External:
    """A name that resolves outside the package (numpy, random, networkx, builtins...)."""

    path: str

    def __repr__(self):
        return f"<ext {self.path}>"


class Repo:
    def __init__(self, root="/repo", pkg="xgi"):
        self.root = os.path.abspath(root)
        self.pkg = pkg
        self.modules: dict[str, ModuleInfo] = {}
        self._load()
        self._mro_cache = {}

    # ------------------------------------------------------------------ loading
    def _load(self):
        base = os.path.join(self.root, self.pkg)
        if not os.path.isdir(base):
            raise AnalysisError(f"package directory {base} not found")
        for dirpath, dirnames, filenames in os.walk(base):
            dirnames[:] = sorted(d for d in dirnames if d != "__pycache__")
            for fn in sorted(filenames):
                if not fn.endswith(".py"):
                    continue
                path = os.path.join(dirpath, fn)
                rel = os.path.relpath(path, self.root)
                parts = rel[:-3].split(os.sep)
                is_pkg = parts[-1] == "__init__"
                if is_pkg:
                    parts = parts[:-1]
                modname = ".".join(parts)
                try:
                    src = open(path, encoding="utf-8").read()
                    tree = ast.parse(src, filename=path)
                except (SyntaxError, UnicodeDecodeError) as e:
                    raise AnalysisError(f"cannot parse {rel}: {e}")
                mi = ModuleInfo(modname, path, rel, is_pkg, src, tree)
                self.modules[modname] = mi
        for mi in self.modules.values():
            self._index(mi)
        for mi in self.modules.values():
            for ci in mi.classes.values():
                self._index_class_aliases(mi, ci)

    def _index_class_aliases(self, mi: "ModuleInfo", ci: "ClassInfo"):
        """Class-level bindings that create methods without a `def` in the class body:
            name = other_method                 the same function under a second name
            name = factory(..., other_method)   a closure returned by a module-level factory
        Both bypass an instance-level shadow of `other_method` (the function object is captured, not looked up through
        the instance), so they are modelled as methods of their own: a renamed copy of the aliased def, or the factory's
        returned closure with the factory's parameters replaced by the arguments of the call (a captured method becomes
        the direct call `Class.other_method(self, ...)`)."""
        for sub in ci.node.body:
            if not (isinstance(sub, ast.Assign) and len(sub.targets) == 1 and isinstance(sub.targets[0], ast.Name)):
                continue
            tname = sub.targets[0].id
            if tname in ci.methods:
                continue
            v = sub.value
            new = None
            if isinstance(v, ast.Name) and v.id in ci.methods:
                new = copy.deepcopy(ci.methods[v.id].node)
            elif isinstance(v, ast.Call) and isinstance(v.func, ast.Name) and not v.keywords:
                fac = mi.functions.get(v.func.id)
                if fac is None:
                    tgt = mi.imports.get(v.func.id)
                    if tgt and tgt[0] == "obj" and tgt[1] in self.modules:
                        fac = self.modules[tgt[1]].functions.get(tgt[2])
                if fac is None:
                    continue
                nested_ids = {id(x) for d in fac.node.body if isinstance(d, (ast.FunctionDef, ast.AsyncFunctionDef, ast.ClassDef)) for x in ast.walk(d)}
                rets = [r.value for r in ast.walk(fac.node) if isinstance(r, ast.Return) and r.value is not None and id(r) not in nested_ids]
                inner = [d for d in fac.node.body if isinstance(d, (ast.FunctionDef, ast.AsyncFunctionDef))]
                if len(rets) != 1 or not isinstance(rets[0], ast.Name) or not any(d.name == rets[0].id for d in inner):
                    continue
                g = next(d for d in inner if d.name == rets[0].id)
                fparams = [a.arg for a in fac.node.args.posonlyargs + fac.node.args.args]
                if len(v.args) > len(fparams) or any(isinstance(a, ast.Starred) for a in v.args):
                    continue
                binding = {}
                for p_, a in zip(fparams, v.args):
                    if isinstance(a, ast.Name) and a.id in ci.methods:
                        binding[p_] = ast.Attribute(value=ast.Name(id=ci.name, ctx=ast.Load()), attr=a.id, ctx=ast.Load())
                    elif isinstance(a, ast.Constant):
                        binding[p_] = a
                new = copy.deepcopy(g)
                shadow = {a.arg for a in new.args.posonlyargs + new.args.args + new.args.kwonlyargs}

                class Sub(ast.NodeTransformer):
                    def visit_Name(self, n):
                        if isinstance(n.ctx, ast.Load) and n.id in binding and n.id not in shadow:
                            return ast.copy_location(copy.deepcopy(binding[n.id]), n)
                        return n

                new = Sub().visit(new)
                ast.fix_missing_locations(new)
            if new is None:
                continue
            new.name = tname
            new.lineno, new.col_offset = sub.lineno, sub.col_offset
            new.end_lineno, new.end_col_offset = getattr(sub, "end_lineno", sub.lineno), getattr(sub, "end_col_offset", 0)
            fi = FunctionInfo(mi, tname, f"{ci.name}.{tname}", new, ci)
            ci.methods[tname] = fi
            self._index_nested(fi)

    def digest(self):
        if getattr(self, "_digest", None):
            return self._digest
        h = hashlib.sha256()
        for name in sorted(self.modules):
            h.update(name.encode())
            h.update(self.modules[name].src.encode())
        self._digest = h.hexdigest()[:16]
        return self._digest

    def _abs_module(self, mi: ModuleInfo, level: int, module: str | None):
        if level == 0:
            return module
        pkg = mi.package.split(".")
        if level > 1:
            pkg = pkg[: len(pkg) - (level - 1)]
        base = ".".join(pkg)
        return f"{base}.{module}" if module else base

    def _index(self, mi: ModuleInfo):
        def add_imports(node, table, stars):
            if isinstance(node, ast.Import):
                for a in node.names:
                    if a.asname:
                        table[a.asname] = ("mod", a.name)
                    else:
                        table[a.name.split(".")[0]] = ("mod", a.name.split(".")[0])
            elif isinstance(node, ast.ImportFrom):
                target = self._abs_module(mi, node.level, node.module)
                for a in node.names:
                    if a.name == "*":
                        stars.append(target)
                    else:
                        table[a.asname or a.name] = ("obj", target, a.name)

        for node in mi.tree.body:
            add_imports(node, mi.imports, mi.star_imports)
            if isinstance(node, (ast.If, ast.Try)):
                for sub in ast.walk(node):
                    add_imports(sub, mi.imports, mi.star_imports)
            if isinstance(node, ast.Assign) and len(node.targets) == 1 and isinstance(node.targets[0], ast.Name):
                tname = node.targets[0].id
                mi.assigns[tname] = node.value
                if tname == "__all__":
                    try:
                        mi.all = [e.value for e in node.value.elts]
                    except Exception:
                        mi.all = None
            if isinstance(node, ast.AugAssign) and isinstance(node.target, ast.Name) and node.target.id == "__all__":
                try:
                    mi.all = (mi.all or []) + [e.value for e in node.value.elts]
                except Exception:
                    pass
            if isinstance(node, (ast.FunctionDef, ast.AsyncFunctionDef)):
                fi = FunctionInfo(mi, node.name, node.name, node)
                mi.functions[node.name] = fi
                self._index_nested(fi)
            elif isinstance(node, ast.ClassDef):
                ci = ClassInfo(mi, node.name, node, [ast.unparse(b) for b in node.bases])
                mi.classes[node.name] = ci
                for sub in node.body:
                    if isinstance(sub, (ast.FunctionDef, ast.AsyncFunctionDef)):
                        fi = FunctionInfo(mi, sub.name, f"{node.name}.{sub.name}", sub, ci)
                        # property setters etc. keep the first definition with that name unless property
                        ci.methods[sub.name] = fi
                        self._index_nested(fi)
                    elif isinstance(sub, ast.Assign):
                        for t in sub.targets:
                            if isinstance(t, ast.Name):
                                ci.class_attrs[t.id] = sub.value

    def _index_nested(self, fi: FunctionInfo):
        fi.local_imports = {}
        fi.nested = {}
        stars = []
        for sub in ast.walk(fi.node):
            if isinstance(sub, ast.Import):
                for a in sub.names:
                    if a.asname:
                        fi.local_imports[a.asname] = ("mod", a.name)
                    else:
                        fi.local_imports[a.name.split(".")[0]] = ("mod", a.name.split(".")[0])
            elif isinstance(sub, ast.ImportFrom):
                target = self._abs_module(fi.module, sub.level, sub.module)
                for a in sub.names:
                    if a.name != "*":
                        fi.local_imports[a.asname or a.name] = ("obj", target, a.name)
        for sub in fi.node.body:
            for s2 in ast.walk(sub):
                if isinstance(s2, (ast.FunctionDef, ast.AsyncFunctionDef)) and s2 is not fi.node:
                    if s2.name not in fi.nested:
                        fi.nested[s2.name] = FunctionInfo(fi.module, s2.name, f"{fi.qualname}.<locals>.{s2.name}", s2, None, fi)

    # ------------------------------------------------------------------ resolution
    def module_names(self, mi: ModuleInfo, _seen=None):
        """All names visible at module level of mi (own defs, imports, star imports)."""
        _seen = _seen or set()
        if mi.name in _seen:
            return {}
        _seen.add(mi.name)
        names = {}
        for target in mi.star_imports:
            tm = self.modules.get(target)
            if tm is None:
                continue
            exported = self.exported_names(tm, _seen)
            for n, obj in exported.items():
                names[n] = obj
        for n, imp in mi.imports.items():
            names[n] = imp
        for n, f in mi.functions.items():
            names[n] = f
        for n, c in mi.classes.items():
            names[n] = c
        return names

    def exported_names(self, mi: ModuleInfo, _seen=None):
        names = self.module_names(mi, set(_seen) if _seen else None)
        out = {}
        if mi.all is not None:
            for n in mi.all:
                if n in names:
                    out[n] = self._deref(names[n])
        else:
            for n, o in names.items():
                if not n.startswith("_"):
                    out[n] = self._deref(o)
        return out

    def _deref(self, obj, depth=0):
        """Follow ("obj", mod, attr)/("mod", name) import records to definitions."""
        if depth > 12:
            return External("?")
        if isinstance(obj, tuple):
            if obj[0] == "mod":
                m = self.modules.get(obj[1])
                return m if m is not None else External(obj[1])
            if obj[0] == "obj":
                _, modname, attr = obj
                tm = self.modules.get(modname)
                if tm is None:
                    if modname and modname.split(".")[0] == self.pkg:
                        return External(f"{modname}.{attr}")
                    return External(f"{modname}.{attr}")
                sub = self.modules.get(f"{modname}.{attr}")
                names = self.module_names(tm)
                if attr in names:
                    return self._deref(names[attr], depth + 1)
                if sub is not None:
                    return sub
                return External(f"{modname}.{attr}")
        return obj

    def resolve_in_module(self, mi: ModuleInfo, name: str):
        names = self.module_names(mi)
        if name in names:
            return self._deref(names[name])
        return None

    def resolve_name(self, fi: FunctionInfo | None, mi: ModuleInfo, name: str):
        """Resolve a bare name as seen from function fi (local imports, nested defs, enclosing) or module mi."""
        f = fi
        while f is not None:
            if name in getattr(f, "nested", {}):
                return f.nested[name]
            if name in getattr(f, "local_imports", {}):
                return self._deref(f.local_imports[name])
            f = f.parent
        return self.resolve_in_module(mi, name)

    def resolve_dotted(self, fi, mi, expr: ast.AST):
        """Resolve Name / Attribute chains such as np.random.rand, xgi.convert.to_hypergraph, nx.Graph."""
        if isinstance(expr, ast.Name):
            return self.resolve_name(fi, mi, expr.id)
        if isinstance(expr, ast.Attribute):
            base = self.resolve_dotted(fi, mi, expr.value)
            if base is None:
                return None
            if isinstance(base, External):
                return External(f"{base.path}.{expr.attr}")
            if isinstance(base, ModuleInfo):
                sub = self.modules.get(f"{base.name}.{expr.attr}")
                r = self.resolve_in_module(base, expr.attr)
                if r is not None:
                    return r
                return sub
            if isinstance(base, ClassInfo):
                m = self.find_method(base, expr.attr)
                return m
        return None

    # ------------------------------------------------------------------ classes
    def get_class(self, name: str) -> ClassInfo:
        for mi in self.modules.values():
            if name in mi.classes:
                return mi.classes[name]
        raise AnalysisError(f"class {name} not found in package (anchor vanished)")

    def find_class(self, name: str):
        for mi in self.modules.values():
            if name in mi.classes:
                return mi.classes[name]
        return None

    def mro(self, ci: ClassInfo):
        key = (ci.module.name, ci.name)
        if key in self._mro_cache:
            return self._mro_cache[key]
        out = [ci]
        for b in ci.base_exprs:
            base = self.resolve_in_module(ci.module, b.split(".")[-1]) if "." not in b else None
            if isinstance(base, ClassInfo):
                for c in self.mro(base):
                    if c not in out:
                        out.append(c)
        self._mro_cache[key] = out
        return out

    def find_method(self, ci: ClassInfo, name: str):
        for c in self.mro(ci):
            if name in c.methods:
                return c.methods[name]
        return None

    def all_methods(self, ci: ClassInfo):
        out = {}
        for c in reversed(self.mro(ci)):
            out.update(c.methods)
        return out

    def frozen_names(self, ci: ClassInfo):
        """Names assigned ``frozen`` on the instance by the freeze() the class resolves to."""
        fz = self.find_method(ci, "freeze")
        if fz is None:
            raise AnalysisError(f"{ci.name}.freeze not found (anchor vanished)")
        return frozen_names_of(self, fz), fz

    # ------------------------------------------------------------------ API
    def public_api(self):
        top = self.modules.get(self.pkg)
        if top is None:
            raise AnalysisError("top-level package module not found")
        names = self.exported_names(top) if top.all is not None else {n: self._deref(o) for n, o in self.module_names(top).items() if not n.startswith("_")}
        out = {}
        # also sub-packages reachable as attributes (xgi.communities.spectral...)
        for n, o in names.items():
            out[n] = o
        return out

    def public_functions(self):
        """Every function reachable through a chain of public names from ``xgi``: the names
        exported by xgi/__init__ plus the ``__all__`` of every sub-module."""
        seen = {}
        for n, o in self.public_api().items():
            if isinstance(o, FunctionInfo):
                seen[o.fq] = o
        for mi in self.modules.values():
            if any(p.startswith("_") for p in mi.name.split(".")):
                continue
            if mi.all is not None:
                for n in mi.all:
                    o = self.resolve_in_module(mi, n)
                    if isinstance(o, FunctionInfo):
                        seen[o.fq] = o
        return sorted(seen.values(), key=lambda f: f.fq)

    def all_functions(self):
        out = []
        for mi in self.modules.values():
            out.extend(mi.functions.values())
            for ci in mi.classes.values():
                out.extend(ci.methods.values())
        return out

    def function(self, modname: str, qualname: str) -> FunctionInfo:
        mi = self.modules.get(modname)
        if mi is None:
            raise AnalysisError(f"module {modname} not found (anchor vanished)")
        if "." in qualname:
            c, m = qualname.split(".", 1)
            ci = mi.classes.get(c)
            if ci is None or m not in ci.methods:
                raise AnalysisError(f"{modname}:{qualname} not found (anchor vanished)")
            return ci.methods[m]
        if qualname not in mi.functions:
            raise AnalysisError(f"{modname}:{qualname} not found (anchor vanished)")
        return mi.functions[qualname]


def frozen_names_of(repo: Repo, fz: FunctionInfo):
    """Names X such that freeze() executes ``self.X = frozen`` (directly, via setattr over a
    literal tuple/list of names, or in a loop over such a literal)."""
    names = set()
    selfname = fz.params[0] if fz.params else "self"

    def is_frozen_expr(e):
        if isinstance(e, ast.Name):
            r = repo.resolve_name(fz, fz.module, e.id)
            return isinstance(r, FunctionInfo) and r.name == "frozen"
        return False

    def literal_names(e, env):
        if isinstance(e, (ast.Tuple, ast.List, ast.Set)):
            out = []
            for x in e.elts:
                if isinstance(x, ast.Constant) and isinstance(x.value, str):
                    out.append(x.value)
                else:
                    return None
            return out
        if isinstance(e, ast.Name) and e.id in env:
            return env[e.id]
        return None

    env = {}
    for st in ast.walk(fz.node):
        if isinstance(st, ast.Assign) and len(st.targets) == 1 and isinstance(st.targets[0], ast.Name):
            lit = literal_names(st.value, env)
            if lit is not None:
                env[st.targets[0].id] = lit
    for st in ast.walk(fz.node):
        if isinstance(st, ast.Assign) and is_frozen_expr(st.value):
            for t in st.targets:
                if isinstance(t, ast.Attribute) and isinstance(t.value, ast.Name) and t.value.id == selfname:
                    names.add(t.attr)
        if isinstance(st, ast.For) and isinstance(st.target, ast.Name):
            lit = literal_names(st.iter, env)
            if lit is None:
                continue
            for sub in ast.walk(st):
                if (
                    isinstance(sub, ast.Call)
                    and isinstance(sub.func, ast.Name)
                    and sub.func.id == "setattr"
                    and len(sub.args) == 3
                    and isinstance(sub.args[0], ast.Name)
                    and sub.args[0].id == selfname
                    and isinstance(sub.args[1], ast.Name)
                    and sub.args[1].id == st.target.id
                    and is_frozen_expr(sub.args[2])
                ):
                    names.update(lit)
        if (
            isinstance(st, ast.Call)
            and isinstance(st.func, ast.Name)
            and st.func.id == "setattr"
            and len(st.args) == 3
            and isinstance(st.args[0], ast.Name)
            and st.args[0].id == selfname
            and isinstance(st.args[1], ast.Constant)
            and is_frozen_expr(st.args[2])
        ):
            names.add(st.args[1].value)
    return names


# ---------------------------------------------------------------------- helpers
def norm_stmt(node: ast.AST, maxlen=200) -> str:
    """Normalised source of a statement: unparse with locals alpha-renamed by first occurrence.
    Compound statements are reduced to their header."""
    n = node
    if isinstance(n, (ast.If, ast.While)):
        text = ("if " if isinstance(n, ast.If) else "while ") + _unparse_renamed(n.test)
    elif isinstance(n, ast.For):
        text = "for " + _unparse_renamed(ast.Tuple([n.target, n.iter], ast.Load()))
    elif isinstance(n, (ast.FunctionDef, ast.ClassDef)):
        text = f"def {n.name}"
    elif isinstance(n, (ast.Try, ast.With)):
        text = type(n).__name__.lower()
    else:
        text = _unparse_renamed(n)
    text = " ".join(text.split())
    return text[:maxlen]


def _unparse_renamed(node):
    import copy

    node = copy.deepcopy(node)
    mapping = {}
    for sub in ast.walk(node):
        if isinstance(sub, ast.Name):
            if sub.id not in mapping:
                mapping[sub.id] = sub.id  # keep names: alpha-renaming applied only to obvious temporaries
    try:
        return ast.unparse(node)
    except Exception:
        return type(node).__name__


def stmt_of(fn_node: ast.AST, target: ast.AST):
    """Innermost statement of fn_node containing target."""
    best = None
    for st in ast.walk(fn_node):
        if isinstance(st, ast.stmt) and hasattr(st, "lineno"):
            if st.lineno <= target.lineno <= (st.end_lineno or st.lineno):
                for sub in ast.walk(st):
                    if sub is target:
                        if best is None or (st.lineno >= best.lineno and (st.end_lineno or 0) <= (best.end_lineno or 10**9)):
                            best = st
                        break
    return best


def numpydoc_param_types(doc: str) -> dict:
    """Map parameter name -> type text from the numpydoc Parameters section of a dedented docstring."""
    out = {}
    lines = doc.splitlines()
    n = len(lines)
    i = 0
    while i < n:
        if lines[i].strip() == "Parameters" and i + 1 < n and lines[i + 1].strip() and set(lines[i + 1].strip()) == {"-"}:
            i += 2
            while i < n:
                line = lines[i]
                if i + 1 < n and line.strip() and lines[i + 1].strip() and set(lines[i + 1].strip()) == {"-"}:
                    break
                if line and not line[0].isspace():
                    name, sep, typ = line.partition(":")
                    for nm in name.split(","):
                        nm = nm.strip().lstrip("*")
                        if nm:
                            out[nm] = typ.strip()
                i += 1
            break
        i += 1
    return out
