"""Self-test of the checker (thorough tier): each rule must fire on a scratch copy of the CURRENT tree
with one instance broken and stay silent on behaviour-preserving refactorings.

Variants are small source edits anchored on a snippet of the current tree; an operator whose anchor
is absent (the tree was edited) is skipped and counted, never an error. Every variant is written to
a scratch copy of xgi/ under tempfile.mkdtemp() (outside /repo and /verif), compiled, analysed
with --repo, and removed immediately. A mutant that is not reported, or a refactoring that is
reported, makes the thorough command exit 2 (ANALYSIS-ERROR self-test): it says the checker is
unhealthy, not that xgi is wrong.
"""
from __future__ import annotations

import os
import shutil
import tempfile
import time
from concurrent.futures import ProcessPoolExecutor


def _apply(repo_root, variant):
    """Returns scratch dir or None (anchor absent)."""
    edits = variant["edits"]
    srcs = {}
    for e in edits:
        path = os.path.join(repo_root, e["file"])
        if not os.path.exists(path):
            return None
        s = srcs.get(e["file"])
        if s is None:
            s = open(path, encoding="utf-8").read()
        cnt = s.count(e["old"])
        if cnt == 0 or (e.get("count", 1) and cnt != e.get("count", 1) and not e.get("all")):
            return None
        s = s.replace(e["old"], e["new"]) if e.get("all") else s.replace(e["old"], e["new"], 1)
        srcs[e["file"]] = s
    tmp = tempfile.mkdtemp(prefix="xgi_selftest_")
    shutil.copytree(os.path.join(repo_root, "xgi"), os.path.join(tmp, "xgi"), ignore=shutil.ignore_patterns("__pycache__"))
    for f, s in srcs.items():
        with open(os.path.join(tmp, f), "w", encoding="utf-8") as fh:
            fh.write(s)
        try:
            compile(s, f, "exec")
        except SyntaxError:
            shutil.rmtree(tmp, ignore_errors=True)
            return "SYNTAX"
    return tmp


VERIF_ROOT = os.path.dirname(os.path.dirname(os.path.dirname(os.path.abspath(__file__))))


def _apply_patch(repo_root, patch):
    """Scratch copy of xgi/ with a recorded patch (seeded change or refactoring) applied; None if it no longer applies."""
    import subprocess

    tmp = tempfile.mkdtemp(prefix="xgi_selftest_")
    shutil.copytree(os.path.join(repo_root, "xgi"), os.path.join(tmp, "xgi"), ignore=shutil.ignore_patterns("__pycache__"))
    r = subprocess.run(["git", "apply", "--include=xgi/*", os.path.abspath(patch)], cwd=tmp, capture_output=True, env={**os.environ, "GIT_CEILING_DIRECTORIES": os.path.dirname(tmp)})
    if r.returncode != 0:
        shutil.rmtree(tmp, ignore_errors=True)
        return None
    return tmp


def recorded_patches(prop):
    """Variants from the recorded patches: the seeded changes of this property (must be reported) and the
    behaviour-preserving refactorings produced by independent agents (must stay silent)."""
    import glob
    import json

    out = []
    for meta in sorted(glob.glob(os.path.join(VERIF_ROOT, "seeded", "*", "meta.json"))):
        try:
            m = json.load(open(meta))
        except Exception:  # noqa: BLE001
            continue
        if m.get("property") == prop:
            d = os.path.dirname(meta)
            if m.get("expected_outcome") == "not-caught":
                # a recorded miss (reason in meta.json and DESIGN.md): replayed to notice when it starts being reported
                out.append({"name": "seeded-" + os.path.basename(d), "kind": "recorded-miss", "patch": os.path.join(d, "patch.diff")})
                continue
            out.append({"name": "seeded-" + os.path.basename(d), "kind": "mutant", "patch": os.path.join(d, "patch.diff")})
    for pf in sorted(glob.glob(os.path.join(VERIF_ROOT, "refactors", "*.diff"))):
        out.append({"name": "refactor-" + os.path.basename(pf)[:-5], "kind": "refactoring", "patch": pf})
    return out


def _run_variant(args):
    prop, repo_root, variant = args
    from .. import cli
    from ..model import AnalysisError

    tmp = _apply_patch(repo_root, variant["patch"]) if "patch" in variant else _apply(repo_root, variant)
    if tmp is None:
        return (variant["name"], "skipped", "anchor absent in the current tree")
    if tmp == "SYNTAX":
        return (variant["name"], "broken-operator", "variant does not compile")
    try:
        try:
            code, result, violations, known, lines = cli.run_check(prop, tmp, "quick", None, 0, quiet=True, write=False)
        except AnalysisError as e:
            code, violations = 2, []
            lines = [f"ANALYSIS-ERROR {e}"]
        except Exception as e:  # noqa: BLE001
            code, violations = 2, []
            lines = [f"ANALYSIS-ERROR internal {type(e).__name__}: {e}"]
        if variant["kind"] == "recorded-miss":
            return (variant["name"], "recorded-miss", "now reported" if violations else "still not reported (see meta.json)")
        if variant["kind"] == "mutant":
            exp_rule = variant.get("rule")
            exp_fn = variant.get("function")
            hit = [v for v in violations if (exp_rule is None or v.rule == exp_rule or v.rule in (exp_rule if isinstance(exp_rule, (list, tuple)) else ())) and (exp_fn is None or exp_fn in v.function or exp_fn in v.statement or any(exp_fn in str(p) for p in v.path))]
            if hit:
                return (variant["name"], "caught", f"{hit[0].rule} {hit[0].function}")
            if code == 2 and variant.get("exit2_ok"):
                return (variant["name"], "caught", "analysis refused the variant (exit 2)")
            return (variant["name"], "MISSED", f"exit={code} violations={[(v.rule, v.function) for v in violations][:4]} {lines[-1] if lines else ''}")
        else:
            if code == 0:
                return (variant["name"], "silent", "")
            if code == 2 and variant.get("exit2_ok"):
                return (variant["name"], "silent", "analysis refused the variant (exit 2), which is allowed for this refactoring")
            return (variant["name"], "FALSE-ALARM", f"exit={code} {[(v.rule, v.function, v.message[:80]) for v in violations][:3]} {lines[-1] if lines else ''}")
    finally:
        shutil.rmtree(tmp, ignore_errors=True)


def _run_snapshot(args):
    """Historical regression: the pinned snapshot (before the fix: commits) must still be flagged at the repaired constructs."""
    import subprocess
    prop, repo_root, commit, expected = args
    from .. import cli
    from ..model import AnalysisError

    name = f"pinned-snapshot-{commit}"
    try:
        r = subprocess.run(["git", "-C", repo_root, "cat-file", "-e", commit + "^{commit}"], capture_output=True)
        if r.returncode != 0:
            return (name, "skipped", "snapshot commit not available in this checkout")
    except Exception as e:  # noqa: BLE001
        return (name, "skipped", f"git not usable: {e}")
    tmp = tempfile.mkdtemp(prefix="xgi_selftest_snap_")
    try:
        ar = subprocess.run(f"git -C {repo_root} archive {commit} xgi | tar -x -C {tmp}", shell=True, capture_output=True)
        if ar.returncode != 0 or not os.path.isdir(os.path.join(tmp, "xgi")):
            return (name, "skipped", "could not extract the snapshot")
        try:
            code, result, violations, known, lines = cli.run_check(prop, tmp, "quick", None, 0, quiet=True, write=False)
        except AnalysisError as e:
            return (name, "MISSED", f"analysis error on the snapshot: {e}")
        missing = []
        for rule, where in expected:
            if not any(v.rule == rule and (where in v.function or where in v.statement or where in v.message) for v in violations):
                missing.append((rule, where))
        if missing:
            return (name, "MISSED", f"not reported on the pinned snapshot: {missing}")
        return (name, "caught", f"{len(expected)} historical defects re-detected")
    finally:
        shutil.rmtree(tmp, ignore_errors=True)


def run_selftest(prop, repo_root, seed=0, jobs=16):
    from . import variants as V

    vs = V.variants_for(prop) + recorded_patches(prop)
    t0 = time.time()
    if not vs:
        return 0, [f"[{prop}] self-test: no variants registered"]
    work = [(prop, repo_root, v) for v in vs]
    with ProcessPoolExecutor(max_workers=min(jobs, len(work) + 1)) as ex:
        hist = V.HISTORICAL.get(prop)
        fut = ex.submit(_run_snapshot, (prop, repo_root, V.PINNED_SNAPSHOT, hist)) if hist else None
        results = list(ex.map(_run_variant, work))
        if fut is not None:
            results.append(fut.result())
    lines = []
    bad = 0
    counts = {}
    for name, status, detail in results:
        counts[status] = counts.get(status, 0) + 1
        if status == "skipped":
            lines.append(f"[{prop}] self-test: variant {name} skipped ({detail})")
        if status in ("MISSED", "FALSE-ALARM", "broken-operator"):
            bad += 1
            lines.append(f"ANALYSIS-ERROR self-test property={prop} variant={name}: {status} {detail}")
    lines.append(f"[{prop}] self-test: {len(results)} variants {counts} in {time.time() - t0:.1f}s")
    return (2 if bad else 0), lines
