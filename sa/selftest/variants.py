"""Variant tables for the self-test: mutants (must be reported) and refactorings (must stay silent).

Each variant is one or more snippet replacements anchored on the current source. Snippets are kept short
and specific; when the tree changes so that an anchor no longer occurs exactly once the variant is
skipped (and counted) by the driver.
"""
from __future__ import annotations

HG = "xgi/core/hypergraph.py"
DH = "xgi/core/dihypergraph.py"
SC = "xgi/core/simplicialcomplex.py"
VW = "xgi/core/views.py"
UT = "xgi/utils/utilities.py"
ST = "xgi/stats/__init__.py"


def M(name, file, old, new, rule=None, function=None, **kw):
    d = {"kind": "mutant", "name": name, "edits": [{"file": file, "old": old, "new": new}], "rule": rule, "function": function}
    d.update(kw)
    return d


def M2(name, edits, rule=None, function=None, **kw):
    d = {"kind": "mutant", "name": name, "edits": [{"file": f, "old": o, "new": n} for f, o, n in edits], "rule": rule, "function": function}
    d.update(kw)
    return d


def R(name, file, old, new, **kw):
    d = {"kind": "refactor", "name": name, "edits": [{"file": file, "old": old, "new": new}]}
    d.update(kw)
    return d


def R2(name, edits, **kw):
    d = {"kind": "refactor", "name": name, "edits": [{"file": f, "old": o, "new": n} for f, o, n in edits]}
    d.update(kw)
    return d


VARIANTS = {}

# --------------------------------------------------------------------------- C18
VARIANTS["C18"] = [
    M("hg-freeze-drop-clear_edges", HG, "        self.clear_edges = frozen\n", "", "Z-COVER", "clear_edges"),
    M("hg-freeze-drop-add_node_to_edge", HG, "        self.add_node_to_edge = frozen\n", "", "Z-COVER", "add_node_to_edge"),
    M("hg-freeze-drop-remove_node", HG, "        self.remove_node = frozen\n", "", "Z-COVER", "remove_node"),
    M("dh-freeze-drop-remove_edge", DH, "        self.remove_edge = frozen\n", "", "Z-COVER", "remove_edge"),
    M("sc-freeze-drop-add_simplex", SC, "        self.add_simplex = frozen\n", "", "Z-COVER", "add_simplex"),
    M("sc-freeze-drop-double_edge_swap", SC, "        self.double_edge_swap = frozen\n", "", "Z-COVER", "double_edge_swap"),
    M(
        "hg-new-public-writer", HG, "    def clear_edges(self):",
        "    def drop_edge_members(self, idx):\n        for node in self._edge[idx]:\n            self._node[node].discard(idx)\n        self._edge[idx] = set()\n\n    def clear_edges(self):",
        "Z-COVER", "drop_edge_members",
    ),
    M("subhypergraph-no-freeze", "xgi/core/globalviews.py", "    new.freeze()\n", "", "Z-SUB"),
    M("frozen-returns", "xgi/exception.py", '    raise XGIError("Frozen higher-order network can\'t be modified")', "    return None", "Z-RAISE"),
    M("freeze-no-flag", DH, "        self.clear = frozen\n        self.frozen = True", "        self.clear = frozen", "Z-FLAG"),
    M(
        "is_frozen-default-true", HG,
        "        try:\n            return self.frozen\n        except AttributeError:\n            return False",
        "        try:\n            return self.frozen\n        except AttributeError:\n            return True",
        "Z-FLAG",
    ),
    M(
        "relabel-writes-tables-directly", UT, "    net.clear(remove_net_attr=False)\n",
        "    net._node.clear()\n    net._edge.clear()\n    net.clear(remove_net_attr=False)\n", "Z-COVER-FN", "convert_labels_to_integers",
    ),
    R(
        "hg-freeze-list-reordered", HG,
        "        self.add_node = frozen\n        self.add_nodes_from = frozen\n",
        "        self.add_nodes_from = frozen\n        self.add_node = frozen\n",
    ),
    R(
        "dh-freeze-loop-over-names", DH,
        "        self.add_node = frozen\n        self.add_nodes_from = frozen\n        self.remove_node = frozen\n        self.remove_nodes_from = frozen\n",
        "        for _name in (\"add_node\", \"add_nodes_from\", \"remove_node\", \"remove_nodes_from\"):\n            setattr(self, _name, frozen)\n",
    ),
    R(
        "is_frozen-getattr-form", SC,
        "        try:\n            return self.frozen\n        except AttributeError:\n            return False",
        "        return getattr(self, \"frozen\", False)",
    ),
]

# --------------------------------------------------------------------------- C08
VARIANTS["C08"] = [
    M(
        "members-no-copy", VW,
        "        if e not in self:\n            raise IDNotFound(f'ID \"{e}\" not in this view')\n\n        return self._id_dict[e].copy()",
        "        if e not in self:\n            raise IDNotFound(f'ID \"{e}\" not in this view')\n\n        return self._id_dict[e]",
        "P-VIEWCOPY", "EdgeView.members",
    ),
    M("memberships-no-copy", VW, "            else self._id_dict[n].copy()\n        )", "            else self._id_dict[n]\n        )", "P-VIEWCOPY", "NodeView.memberships"),
    M(
        "algorithm-removes-edges", "xgi/algorithms/properties.py", "def is_uniform(H):", "def is_uniform(H):\n    H.remove_edges_from(H.edges.singletons())\n    return _is_uniform(H)\n\n\ndef _is_uniform(H):",
        "P-PURE", "is_uniform",
    ),
    M(
        "algorithm-discards-through-alias", "xgi/algorithms/clustering.py", "    memberships = H.nodes.memberships()\n    members = H.edges.members(dtype=dict)\n",
        "    memberships = H.nodes.memberships()\n    members = H._edge\n    for e in members:\n        members[e].discard(None)\n", "P-PURE", "local_clustering_coefficient",
    ),
    M(
        "largest-component-in_place-inverted", "xgi/algorithms/connected.py", "    if not in_place:\n        return subhypergraph(H, nodes=connected_nodes).copy()", "    if in_place:\n        return subhypergraph(H, nodes=connected_nodes).copy()", ["P-INPLACE", "P-PURE"], "largest_connected_hypergraph",
    ),
    M("relabel-copies-too-late", UT, "    if not in_place:\n        net = net.copy()\n", "    if in_place:\n        net = net.copy()\n", ["P-INPLACE", "P-PURE"], "convert_labels_to_integers"),
    M("cleanup-in-place-inverted", HG, "        if in_place:\n            _H = self\n        else:\n            _H = self.copy()", "        if not in_place:\n            _H = self\n        else:\n            _H = self.copy()", ["P-INPLACE", "P-PURE"], "cleanup"),
    M("dual-consumes-counter", HG, "        dual = self.__class__()\n", "        dual = self.__class__()\n        next(self._edge_uid)\n", "P-PURE", "dual"),
    M(
        "stat-mutates-net-attr", "xgi/stats/nodestats.py", "def degree(net, bunch, order=None, weight=None):", "def degree(net, bunch, order=None, weight=None):\n    net._net_attr[\"last_stat\"] = \"degree\"\n    return _degree(net, bunch, order, weight)\n\n\ndef _degree(net, bunch, order=None, weight=None):",
        "P-PURE", "degree",
    ),
    M(
        "neighbors-pops-self", VW, "        if s == 1:\n            return {\n                i for n in self._id_dict[idx] for i in self._bi_id_dict[n]\n            }.difference({idx})",
        "        if s == 1:\n            nbrs = self._id_dict[idx]\n            out = set()\n            for n in nbrs:\n                out |= self._bi_id_dict[n]\n            out.discard(idx)\n            return out",
        None, "neighbors", note="refactoring that is in fact pure; kept as mutant=False below",
    ),
    M(
        "lshift-shares-member-sets", HG, "        tempH = Hypergraph()\n", "        tempH = Hypergraph()\n        H2._edge_attr.update(self._edge_attr)\n", "P-PURE", "__lshift__",
    ),
    R("algorithm-copies-first", "xgi/algorithms/properties.py", "def is_uniform(H):", "def is_uniform(H):\n    H = H.copy()\n    H.remove_edges_from(H.edges.singletons())\n    return _is_uniform(H)\n\n\ndef _is_uniform(H):"),
    R(
        "members-copy-via-set", VW,
        "        if e not in self:\n            raise IDNotFound(f'ID \"{e}\" not in this view')\n\n        return self._id_dict[e].copy()",
        "        if e not in self:\n            raise IDNotFound(f'ID \"{e}\" not in this view')\n\n        return set(self._id_dict[e])",
    ),
    R(
        "neighbors-loop-form", VW, "        if s == 1:\n            return {\n                i for n in self._id_dict[idx] for i in self._bi_id_dict[n]\n            }.difference({idx})",
        "        if s == 1:\n            nbrs = self._id_dict[idx]\n            out = set()\n            for n in nbrs:\n                out |= self._bi_id_dict[n]\n            out.discard(idx)\n            return out",
    ),
    M2("new-public-fn-record_alias", [("xgi/utils/utilities.py", "__all__ = [\n    \"IDDict\",", "__all__ = [\n    \"record_alias\",\n    \"IDDict\","), ("xgi/utils/utilities.py", "\ndef dual_dict(edge_dict):", '\n\ndef record_alias(H):\n    data = {}\n    data["attrs"] = {n: H.nodes[n] for n in H.nodes}\n    for a in data["attrs"].values():\n        a["seen"] = True\n    return data\n' + "\n\n\ndef dual_dict(edge_dict):")], "P-PURE", "record_alias"),
    M2("new-public-fn-list_alias", [("xgi/utils/utilities.py", "__all__ = [\n    \"IDDict\",", "__all__ = [\n    \"list_alias\",\n    \"IDDict\","), ("xgi/utils/utilities.py", "\ndef dual_dict(edge_dict):", '\n\ndef list_alias(H):\n    acc = []\n    for e in H.edges:\n        acc.append(H._edge[e])\n    for members in acc:\n        members.discard(None)\n    return len(acc)\n' + "\n\n\ndef dual_dict(edge_dict):")], "P-PURE", "list_alias"),
    M2("new-public-fn-dict_copy_alias", [("xgi/utils/utilities.py", "__all__ = [\n    \"IDDict\",", "__all__ = [\n    \"dict_copy_alias\",\n    \"IDDict\","), ("xgi/utils/utilities.py", "\ndef dual_dict(edge_dict):", '\n\ndef dict_copy_alias(H):\n    d = dict(H._edge)\n    for k in d:\n        d[k].add(k)\n    return d\n' + "\n\n\ndef dual_dict(edge_dict):")], "P-PURE", "dict_copy_alias"),
    M2("new-public-fn-map_lambda_effect", [("xgi/utils/utilities.py", "__all__ = [\n    \"IDDict\",", "__all__ = [\n    \"map_lambda_effect\",\n    \"IDDict\","), ("xgi/utils/utilities.py", "\ndef dual_dict(edge_dict):", '\n\ndef map_lambda_effect(H):\n    return list(map(lambda s: s.clear(), H._edge.values()))\n' + "\n\n\ndef dual_dict(edge_dict):")], "P-PURE", "map_lambda_effect"),
]
VARIANTS["C08"] = [v for v in VARIANTS["C08"] if v["name"] != "neighbors-pops-self"]

# --------------------------------------------------------------------------- C04
VARIANTS["C04"] = [
    M("hg-add_edge-truthiness-guard", HG, "        if idx is not None:  # set self._edge_uid correctly\n            update_uid_counter(self, idx)", "        if idx:  # set self._edge_uid correctly\n            update_uid_counter(self, idx)", "U-BUMP", "Hypergraph.add_edge"),
    M("dh-add_edge-no-bump", DH, "        if idx is not None:  # set self._edge_uid correctly\n            update_uid_counter(self, idx)", "        pass", "U-BUMP", "DiHypergraph.add_edge"),
    M(
        "hg-bulk-bump-after-loop", HG,
        "                if format2 or format4:\n                    update_uid_counter(self, idx)\n\n            try:\n                e = next(new_edges)\n            except StopIteration:\n                break",
        "            try:\n                e = next(new_edges)\n            except StopIteration:\n                if format2 or format4:\n                    update_uid_counter(self, idx)\n                break",
        "U-BUMP", "Hypergraph.add_edges_from",
    ),
    M("hg-bulk-bump-only-format2", HG, "                if format2 or format4:\n                    update_uid_counter(self, idx)", "                if format2:\n                    update_uid_counter(self, idx)", "U-BUMP", "Hypergraph.add_edges_from"),
    M("hg-dict-format-no-bump", HG, "                self._edge_attr[idx] = self._edge_attr_dict_factory()\n\n                update_uid_counter(self, idx)\n", "                self._edge_attr[idx] = self._edge_attr_dict_factory()\n", "U-BUMP", "Hypergraph.add_edges_from"),
    M("hg-add_node_to_edge-no-bump", HG, "            self._edge_attr[edge] = {}\n            update_uid_counter(self, edge)\n", "            self._edge_attr[edge] = {}\n", "U-BUMP", "add_node_to_edge"),
    M("sc-add_simplex-no-bump", SC, "        # set self._edge_uid correctly\n        update_uid_counter(self, idx)\n", "", "U-BUMP", "add_simplex"),
    M("sc-bulk-no-bump", SC, "            self._edge_attr[idx].update(eattr)\n\n            update_uid_counter(self, idx)\n", "            self._edge_attr[idx].update(eattr)\n", "U-BUMP", "add_simplices_from"),
    M(
        "hg-add_edge-guard-dropped", HG,
        "        if idx in self._edge.keys():  # check that uid is not present yet\n            warn(f\"uid {idx} already exists, cannot add edge {members}\")\n            return\n\n        uid = next",
        "        uid = next", "U-GUARD", "Hypergraph.add_edge",
    ),
    M(
        "dh-dict-guard-falls-through", DH,
        "                if idx in self._edge.keys():  # check that uid is not present yet\n                    warn(f\"uid {idx} already exists, cannot add edge {members}.\")\n                    continue\n\n                if isinstance(members, (tuple, list)):",
        "                if idx in self._edge.keys():  # check that uid is not present yet\n                    warn(f\"uid {idx} already exists, cannot add edge {members}.\")\n\n                if isinstance(members, (tuple, list)):",
        "U-GUARD", "DiHypergraph.add_edges_from",
    ),
    M(
        "hg-guard-present-branch-writes", HG,
        "            warn(f\"uid {idx} already exists, cannot add edge {members}\")\n            return\n",
        "            warn(f\"uid {idx} already exists, cannot add edge {members}\")\n            self._edge_attr[idx].update(attr)\n            return\n",
        "U-GUARD", "Hypergraph.add_edge",
    ),
    M("hg-copy-fresh-counter", HG, "        cp._edge_uid = copy(self._edge_uid)\n", "        cp._edge_uid = count()\n", "U-OWN", "copy"),
    M("sc-copy-no-counter", SC, "        cp._edge_uid = copy(self._edge_uid)\n", "", "U-COPY", "copy"),
    M("getstate-drops-counter", DH, "            \"_edge_uid\": self._edge_uid,\n", "", "U-COPY", "__getstate__"),
    M("uid-func-loses-consumed", UT, "    else:\n        start = uid\n    H._edge_uid", "    else:\n        start = uid - 1\n    H._edge_uid", "U-FUNC"),
    M("uid-func-strict-compare", UT, "        and uid <= idx\n", "        and uid < idx\n", "U-FUNC"),
    M("uid-func-type-test", UT, "        and float(idx).is_integer()\n", "        and isinstance(idx, int)\n", "U-FUNC"),
    M("external-edge-writer", UT, "    net.clear(remove_net_attr=False)\n", "    net.clear(remove_net_attr=False)\n    for e in edges:\n        net._edge[edge_dict[e]] = set()\n        net._edge_attr[edge_dict[e]] = {}\n", "U-ENC", "convert_labels_to_integers"),
    M("external-counter-reset", "xgi/generators/classic.py", "def empty_hypergraph(create_using=None, default=None):", "def _reset_counter(H):\n    from itertools import count\n\n    H._edge_uid = count()\n\n\ndef empty_hypergraph(create_using=None, default=None):", "U-OWN", "_reset_counter"),
    R("hg-add_edge-hoist-uid", HG, "        uid = next(self._edge_uid) if idx is None else idx\n\n        self._edge[uid] = set()", "        if idx is None:\n            uid = next(self._edge_uid)\n        else:\n            uid = idx\n\n        self._edge[uid] = set()"),
    R("hg-add_edge-rename-uid", HG, "        uid = next(self._edge_uid) if idx is None else idx\n", "        uid = idx if idx is not None else next(self._edge_uid)\n"),
    R("dh-guard-without-keys-call", DH, "        if idx in self._edge.keys():  # check that uid is not present yet\n            warn(f\"uid {idx} already exists, cannot add edge {members}\")\n            return", "        if idx in self._edge:  # check that uid is not present yet\n            warn(f\"uid {idx} already exists, cannot add edge {members}\")\n            return"),
    R("uid-func-deepcopy-in-copy", HG, "        cp._edge_uid = copy(self._edge_uid)\n", "        cp._edge_uid = deepcopy(self._edge_uid)\n"),
]

# --------------------------------------------------------------------------- C17
RND = "xgi/generators/random.py"
UNI = "xgi/generators/uniform.py"
SCG = "xgi/generators/simplicial_complexes.py"
LAY = "xgi/drawing/layout.py"
VARIANTS["C17"] = [
    M("random_hypergraph-np-draw", RND, "            if random.random() <= p:\n                H.add_edge(edge)", "            if np.random.random() <= p:\n                H.add_edge(edge)", "D-FAM", "random_hypergraph"),
    M("watts-strogatz-py-draw", RND, "        if np.random.random() < p:", "        if random.random() < p:", "D-FAM", "watts_strogatz_hypergraph"),
    M("chung-lu-truthy-guard", RND, "    if seed is not None:\n        random.seed(seed)\n\n    # sort dictionary by degree in decreasing order\n    node_labels = [n for n, _ in sorted(k1.items(), key=lambda d: d[1], reverse=True)]\n    edge_labels = [m for m, _ in sorted(k2.items(), key=lambda d: d[1], reverse=True)]\n\n    m = len(k2)", "    if seed:\n        random.seed(seed)\n\n    # sort dictionary by degree in decreasing order\n    node_labels = [n for n, _ in sorted(k1.items(), key=lambda d: d[1], reverse=True)]\n    edge_labels = [m for m, _ in sorted(k2.items(), key=lambda d: d[1], reverse=True)]\n\n    m = len(k2)", "D-GUARD", "chung_lu_hypergraph"),
    M("hppm-drops-seed", UNI, "    return uniform_HSBM(n, m, p, sizes, seed=seed)", "    return uniform_HSBM(n, m, p, sizes)", "D-FAM", "uniform_HPPM"),
    M("spring-layout-drops-seed", LAY, "    pos = nx.spring_layout(G, seed=seed, k=k, **kwargs)\n    return pos", "    pos = nx.spring_layout(G, k=k, **kwargs)\n    return pos", "D-FAM", "pairwise_spring_layout"),
    M("random-flag-complex-drops-seed", SCG, "    G = nx.fast_gnp_random_graph(N, p, seed=seed)\n\n    nodes = G.nodes()", "    G = nx.fast_gnp_random_graph(N, p)\n\n    nodes = G.nodes()", "D-FAM", "random_flag_complex"),
    M("spectral-no-v0", "xgi/communities/spectral.py", "    evals, eigs = eigsh(L, k=k, which=\"SA\", v0=v0)", "    evals, eigs = eigsh(L, k=k, which=\"SA\")", "D-FAM", "spectral_clustering"),
    M("kmeans-unseeded-rng", "xgi/communities/spectral.py", "    rng = np.random.default_rng(seed=seed)", "    rng = np.random.default_rng()", "D-FAM", "spectral_clustering"),
    M("kmeans-seed-not-passed", "xgi/communities/spectral.py", "    _clusters = _kmeans(X, k, max_iter, seed)", "    _clusters = _kmeans(X, k, max_iter)", "D-FAM", "spectral_clustering"),
    M(
        "draw-before-seeding", "xgi/generators/randomizing.py", "    if seed is not None:\n        random.seed(seed)\n\n    if (order + 1) not in xgi.unique_edge_sizes(S):",
        "    jitter = random.random()\n    if seed is not None:\n        random.seed(seed)\n\n    if (order + 1) not in xgi.unique_edge_sizes(S):", "D-DOM", "shuffle_hyperedges",
    ),
    M("random-layout-no-seeding", LAY, "    if seed is not None:\n        np.random.seed(seed)\n\n    H, center", "    H, center", "D-FAM", "random_layout"),
    M("simplicial-seed-wrong-family", SCG, "    if seed is not None:\n        np.random.seed(seed)\n\n    if (np.any", "    if seed is not None:\n        random.seed(seed)\n\n    if (np.any", "D-FAM", "random_simplicial_complex"),
    R("seeding-first-line", RND, "    warn(\"This method is much slower than fast_random_hypergraph\")\n    if seed is not None:\n        random.seed(seed)\n", "    if seed is not None:\n        random.seed(seed)\n    warn(\"This method is much slower than fast_random_hypergraph\")\n"),
    R("unguarded-seeding", UNI, "    if seed is not None:\n        random.seed(seed)\n\n    if p_type == \"degree\":", "    random.seed(seed)\n\n    if p_type == \"degree\":"),
    R("generator-object-instead-of-global", SCG, "    if seed is not None:\n        np.random.seed(seed)\n\n    if (np.any(np.array(ps) < 0)) or (np.any(np.array(ps) > 1)):\n        raise ValueError(\"All elements of ps must be between 0 and 1 included.\")\n\n    nodes = range(N)\n    simplices = []\n\n    for i, p in enumerate(ps):\n        d = i + 1  # order, ps[0] is prob of edges (d=1)\n\n        potential_simplices = combinations(nodes, d + 1)\n        n_comb = comb(N, d + 1, exact=True)\n        mask = np.random.random(size=n_comb) <= p", "    rng = np.random.default_rng(seed)\n\n    if (np.any(np.array(ps) < 0)) or (np.any(np.array(ps) > 1)):\n        raise ValueError(\"All elements of ps must be between 0 and 1 included.\")\n\n    nodes = range(N)\n    simplices = []\n\n    for i, p in enumerate(ps):\n        d = i + 1  # order, ps[0] is prob of edges (d=1)\n\n        potential_simplices = combinations(nodes, d + 1)\n        n_comb = comb(N, d + 1, exact=True)\n        mask = rng.random(size=n_comb) <= p"),
]

# --------------------------------------------------------------------------- C01
VARIANTS["C01"] = [
    M("remove_edge-keeps-attr-record", HG, "        del self._edge[idx]\n        del self._edge_attr[idx]\n\n    def remove_edges_from", "        del self._edge[idx]\n\n    def remove_edges_from", "R-ATTR", "Hypergraph.remove_edge"),
    M("remove_edge-no-purge-loop", HG, "        for node in self._edge[idx].copy():\n            self._node[node].remove(idx)\n        del self._edge[idx]\n        del self._edge_attr[idx]\n\n    def remove_edges_from", "        del self._edge[idx]\n        del self._edge_attr[idx]\n\n    def remove_edges_from", "R-INC", "Hypergraph.remove_edge"),
    M("add_edge-return-between-paired-writes", HG, "            self._node[node].add(uid)\n            self._edge[uid].add(node)\n", "            self._node[node].add(uid)\n            if len(self._edge[uid]) > 10000:\n                return\n            self._edge[uid].add(node)\n", ["R-INC", "R-ATTR"], "Hypergraph.add_edge"),
    M("add_edge-none-check-after-first-write", HG, "        members = set(members)\n        if None in members:\n            raise XGIError(\"None cannot be a node\")\n\n        if idx in self._edge.keys():  # check that uid is not present yet\n            warn(f\"uid {idx} already exists, cannot add edge {members}\")\n            return\n\n        uid = next(self._edge_uid) if idx is None else idx\n\n        self._edge[uid] = set()\n", "        members = set(members)\n\n        if idx in self._edge.keys():  # check that uid is not present yet\n            warn(f\"uid {idx} already exists, cannot add edge {members}\")\n            return\n\n        uid = next(self._edge_uid) if idx is None else idx\n\n        self._edge[uid] = set()\n        if None in members:\n            raise XGIError(\"None cannot be a node\")\n", "R-EXC", "Hypergraph.add_edge"),
    M("add_edge-no-none-check", HG, "        members = set(members)\n        if None in members:\n            raise XGIError(\"None cannot be a node\")\n", "        members = set(members)\n", "R-EXC", "Hypergraph.add_edge"),
    M("bulk-iterates-caller-iterable-twice", HG, "                try:\n                    members = list(members)\n                    edge = set(members)\n                    if None in edge:\n                        raise XGIError(\"None cannot be a node\")\n                    self._edge[idx] = edge\n                except TypeError as e:\n                    raise XGIError(\"Invalid ebunch format\") from e\n                for n in members:\n                    if n not in self._node:", "                try:\n                    edge = set(members)\n                    if None in edge:\n                        raise XGIError(\"None cannot be a node\")\n                    self._edge[idx] = edge\n                except TypeError as e:\n                    raise XGIError(\"Invalid ebunch format\") from e\n                for n in members:\n                    if n not in self._node:", "R-ONCE", "Hypergraph.add_edges_from"),
    M("weak-removal-forgets-edge-side", HG, "            for edge in edge_neighbors:\n                self._edge[edge].remove(n)\n                if not self._edge[edge] and remove_empty:", "            for edge in edge_neighbors:\n                if not self._edge[edge] and remove_empty:", "R-INC", "Hypergraph.remove_node"),
    M("strong-removal-skips-other-members", HG, "                for node in node_neighbors.difference({n}):\n                    self._node[node].remove(e)\n        else:  # weak removal", "        else:  # weak removal", "R-INC", "Hypergraph.remove_node"),
    M("remove_empty-deletes-nonempty-edge", HG, "                if not self._edge[edge] and remove_empty:\n                    del self._edge[edge]\n                    del self._edge_attr[edge]\n\n    def remove_nodes_from", "                if remove_empty:\n                    del self._edge[edge]\n                    del self._edge_attr[edge]\n\n    def remove_nodes_from", "R-INC", "Hypergraph.remove_node"),
    M("add_node_to_edge-one-sided", HG, "        self._edge[edge].add(node)\n        self._node[node].add(edge)\n", "        self._edge[edge].add(node)\n", "R-INC", "add_node_to_edge"),
    M("add_node_to_edge-one-sided-inplace-operator", HG, "        self._edge[edge].add(node)\n        self._node[node].add(edge)\n", "        self._edge[edge] |= {node}\n", "R-INC", "add_node_to_edge"),
    M("add_node_to_edge-one-sided-update", HG, "        self._edge[edge].add(node)\n        self._node[node].add(edge)\n", "        self._edge[edge].update({node})\n", "R-INC", "add_node_to_edge"),
    R("add_node_to_edge-inplace-operators-both-sides", HG, "        self._edge[edge].add(node)\n        self._node[node].add(edge)\n", "        self._edge[edge] |= {node}\n        self._node[node] |= {edge}\n"),
    R("add_node_to_edge-update-both-sides", HG, "        self._edge[edge].add(node)\n        self._node[node].add(edge)\n", "        self._edge[edge].update({node})\n        self._node[node].update({edge})\n"),
    M("add_node-no-attr-record", HG, "        if node not in self._node:\n            self._node[node] = set()\n            self._node_attr[node] = self._node_attr_dict_factory()\n        self._node_attr[node].update(attr)\n\n    def add_nodes_from", "        if node not in self._node:\n            self._node[node] = set()\n        if attr:\n            self._node_attr[node] = self._node_attr_dict_factory()\n            self._node_attr[node].update(attr)\n\n    def add_nodes_from", "R-ATTR", "Hypergraph.add_node"),
    M("clear_edges-keeps-memberships", HG, "        for node in self.nodes:\n            self._node[node] = set()\n        self._edge.clear()", "        self._edge.clear()", "R-INC", "clear_edges"),
    M("double_edge_swap-forgets-one-membership", HG, "        self._node[n_id1] = temp_memberships1\n        self._node[n_id2] = temp_memberships2\n", "        self._node[n_id1] = temp_memberships1\n", "R-INC", "double_edge_swap"),
    M("remove_node_from_edge-raise-after-write", HG, "        elif node not in self._edge[edge]:\n            raise XGIError(f\"Edge {edge} does not contain node {node}\")\n        else:\n            self._edge[edge].remove(node)\n\n        self._node[node].remove(edge)\n", "        else:\n            self._edge[edge].discard(node)\n\n        if edge not in self._node[node]:\n            raise XGIError(f\"Edge {edge} does not contain node {node}\")\n        self._node[node].remove(edge)\n", ["R-EXC", "R-INC"], "remove_node_from_edge"),
    M("external-table-writer", UT, "    net.clear(remove_net_attr=False)\n", "    net.clear(remove_net_attr=False)\n    for n in node_dict.values():\n        net._node[n] = set()\n", "R-ENC", "convert_labels_to_integers"),
    M("shuffle-writes-one-side-only", HG, "        for n_id in e1_new & e2:\n            self._node[n_id].remove(e_id2)\n            self._node[n_id].add(e_id1)\n\n        for n_id in e2_new & e1:\n            self._node[n_id].remove(e_id1)\n            self._node[n_id].add(e_id2)\n", "", "R-BOTH", "random_edge_shuffle"),
    {"kind": "refactor", "name": "rename-locals", "edits": [{"file": HG, "old": "edge_neighbors", "new": "incident", "all": True, "count": 0}]},
    R2("extract-create-if-absent-helper", [
        (HG, "        for node in members:\n            if node not in self._node:\n                self._node[node] = set()\n                self._node_attr[node] = self._node_attr_dict_factory()\n            self._node[node].add(uid)\n            self._edge[uid].add(node)\n", "        for node in members:\n            self._ensure_node(node)\n            self._node[node].add(uid)\n            self._edge[uid].add(node)\n"),
        (HG, "    def add_nodes_from(self, nodes_for_adding, **attr):", "    def _ensure_node(self, node):\n        if node not in self._node:\n            self._node[node] = set()\n            self._node_attr[node] = self._node_attr_dict_factory()\n\n    def add_nodes_from(self, nodes_for_adding, **attr):"),
    ]),
    R("purge-loop-over-set-copy", HG, "        for node in self._edge[idx].copy():\n            self._node[node].remove(idx)\n        del self._edge[idx]\n        del self._edge_attr[idx]\n\n    def remove_edges_from", "        members = set(self._edge[idx])\n        del self._edge_attr[idx]\n        del self._edge[idx]\n        for node in members:\n            self._node[node].remove(idx)\n\n    def remove_edges_from"),
    R("weak-removal-discard", HG, "            for edge in edge_neighbors:\n                self._edge[edge].remove(n)\n", "            for edge in edge_neighbors:\n                self._edge[edge].discard(n)\n"),
    M("add_edge-unguarded-node-creation", HG, "        for node in members:\n            if node not in self._node:\n                self._node[node] = set()\n                self._node_attr[node] = self._node_attr_dict_factory()\n            self._node[node].add(uid)\n            self._edge[uid].add(node)\n", "        for node in members:\n            self._node[node] = set()\n            self._node_attr[node] = self._node_attr_dict_factory()\n            self._node[node].add(uid)\n            self._edge[uid].add(node)\n", "R-INC", "Hypergraph.add_edge"),
]

# --------------------------------------------------------------------------- C02
VARIANTS["C02"] = [
    M("strong-removal-no-purge", DH, "                for node in members[\"in\"].difference({n}):\n                    self._node[node][\"out\"].remove(edge)\n                for node in members[\"out\"].difference({n}):\n                    self._node[node][\"in\"].remove(edge)\n", "", "R-INC", "DiHypergraph.remove_node"),
    M("strong-removal-same-side", DH, "                for node in members[\"in\"].difference({n}):\n                    self._node[node][\"out\"].remove(edge)\n", "                for node in members[\"in\"].difference({n}):\n                    self._node[node][\"in\"].remove(edge)\n", ["R-INC", "R-EXC"], "DiHypergraph.remove_node"),
    M("add_edge-head-registered-as-out", DH, "            self._node[node][\"in\"].add(uid)\n            self._edge[uid][\"out\"].add(node)\n", "            self._node[node][\"out\"].add(uid)\n            self._edge[uid][\"out\"].add(node)\n", "R-INC", "DiHypergraph.add_edge"),
    M("add_node_to_edge-same-direction", DH, "        if direction == \"in\":\n            ed = \"in\"\n            nd = \"out\"\n        elif direction == \"out\":\n            ed = \"out\"\n            nd = \"in\"\n        else:\n            raise XGIError(\"Invalid direction!\")\n\n        if edge not in self._edge:\n            self._edge[edge] = {\"in\": set(), \"out\": set()}", "        if direction == \"in\":\n            ed = \"in\"\n            nd = \"in\"\n        elif direction == \"out\":\n            ed = \"out\"\n            nd = \"in\"\n        else:\n            raise XGIError(\"Invalid direction!\")\n\n        if edge not in self._edge:\n            self._edge[edge] = {\"in\": set(), \"out\": set()}", "R-INC", "add_node_to_edge"),
    M("remove_edge-forgets-heads", DH, "        for node in edge[\"in\"]:\n            self._node[node][\"out\"].remove(idx)\n        for node in edge[\"out\"]:\n            self._node[node][\"in\"].remove(idx)\n\n        del self._edge[idx]\n        del self._edge_attr[idx]\n\n    def remove_edges_from", "        for node in edge[\"in\"]:\n            self._node[node][\"out\"].remove(idx)\n\n        del self._edge[idx]\n        del self._edge_attr[idx]\n\n    def remove_edges_from", "R-INC", "DiHypergraph.remove_edge"),
    M("weak-removal-only-tails", DH, "            for edge in edge_neighbors[\"out\"]:\n                self._edge[edge][\"in\"].remove(n)\n", "", "R-INC", "DiHypergraph.remove_node"),
    M("weak-removal-empty-check-one-side", DH, "                if (\n                    not self._edge[edge][\"in\"]\n                    and not self._edge[edge][\"out\"]\n                    and remove_empty\n                ):", "                if not self._edge[edge][\"in\"] and remove_empty:", "R-INC", "DiHypergraph.remove_node"),
    M("bulk-dict-no-attr-record", DH, "                    self._node[n][\"out\"].add(idx)\n                self._edge_attr[idx] = self._edge_attr_dict_factory()\n", "                    self._node[n][\"out\"].add(idx)\n", "R-ATTR", "DiHypergraph.add_edges_from"),
    M("add_edge-no-none-check", DH, "        if None in set(tail) or None in set(head):\n            raise XGIError(\"None cannot be a node\")\n", "", "R-EXC", "DiHypergraph.add_edge"),
    M("bulk-none-check-tail-only", DH, "                    tail = list(members[0])\n                    head = list(members[1])\n                    edge = {\"in\": set(tail), \"out\": set(head)}\n                    if None in edge[\"in\"] or None in edge[\"out\"]:", "                    tail = list(members[0])\n                    head = list(members[1])\n                    edge = {\"in\": set(tail), \"out\": set(head)}\n                    if None in edge[\"in\"]:", "R-EXC", "DiHypergraph.add_edges_from"),
    M("remove_node_from_edge-wrong-dual", DH, "        self._node[node][nd].remove(edge)\n\n        if not self._edge[edge][\"in\"]", "        self._node[node][ed].remove(edge)\n\n        if not self._edge[edge][\"in\"]", ["R-INC", "R-EXC"], "remove_node_from_edge"),
    R("strong-removal-single-union-loop-correct", DH, "                for node in members[\"in\"].difference({n}):\n                    self._node[node][\"out\"].remove(edge)\n                for node in members[\"out\"].difference({n}):\n                    self._node[node][\"in\"].remove(edge)\n", "                for node in members[\"in\"].union(members[\"out\"]).difference({n}):\n                    if node in members[\"in\"]:\n                        self._node[node][\"out\"].remove(edge)\n                    if node in members[\"out\"]:\n                        self._node[node][\"in\"].remove(edge)\n"),
    R("remove_edge-loops-swapped", DH, "        for node in edge[\"in\"]:\n            self._node[node][\"out\"].remove(idx)\n        for node in edge[\"out\"]:\n            self._node[node][\"in\"].remove(idx)\n\n        del self._edge[idx]\n        del self._edge_attr[idx]\n\n    def remove_edges_from", "        for node in edge[\"out\"]:\n            self._node[node][\"in\"].remove(idx)\n        for node in edge[\"in\"]:\n            self._node[node][\"out\"].remove(idx)\n\n        del self._edge_attr[idx]\n        del self._edge[idx]\n\n    def remove_edges_from"),
]

# --------------------------------------------------------------------------- C03
VARIANTS["C03"] = [
    M("add_simplex-no-dup-check", SC, "        if not members or self.has_simplex(members):\n            return\n\n        if idx in self._edge.keys():  # check that uid is not present yet\n            warn(f\"uid {idx} already exists, cannot add simplex {members}\")", "        if not members:\n            return\n\n        if idx in self._edge.keys():  # check that uid is not present yet\n            warn(f\"uid {idx} already exists, cannot add simplex {members}\")", "S-DUP", "add_simplex"),
    M("add_simplex-no-empty-check", SC, "        if not members or self.has_simplex(members):\n            return\n\n        if idx in self._edge.keys():  # check that uid is not present yet\n            warn(f\"uid {idx} already exists, cannot add simplex {members}\")", "        if self.has_simplex(members):\n            return\n\n        if idx in self._edge.keys():  # check that uid is not present yet\n            warn(f\"uid {idx} already exists, cannot add simplex {members}\")", "S-EMPTY", "add_simplex"),
    M("add_simplex-faces-unguarded", SC, "            if not members_sub or self.has_simplex(members_sub):\n                continue\n\n            self._add_face(members_sub)", "            if not members_sub:\n                continue\n\n            self._add_face(members_sub)", "S-DUP", "add_simplex"),
    M("add_simplex-no-faces", SC, "        faces = self._subfaces(members)\n        faces = set(faces)  # get unique faces\n        for members_sub in faces:\n            # check that it does not exist yet (based on members, not ID)\n            if not members_sub or self.has_simplex(members_sub):\n                continue\n\n            self._add_face(members_sub)\n", "", "S-CLOSE", "add_simplex"),
    M("bulk-dict-faces-not-scheduled", SC, "                update_uid_counter(self, idx)\n\n                # store subfaces\n                faces += self._subfaces(members)\n", "                update_uid_counter(self, idx)\n", "S-CLOSE", "add_simplices_from"),
    M("bulk-early-return-skips-face-loop", SC, "            # store subfaces\n            faces += self._subfaces(members)\n\n            try:\n                e = next(new_edges)\n            except StopIteration:\n                break\n", "            # store subfaces\n            faces += self._subfaces(members)\n\n            try:\n                e = next(new_edges)\n            except StopIteration:\n                return\n", "S-CLOSE", "add_simplices_from"),
    M("bulk-no-max-size", SC, "                    combos = powerset(\n                        members, include_singletons=False, max_size=max_order + 1\n                    )\n                    faces += list(combos)  # store faces", "                    combos = powerset(members, include_singletons=False)\n                    faces += list(combos)  # store faces", "S-BOUND", "add_simplices_from"),
    M("bulk-max-size-off-by-one", SC, "                    combos = powerset(\n                        members, include_singletons=False, max_size=max_order + 1\n                    )\n                    faces += list(combos)  # store faces", "                    combos = powerset(\n                        members, include_singletons=False, max_size=max_order + 2\n                    )\n                    faces += list(combos)  # store faces", "S-BOUND", "add_simplices_from"),
    M("bulk-bound-guard-dropped", SC, "            if max_order is not None:\n                if len(members) > max_order + 1:\n                    combos = powerset(\n                        members, include_singletons=False, max_size=max_order + 1\n                    )\n                    faces += list(combos)  # store faces\n\n                    try:\n                        e = next(new_edges)\n                    except StopIteration:\n                        break\n\n                    continue\n", "", "S-BOUND", "add_simplices_from"),
    M("supfaces-non-strict", SC, "        return [id_ for id_, s in self._edge.items() if simplex < s]", "        return [id_ for id_, s in self._edge.items() if simplex <= s]", "S-UP", "_supfaces_id"),
    M("remove-without-supersets", SC, "            supfaces_ids = self._supfaces_id(self._edge[idx])\n            for sup_id in supfaces_ids:\n                self._remove_simplex_id(sup_id)\n", "            supfaces_ids = self._supfaces_id(self._edge[idx])\n", "S-UP", "remove_simplex_id"),
    M("inline-store-plain-set", SC, "                self._edge[idx] = frozenset(members)\n            except TypeError as e:", "                self._edge[idx] = set(members)\n            except TypeError as e:", "S-FROZENSET", "add_simplices_from"),
    M("subfaces-stops-at-triangles", SC, "            for n in range(size, 2, -1):", "            for n in range(size, 3, -1):", "S-FACES", "_subfaces"),
    M("bulk-id-guard-dropped", SC, "            if idx in self._edge.keys():  # check that uid is not present yet\n                warn(f\"uid {idx} already exists, cannot add simplex {set(members)}.\")\n\n                try:\n                    e = next(new_edges)\n                except StopIteration:\n                    break\n\n                continue\n", "", "S-ID", "add_simplices_from"),
    M("remove_node-keeps-attr", SC, "            del self._edge[e]\n            del self._edge_attr[e]\n            for node in node_neighbors.difference({n}):", "            del self._edge[e]\n            for node in node_neighbors.difference({n}):", "R-ATTR", "SimplicialComplex.remove_node"),
    M("add_face-one-sided", SC, "            self._node[n].add(idx)\n\n        self._edge_attr[idx] = self._edge_attr_dict_factory()\n\n    def add_simplex", "            pass\n\n        self._edge_attr[idx] = self._edge_attr_dict_factory()\n\n    def add_simplex", "R-INC", "add_simpl"),
    M("add_simplex-none-check-dropped", SC, "        if None in members:\n            raise XGIError(\"None cannot be a node\")\n\n        if not members or self.has_simplex(members):\n            return\n", "        if not members or self.has_simplex(members):\n            return\n", "R-EXC", "add_simplex"),
    M(
        "stale-duplicate-snapshot", SC,
        "            faces = set(faces)  # get unique subfaces\n            for members in faces:\n                # check that it does not exist yet (based on members, not ID)\n                if not members or self.has_simplex(members):\n                    continue\n\n                self._add_face(members)\n\n            return",
        "            faces = set(faces)  # get unique subfaces\n            existing = set(self._edge.values())\n            for members in faces:\n                # check that it does not exist yet (based on members, not ID)\n                if not members or frozenset(members) in existing:\n                    continue\n\n                self._add_face(members)\n\n            return",
        "S-DUP", "add_simplices_from",
    ),
    R(
        "guards-reordered", SC,
        "        if not members or self.has_simplex(members):\n            return\n\n        if idx in self._edge.keys():  # check that uid is not present yet\n            warn(f\"uid {idx} already exists, cannot add simplex {members}\")\n            return\n",
        "        if idx in self._edge.keys():  # check that uid is not present yet\n            warn(f\"uid {idx} already exists, cannot add simplex {members}\")\n            return\n\n        if self.has_simplex(members):\n            return\n        if not members:\n            return\n",
    ),
    R(
        "snapshot-kept-up-to-date", SC,
        "            faces = set(faces)  # get unique subfaces\n            for members in faces:\n                # check that it does not exist yet (based on members, not ID)\n                if not members or self.has_simplex(members):\n                    continue\n\n                self._add_face(members)\n\n            return",
        "            faces = set(faces)  # get unique subfaces\n            existing = set(self._edge.values())\n            for members in faces:\n                # check that it does not exist yet (based on members, not ID)\n                if not members or frozenset(members) in existing:\n                    continue\n\n                self._add_face(members)\n                existing.add(frozenset(members))\n\n            return",
    ),
    R("subfaces-ascending-range", SC, "            for n in range(size, 2, -1):\n                for face in combinations(simplex, n - 1):\n                    faces.append(face)", "            for k in range(2, size):\n                for face in combinations(simplex, k):\n                    faces.append(face)"),
    M("close-computes-faces-but-never-adds-them", SC, "                new_faces = self._subfaces(simplex)\n                self.add_simplices_from(new_faces)", "                new_faces = self._subfaces(simplex)", "S-CLOSE", "close"),
]

# --------------------------------------------------------------------------- C06
VARIANTS["C06"] = [
    M("clear_edges-rebinds-edge-table", HG, "        self._edge.clear()\n        self._edge_attr.clear()\n\n    def merge_duplicate_edges", "        self._edge = self._edge_dict_factory()\n        self._edge_attr.clear()\n\n    def merge_duplicate_edges", "V-REBIND", "clear_edges"),
    M("clear-rebinds-node-table", DH, "        self._node.clear()\n        self._node_attr.clear()\n        self._edge.clear()", "        self._node = self._node_dict_factory()\n        self._node_attr.clear()\n        self._edge.clear()", "V-REBIND", "clear"),
    M("view-copies-table", VW, "            self._id_dict = None if self._net is None else network._node\n            self._id_attr = None if self._net is None else network._node_attr", "            self._id_dict = None if self._net is None else dict(network._node)\n            self._id_attr = None if self._net is None else network._node_attr", "V-LIVE", "__init__"),
    M("from_view-snapshot", VW, "        if bunch is None:\n            newview._ids = view._id_dict", "        if bunch is None:\n            newview._ids = list(view._id_dict)", "V-LIVE", "from_view"),
    M("from_view-bunch-order", VW, "            newview._ids = [i for i in view._id_dict if i in bunch]", "            newview._ids = [i for i in bunch if i in view._id_dict]", "V-ORDER", "from_view"),
    M("setstate-no-edgeview", HG, "        self._nodeview = NodeView(self)\n        self._edgeview = EdgeView(self)\n\n    def __init__", "        self._nodeview = NodeView(self)\n\n    def __init__", "V-REBIND", "__setstate__"),
    M("stat-cached-on-object", ST, "    @property\n    def _val(self):\n        return self.func(self.net, self.view.ids, *self.args, **self.kwargs)", "    @property\n    def _val(self):\n        if not hasattr(self, \"_cached\"):\n            self._cached = self.func(self.net, self.view.ids, *self.args, **self.kwargs)\n        return self._cached", "V-NOCACHE", "_val"),
    M("stat-func-lru-cache", "xgi/stats/edgestats.py", "def order(net, bunch, degree=None):", "@lru_cache(maxsize=None)\ndef order(net, bunch, degree=None):", "V-NOCACHE", "order"),
    M("aslist-set-order", ST, "        val = self._val\n        return [val[n] for n in self.view]\n\n    def asnumpy(self):\n        \"\"\"Output the stat as a numpy array.\"\"\"", "        val = self._val\n        return [val[n] for n in self.view.ids]\n\n    def asnumpy(self):\n        \"\"\"Output the stat as a numpy array.\"\"\"", "V-ORDER", "aslist"),
    M("aspandas-raw-val", ST, "        return pd.Series(self.asdict(), name=self.name)", "        return pd.Series(self._val, name=self.name)", "V-ORDER", "aspandas"),
    M("asdict-sorted", ST, "        val = self._val\n        return {n: val[n] for n in self.view}\n\n    def aslist(self):", "        val = self._val\n        return {n: val[n] for n in sorted(self.view)}\n\n    def aslist(self):", "V-ORDER", "asdict"),
    M("argsort-raw-val", ST, "        d = self.asdict()\n        return sorted(d, key=d.get, reverse=reverse)", "        d = self._val\n        return sorted(d, key=d.get, reverse=reverse)", "V-ORDER", "argsort"),
    M("filterby-lt-is-leq", VW, "            bunch = [idx for idx in self if values[idx] < val]\n        elif mode == \"gt\":", "            bunch = [idx for idx in self if values[idx] <= val]\n        elif mode == \"gt\":", "V-FILTER", "filterby"),
    M("filterby_attr-geq-is-gt", VW, "                idx for idx in self if values[idx] is not None and values[idx] >= val\n", "                idx for idx in self if values[idx] is not None and values[idx] > val\n", "V-FILTER", "filterby_attr"),
    M("filterby-between-open", VW, "            bunch = [node for node in self if val[0] <= values[node] <= val[1]]", "            bunch = [node for node in self if val[0] <= values[node] < val[1]]", "V-FILTER", "filterby"),
    M("filterby-iterates-ids", VW, "            bunch = [idx for idx in self if values[idx] == val]\n        elif mode == \"neq\":\n            bunch = [idx for idx in self if values[idx] != val]\n        elif mode == \"lt\":", "            bunch = [idx for idx in values if values[idx] == val]\n        elif mode == \"neq\":\n            bunch = [idx for idx in self if values[idx] != val]\n        elif mode == \"lt\":", "V-FILTER", "filterby"),
    M("filterby-returns-fresh-view", VW, "                \"'eq', 'neq', 'lt', 'gt', 'leq', 'geq', or 'between'.\"\n            )\n        return type(self).from_view(self, bunch)\n\n    def filterby_attr", "                \"'eq', 'neq', 'lt', 'gt', 'leq', 'geq', or 'between'.\"\n            )\n        return type(self)(self._net, bunch)\n\n    def filterby_attr", "V-FILTER", "filterby"),
    R("filterby-flipped-operands", VW, "            bunch = [idx for idx in self if values[idx] < val]\n        elif mode == \"gt\":", "            bunch = [idx for idx in self if val > values[idx]]\n        elif mode == \"gt\":"),
    R("aslist-from-asdict", ST, "        val = self._val\n        return [val[n] for n in self.view]\n\n    def asnumpy(self):\n        \"\"\"Output the stat as a numpy array.\"\"\"", "        return list(self.asdict().values())\n\n    def asnumpy(self):\n        \"\"\"Output the stat as a numpy array.\"\"\""),
    R("clear_edges-in-place-loop", HG, "        for node in self.nodes:\n            self._node[node] = set()\n        self._edge.clear()", "        for node in self._node:\n            self._node[node] = set()\n        self._edge.clear()"),
    M("from_view-forgets-bi-id-dict", "xgi/core/views.py", "        newview._bi_id_dict = view._bi_id_dict\n", "", "V-LIVE", "from_view"),
    M("sources-drops-e", "xgi/core/views.py", "        return self.tail(e=e, dtype=dtype)", "        return self.tail(dtype=dtype)", "V-FWD", "sources"),
]

# --------------------------------------------------------------------------- C07
CV = "xgi/convert/higher_order_network.py"
VARIANTS["C07"] = [
    M("hg-copy-node-attr-shared", HG, "        cp.add_nodes_from((n, deepcopy(attr)) for n, attr in nn.items())\n        ee = self.edges\n        cp.add_edges_from(", "        cp.add_nodes_from((n, attr) for n, attr in nn.items())\n        ee = self.edges\n        cp.add_edges_from(", "A1-DEEP", "Hypergraph.copy"),
    M("dh-copy-edge-attr-shallow", DH, "            (e, idx, deepcopy(self.edges[idx]))\n            for idx, e in ee.dimembers(dtype=dict).items()", "            (e, idx, self.edges[idx].copy())\n            for idx, e in ee.dimembers(dtype=dict).items()", "A1-DEEP", "DiHypergraph.copy"),
    M("sc-copy-net-attr-shallow", SC, "        cp._net_attr = deepcopy(self._net_attr)\n\n        cp._edge_uid", "        cp._net_attr = self._net_attr.copy()\n\n        cp._edge_uid", "A1-DEEP", "SimplicialComplex.copy"),
    M("hg-copy-shared-counter", HG, "        cp._edge_uid = copy(self._edge_uid)\n", "        cp._edge_uid = self._edge_uid\n", "U-OWN", "copy"),
    M("dh-copy-drops-edge-ids", DH, "            (e, idx, deepcopy(self.edges[idx]))\n            for idx, e in ee.dimembers(dtype=dict).items()", "            (e, deepcopy(self.edges[idx]))\n            for idx, e in ee.dimembers(dtype=dict).items()", "A3", "DiHypergraph.copy"),
    M("hg-copy-skips-empty-edges", HG, "            for idx, e in ee.members(dtype=dict).items()\n        )\n        cp._net_attr = deepcopy(self._net_attr)\n\n        cp._edge_uid = copy(self._edge_uid)\n\n        return cp\n\n    def dual", "            for idx, e in ee.members(dtype=dict).items()\n            if e\n        )\n        cp._net_attr = deepcopy(self._net_attr)\n\n        cp._edge_uid = copy(self._edge_uid)\n\n        return cp\n\n    def dual", "A3", "Hypergraph.copy"),
    M("hg-copy-no-net-attr", HG, "        cp._net_attr = deepcopy(self._net_attr)\n\n        cp._edge_uid = copy(self._edge_uid)\n\n        return cp\n\n    def dual", "        cp._edge_uid = copy(self._edge_uid)\n\n        return cp\n\n    def dual", "A3", "Hypergraph.copy"),
    M("getstate-drops-net-attr", HG, "            \"_net_attr\": self._net_attr,\n", "", "A2", "Hypergraph"),
    M("setstate-swaps-tables", DH, "        self._node_attr = state[\"_node_attr\"]\n        self._edge = state[\"_edge\"]", "        self._node_attr = state[\"_edge_attr\"]\n        self._edge = state[\"_edge\"]", "A2", "DiHypergraph"),
    M("init-new-attribute-not-pickled", HG, "        self._edge_attr = self._edge_attr_dict_factory()\n\n        self._nodeview = NodeView(self)\n        \"\"\"A :class:`~xgi.core.views.NodeView` of the hypergraph.\"\"\"", "        self._edge_attr = self._edge_attr_dict_factory()\n        self._edge_order = []\n\n        self._nodeview = NodeView(self)\n        \"\"\"A :class:`~xgi.core.views.NodeView` of the hypergraph.\"\"\"", "A2", "Hypergraph"),
    M("converter-shares-net-attr", CV, "        H.add_edges_from((ee.members(e), e, deepcopy(attr)) for e, attr in ee.items())\n        H._net_attr = deepcopy(data._net_attr)\n        return H\n\n    elif isinstance(data, DiHypergraph):", "        H.add_edges_from((ee.members(e), e, deepcopy(attr)) for e, attr in ee.items())\n        H._net_attr = data._net_attr\n        return H\n\n    elif isinstance(data, DiHypergraph):", "A1-SHALLOW", "to_hypergraph"),
    M("add_edges_from-stores-caller-set", HG, "                    members = list(members)\n                    edge = set(members)\n                    if None in edge:\n                        raise XGIError(\"None cannot be a node\")\n                    self._edge[idx] = edge\n                except TypeError as e:\n                    raise XGIError(\"Invalid ebunch format\") from e\n\n                for n in members:", "                    edge = members if isinstance(members, set) else set(members)\n                    if None in edge:\n                        raise XGIError(\"None cannot be a node\")\n                    self._edge[idx] = edge\n                except TypeError as e:\n                    raise XGIError(\"Invalid ebunch format\") from e\n\n                for n in edge:", "A1-MUT", "Hypergraph.add_edges_from"),
    M("add_nodes_from-stores-caller-dict", HG, "            if newnode:\n                self._node[n] = set()\n                self._node_attr[n] = self._node_attr_dict_factory()\n            self._node_attr[n].update(newdict)", "            if newnode:\n                self._node[n] = set()\n                self._node_attr[n] = newdict\n            else:\n                self._node_attr[n].update(newdict)", "A1-MUT", "Hypergraph.add_nodes_from"),
    R("copy-deepcopy-via-module-alias", HG, "        cp._net_attr = deepcopy(self._net_attr)\n\n        cp._edge_uid = copy(self._edge_uid)\n\n        return cp\n\n    def dual", "        net_attr = deepcopy(self._net_attr)\n        cp._net_attr = net_attr\n\n        cp._edge_uid = copy(self._edge_uid)\n\n        return cp\n\n    def dual", exit2_ok=True),
    R("copy-views-inlined", DH, "        nn = self.nodes\n        cp.add_nodes_from((n, deepcopy(attr)) for n, attr in nn.items())", "        cp.add_nodes_from((n, deepcopy(attr)) for n, attr in self.nodes.items())"),
]

# --------------------------------------------------------------------------- C05
VARIANTS["C05"] = [
    M("remove_node_from_edge-keyerror", HG, "        if edge not in self._edge:\n            raise XGIError(f\"Edge {edge} not in the hypergraph\")", "        if edge not in self._edge:\n            raise KeyError(f\"Edge {edge} not in the hypergraph\")", "E-TYPE", "remove_node_from_edge"),
    M("sc-none-valueerror", SC, "                    raise XGIError(\"None cannot be a node\")\n                self._node[node] = set()", "                    raise ValueError(\"None cannot be a node\")\n                self._node[node] = set()", "E-TYPE", "_add_simplex"),
    M("remove_simplex_id-no-conversion", SC, "        except KeyError as e:\n            raise XGIError(f\"Simplex {idx} is not in the Simplicialcomplex\") from e", "        except KeyError as e:\n            raise RuntimeError(f\"Simplex {idx} is not in the Simplicialcomplex\") from e", "E-TYPE", "remove_simplex_id"),
    M("remove_node_from_edge-no-membership-guard", HG, "        elif node not in self._edge[edge]:\n            raise XGIError(f\"Edge {edge} does not contain node {node}\")\n        else:\n            self._edge[edge].remove(node)", "        else:\n            self._edge[edge].remove(node)", "E-TYPE", "remove_node_from_edge"),
    M("double_edge_swap-no-try", HG, "        except KeyError as e:\n\n            raise IDNotFound(\n                \"One of the nodes specified doesn't belong to the specified edge.\"\n            ) from e", "        except ZeroDivisionError as e:\n\n            raise IDNotFound(\n                \"One of the nodes specified doesn't belong to the specified edge.\"\n            ) from e", "E-TYPE", "double_edge_swap"),
    M("node-table-plain-dict", HG, "    _node_dict_factory = IDDict\n", "    _node_dict_factory = dict\n", "E-TYPE"),
    M("iddict-getitem-no-conversion", UT, "        try:\n            return dict.__getitem__(self, item)\n        except KeyError as e:\n            raise IDNotFound(f\"ID {item} not found\") from e", "        return dict.__getitem__(self, item)", "E-TYPE", "__getitem__"),
    M("swap-touches-edge-attr", HG, "        self._edge[e_id1] = temp_members1\n        self._edge[e_id2] = temp_members2\n", "        self._edge[e_id1] = temp_members1\n        self._edge[e_id2] = temp_members2\n        self._edge_attr[e_id1], self._edge_attr[e_id2] = self._edge_attr[e_id2], self._edge_attr[e_id1]\n", "E-FOOT", "double_edge_swap"),
    M("shuffle-consumes-counter", HG, "        # update hypergraph\n        self._edge[e_id1] = e1_new", "        # update hypergraph\n        next(self._edge_uid)\n        self._edge[e_id1] = e1_new", "E-FOOT", "random_edge_shuffle"),
    M("sc-alias-drops-idx", SC, "        return self.add_simplex(edge, idx=idx, **attr)", "        return self.add_simplex(edge, idx=None, **attr)", "E-ALIAS", "add_edge"),
    M("sc-alias-drops-weight", SC, "            ebunch_to_add, max_order=max_order, weight=weight, **attr\n        )\n\n    def remove_edge", "            ebunch_to_add, max_order=max_order, **attr\n        )\n\n    def remove_edge", "E-ALIAS", "add_weighted_edges_from"),
    M("remove_nodes_from-drops-strong", HG, "            self.remove_node(n, strong=strong, remove_empty=remove_empty)", "            self.remove_node(n, remove_empty=remove_empty)", "E-ALIAS", "remove_nodes_from"),
    M("add_nodes_from-shared-kwargs", HG, "                newdict = attr.copy()\n                newdict.update(ndict)\n            if newnode:\n                self._node[n] = set()", "                newdict = attr\n                newdict.update(ndict)\n            if newnode:\n                self._node[n] = set()", "E-LOOPALIAS", "Hypergraph.add_nodes_from"),
    R("remove_node_from_edge-guards-reordered", HG, "        if edge not in self._edge:\n            raise XGIError(f\"Edge {edge} not in the hypergraph\")\n        elif node not in self._node:\n            raise XGIError(f\"Node {node} not in the hypergraph\")", "        if node not in self._node:\n            raise XGIError(f\"Node {node} not in the hypergraph\")\n        elif edge not in self._edge:\n            raise XGIError(f\"Edge {edge} not in the hypergraph\")"),
    R("add_nodes_from-dict-merge-form", HG, "                newdict = attr.copy()\n                newdict.update(ndict)\n            if newnode:\n                self._node[n] = set()", "                newdict = {**attr, **ndict}\n            if newnode:\n                self._node[n] = set()"),
    M("add_node_to_edge-directions-exchanged-consistently", "xgi/core/dihypergraph.py", "        if direction == \"in\":\n            ed = \"in\"\n            nd = \"out\"\n        elif direction == \"out\":\n            ed = \"out\"\n            nd = \"in\"\n        else:\n            raise XGIError(\"Invalid direction!\")\n\n        if edge not in self._edge:\n            self._edge[edge]", "        if direction == \"in\":\n            ed = \"out\"\n            nd = \"in\"\n        elif direction == \"out\":\n            ed = \"in\"\n            nd = \"out\"\n        else:\n            raise XGIError(\"Invalid direction!\")\n\n        if edge not in self._edge:\n            self._edge[edge]", "E-DIR", "add_node_to_edge"),
    M("clear-keeps-net-attrs-always", HG, "        if remove_net_attr:\n            self._net_attr.clear()\n\n    def clear_edges", "        if remove_net_attr:\n            pass\n\n    def clear_edges", "E-FOOT", "clear"),
    M("update-nodes-branch-negated", HG, "        if nodes:\n            self.add_nodes_from(nodes)", "        if not nodes:\n            self.add_nodes_from(nodes)", "E-ALIAS", "update"),
    M("remove_edges_from-pops-the-edge", HG, "        for idx in ebunch:\n            for node in self._edge[idx].copy():\n                self._node[node].remove(idx)\n            del self._edge[idx]\n            del self._edge_attr[idx]", "        for idx in ebunch:\n            for node in self._edge.pop(idx):\n                self._node[node].remove(idx)\n            del self._edge_attr[idx]", "E-TYPE", "remove_edges_from"),
]

# --------------------------------------------------------------------------- C09
CL = "xgi/algorithms/clustering.py"
CE = "xgi/algorithms/centrality.py"
HM = "xgi/linalg/hypergraph_matrix.py"
LM = "xgi/linalg/laplacian_matrix.py"
VARIANTS["C09"] = [
    M("local-clustering-members-list", CL, "    members = H.edges.members(dtype=dict)\n", "    members = H.edges.members()\n", "K1", "local_clustering_coefficient"),
    M("incidence-rows-by-label", HM, "            rows.append(node_dict[node])\n", "            rows.append(node)\n", None, "incidence_matrix", exit2_ok=False, skip_reason="rows list feeds a matrix constructor; see C12 variant"),
    M("adjacency-tensor-label-index", HM, "        edge_node_ids = [nodedict[node] for node in edge]\n        for node_idx in permutations(edge_node_ids, order + 1):\n            B[node_idx] = 1", "        for node_idx in permutations(edge, order + 1):\n            B[node_idx] = 1", "K1", "adjacency_tensor"),
    M("nodestat-degree-by-position", "xgi/stats/nodestats.py", "        return {n: len(net._node[n]) for n in bunch}", "        return {n: len(net._node[i]) for i, n in enumerate(bunch)}", "K2", "degree"),
    M("trie-search-unsorted", "xgi/utils/trie.py", "    def search(self, word):\n        node = self.root\n        for char in sorted(word):", "    def search(self, word):\n        node = self.root\n        for char in word:", "K-CANON", "search"),
    M("trie-keys-differ", "xgi/utils/trie.py", "    def insert(self, word):\n        node = self.root\n        for char in sorted(word):", "    def insert(self, word):\n        node = self.root\n        for char in sorted(word, key=str):", "K-CANON"),
    R("local-clustering-explicit-dict", CL, "    members = H.edges.members(dtype=dict)\n", "    members = {e: H.edges.members(e) for e in H.edges}\n"),
    R("trie-sort-hoisted", "xgi/utils/trie.py", "    def search(self, word):\n        node = self.root\n        for char in sorted(word):", "    def search(self, word):\n        node = self.root\n        word = sorted(word)\n        for char in word:"),
    M("incidence-rows-numbered-over-a-set-C09", "xgi/linalg/hypergraph_matrix.py", "    node_dict = dict(zip(node_ids, range(num_nodes)))", "    node_dict = dict(zip(set(node_ids), range(num_nodes)))", "M-MAP", "incidence_matrix"),
]
VARIANTS["C09"] = [v for v in VARIANTS["C09"] if v.get("rule") is not None or v["kind"] == "refactor"]

# --------------------------------------------------------------------------- C12
VARIANTS["C12"] = [
    M("adjacency-tensor-label-index", HM, "        edge_node_ids = [nodedict[node] for node in edge]\n        for node_idx in permutations(edge_node_ids, order + 1):\n            B[node_idx] = 1", "        for node_idx in permutations(edge, order + 1):\n            B[node_idx] = 1", "K1", "adjacency_tensor"),
    M("rowdict-from-sorted-nodes", HM, "        rowdict = {v: k for k, v in node_dict.items()}\n        coldict = {v: k for k, v in edge_dict.items()}\n\n    # Compute", "        rowdict = dict(enumerate(sorted(node_ids)))\n        coldict = {v: k for k, v in edge_dict.items()}\n\n    # Compute", "M-MAP", "incidence_matrix"),
    M("rowdict-is-edge-map", HM, "        rowdict = {v: k for k, v in node_dict.items()}\n        coldict = {v: k for k, v in edge_dict.items()}\n\n    # Compute", "        rowdict = {v: k for k, v in edge_dict.items()}\n        coldict = {v: k for k, v in edge_dict.items()}\n\n    # Compute", "M-MAP", "incidence_matrix"),
    M("multiorder-rowdict-filtered", LM, "    rowdict = {i: v for i, v in enumerate(H.nodes)}", "    rowdict = {i: v for i, v in enumerate(H.nodes.filterby(\"degree\", 1, \"geq\"))}", "M-MAP", "multiorder_laplacian"),
    M("adjacency-empty-branch-unassigned", HM, "        if not rowdict:\n            A = csr_array((0, 0)) if sparse else np.empty((0, 0))\n        if not coldict:\n            shape = (H.num_nodes, H.num_nodes)", "        if rowdict:\n            A = csr_array((0, 0)) if sparse else np.empty((0, 0))\n        if coldict:\n            shape = (H.num_nodes, H.num_nodes)", "M-EMPTY", "adjacency_matrix"),
    M("multiorder-normaliser-from-laplacian", LM, "    Ks = [degree_matrix(H, order=d) for d in orders]", "    Ks = [L.diagonal() / d for L, d in zip(Ls, orders)]", "M-NORM", "multiorder_laplacian"),
    R("incidence-maps-comprehension", HM, "    node_dict = dict(zip(node_ids, range(num_nodes)))", "    node_dict = {n: i for i, n in enumerate(node_ids)}"),
    M("incidence-rows-numbered-over-a-set-C12", "xgi/linalg/hypergraph_matrix.py", "    node_dict = dict(zip(node_ids, range(num_nodes)))", "    node_dict = dict(zip(set(node_ids), range(num_nodes)))", "M-MAP", "incidence_matrix"),
]

# --------------------------------------------------------------------------- C16
UNI2 = "xgi/generators/uniform.py"
VARIANTS["C16"] = [
    M("hsbm-product-unstarred", UNI2, "            edges = itertools.product(*(partition[i] for i in block))", "            edges = itertools.product((partition[i] for i in block))", "G-MEMBER", "uniform_HSBM"),
    M("er-loop-drops-last-index", UNI2, "    while index <= max_index:\n        e = set(f(index, n, m))", "    while index < max_index:\n        e = set(f(index, n, m))", "G-SKIP", "uniform_erdos_renyi_hypergraph"),
    M("hsbm-loop-overruns", UNI2, "            while index < max_index:\n                indices = _index_to_edge_partition", "            while index <= max_index:\n                indices = _index_to_edge_partition", "G-SKIP", "uniform_HSBM"),
    M("fast-random-first-index", "xgi/generators/random.py", "            index = geometric(p) - 1  # -1 b/c zero indexing\n            max_index = comb(n, d + 1, exact=True) - 1", "            index = geometric(p)\n            max_index = comb(n, d + 1, exact=True) - 1", "G-SKIP", "fast_random_hypergraph"),
    M("er-forgets-nodes", UNI2, "    H = empty_hypergraph()\n    H.add_nodes_from(range(n))\n\n    if multiedges:", "    H = empty_hypergraph()\n\n    if multiedges:", "G-NODES", "uniform_erdos_renyi_hypergraph"),
    M("ring-lattice-forgets-nodes", "xgi/generators/lattice.py", "    H = Hypergraph(edges)\n    H.add_nodes_from(range(n))\n    return H", "    H = Hypergraph(edges)\n    return H", "G-NODES", "ring_lattice"),
    M("geometric-p1-returns-zero", UT, "    except ValueError:\n        # when p = 1\n        return 1", "    except ValueError:\n        # when p = 1\n        return 0", "G-P01", "geometric"),
    M("partition-decoder-prefix-strides", UNI2, "            int(index // np.prod(partition_sizes[r + 1 :]) % partition_sizes[r])", "            int(index // np.prod(partition_sizes[:r]) % partition_sizes[r])", "G-RADIX"),
    M("prod-decoder-wrong-base", UNI2, "    return [(index // (n**r) % n) for r in range(m - 1, -1, -1)]", "    return [(index // (m**r) % n) for r in range(m - 1, -1, -1)]", "G-RADIX"),
    R("nodes-range-bound-first", UNI2, "    H = empty_hypergraph()\n    H.add_nodes_from(range(n))\n\n    if multiedges:", "    nodes = range(n)\n    H = empty_hypergraph()\n    H.add_nodes_from(nodes)\n\n    if multiedges:"),
    R("er-bound-without-minus-one", UNI2, "        max_index = comb(n, m, exact=True) - 1\n        f = _index_to_edge_comb\n\n    index = geometric(q) - 1  # -1 b/c zero indexing\n    while index <= max_index:", "        max_index = comb(n, m, exact=True) - 1\n        f = _index_to_edge_comb\n\n    index = geometric(q) - 1  # -1 b/c zero indexing\n    stop = max_index + 1\n    while index < stop:"),
]

# --------------------------------------------------------------------------- C20
LAY2 = "xgi/drawing/layout.py"
DRW = "xgi/drawing/draw.py"
VARIANTS["C20"] = [
    M("barycenter-layout-returns-phantoms", LAY2, "    # Retaining only the positions of the real nodes\n    pos = {k: pos_with_phantom_nodes[k] for k in list(H.nodes)}\n\n    if return_phantom_graph:\n        return pos, G\n    else:\n        return pos\n\n\ndef weighted_barycenter_spring_layout", "    pos = pos_with_phantom_nodes\n\n    if return_phantom_graph:\n        return pos, G\n    else:\n        return pos\n\n\ndef weighted_barycenter_spring_layout", "L-KEYS", "barycenter_spring_layout"),
    M("circular-layout-keys-by-position", LAY2, "        pos = dict(zip(list(H.nodes), pos))\n\n    return pos\n\n\ndef spiral_layout", "        pos = dict(zip(range(len(H)), pos))\n\n    return pos\n\n\ndef spiral_layout", "L-KEYS", "circular_layout"),
    M("draw-nodes-sorted-order", DRW, "    ax, pos = _draw_init(H, ax, pos)\n\n    # convert pos to format convenient for scatter\n    try:\n        xy = np.asarray([pos[v] for v in H.nodes])\n    except KeyError as err:\n        raise XGIError(f\"Node {err} has no position.\") from err\n\n    # convert all formats to ndarray\n    node_size = _draw_arg_to_arr(node_size)", "    ax, pos = _draw_init(H, ax, pos)\n\n    # convert pos to format convenient for scatter\n    try:\n        xy = np.asarray([pos[v] for v in sorted(H.nodes)])\n    except KeyError as err:\n        raise XGIError(f\"Node {err} has no position.\") from err\n\n    # convert all formats to ndarray\n    node_size = _draw_arg_to_arr(node_size)", "L-ORDER", "draw_nodes", exit2_ok=True),
    M("edge-positions-by-index", LAY2, "    for idx, e in H.edges.members(dtype=dict).items():\n        edge_pos[idx] = np.mean([node_pos[n] for n in e], axis=0)", "    for idx, e in enumerate(H.edges.members()):\n        edge_pos[idx] = np.mean([node_pos[n] for n in e], axis=0)", None, "edge_positions_from_barycenters"),
    M("pca-keys-fine-but-pos-indexed-by-position", LAY2, "        edge_pos[idx] = np.mean([node_pos[n] for n in e], axis=0)", "        edge_pos[idx] = np.mean([node_pos[i] for i, n in enumerate(e)], axis=0)", "K2", "edge_positions_from_barycenters"),
    R("barycenter-filter-via-loop", LAY2, "    # Retaining only the positions of the real nodes\n    pos = {k: pos_with_phantom_nodes[k] for k in list(H.nodes)}\n\n    if return_phantom_graph:\n        return pos, G\n    else:\n        return pos\n\n\ndef weighted_barycenter_spring_layout", "    # Retaining only the positions of the real nodes\n    pos = {k: pos_with_phantom_nodes[k] for k in H.nodes}\n\n    if return_phantom_graph:\n        return pos, G\n    else:\n        return pos\n\n\ndef weighted_barycenter_spring_layout"),
]
VARIANTS["C20"] = [v for v in VARIANTS["C20"] if v.get("rule") is not None or v["kind"] == "refactor"]

# --------------------------------------------------------------------------- C10
HIF = "xgi/convert/hif_dict.py"
HD = "xgi/convert/hypergraph_dict.py"
BG = "xgi/convert/bipartite_graph.py"
VARIANTS["C10"] = [
    M("hif-writer-renames-key", HIF, "    data[\"metadata\"] = {}\n    data[\"metadata\"].update(H._net_attr)", "    data[\"meta\"] = {}\n    data[\"meta\"].update(H._net_attr)", "T-KEYS", "to_hif_dict"),
    M("hif-record-key-renamed", HIF, "            IDDict({\"edge\": e, \"node\": n, \"direction\": _convert_d(d)})", "            IDDict({\"edge\": e, \"node\": n, \"dir\": _convert_d(d)})", "T-KEYS", "to_hif_dict"),
    M("hif-direction-swapped-on-read", HIF, "    _convert_d = lambda d: \"in\" if d == \"tail\" else \"out\"", "    _convert_d = lambda d: \"out\" if d == \"tail\" else \"in\"", "T-KEYS", "hif"),
    M("hif-asc-not-dispatched", HIF, "    if network_type == \"asc\":\n        H = SimplicialComplex(H)", "    if network_type == \"simplicial\":\n        H = SimplicialComplex(H)", "T-KEYS", "hif"),
    M("hif-node-cast-dropped", HIF, "            n = _convert_id(record[\"node\"], nodetype)\n            if \"attrs\" in record:", "            n = record[\"node\"]\n            if \"attrs\" in record:", "T-CAST", "from_hif_dict"),
    M("hif-edge-cast-with-nodetype", HIF, "        e = _convert_id(record[\"edge\"], edgetype)\n\n        if network_type == \"directed\":", "        e = _convert_id(record[\"edge\"], nodetype)\n\n        if network_type == \"directed\":", "T-CAST", "from_hif_dict"),
    M("hif-incidences-on-demand", HIF, "    elif data[\"network-type\"] in {\"undirected\", \"asc\"}:\n        data[\"incidences\"] = [\n            IDDict({\"edge\": e, \"node\": n}) for n, e in to_bipartite_edgelist(H)\n        ]", "    elif data[\"network-type\"] in {\"undirected\", \"asc\"}:\n        for n, e in to_bipartite_edgelist(H):\n            data[\"incidences\"].append(IDDict({\"edge\": e, \"node\": n}))", "T-DEF", "to_hif_dict"),
    M("hif-isolates-lose-attrs", HIF, "    for n in isolates.union(nodes_with_attrs):\n        attr = {\"attrs\": H.nodes[n]} if H.nodes[n] else {}\n        data[\"nodes\"].append(IDDict({\"node\": n}) + attr)", "    for n in isolates.union(nodes_with_attrs):\n        if n in isolates:\n            data[\"nodes\"].append(IDDict({\"node\": n}))\n        else:\n            data[\"nodes\"].append(IDDict({\"node\": n}) + {\"attrs\": H.nodes[n]})", "T-ATTRS", "to_hif_dict"),
    M("hdict-edge-data-not-cast", HD, "            edge_data = {\n                edgetype(e): dd\n                for e, dd in data[\"edge-data\"].items()\n                if edgetype(e) in H.edges\n            }", "            edge_data = {\n                e: dd\n                for e, dd in data[\"edge-data\"].items()\n                if e in H.edges\n            }", "T-CAST", "from_hypergraph_dict"),
    M("hdict-reader-renamed-key", HD, "        for idx, edge in data[\"edge-dict\"].items():", "        for idx, edge in data[\"edges\"].items():", "T-KEYS", "hypergraph_dict"),
    M("converter-dihypergraph-no-net-attr", "xgi/convert/higher_order_network.py", "        H.add_edges_from((ee.dimembers(e), e, deepcopy(attr)) for e, attr in ee.items())\n        H._net_attr = deepcopy(data._net_attr)\n", "        H.add_edges_from((ee.dimembers(e), e, deepcopy(attr)) for e, attr in ee.items())\n", "T-SIBLING", "to_dihypergraph"),
    M("converter-drops-edge-ids", "xgi/convert/higher_order_network.py", "    elif isinstance(data, SimplicialComplex):\n        H = empty_hypergraph(create_using)\n        H.add_nodes_from((n, attr) for n, attr in data.nodes.items())\n        ee = data.edges\n        H.add_edges_from((ee.members(e), e, deepcopy(attr)) for e, attr in ee.items())", "    elif isinstance(data, SimplicialComplex):\n        H = empty_hypergraph(create_using)\n        H.add_nodes_from((n, attr) for n, attr in data.nodes.items())\n        ee = data.edges\n        H.add_edges_from((ee.members(e), deepcopy(attr)) for e, attr in ee.items())", "T-SIBLING", "to_hypergraph"),
    M("bipartite-undirected-positional", BG, "        elif v in edges:\n            H.add_node_to_edge(v, u)\n        else:\n            H.add_node_to_edge(u, v)", "        else:\n            H.add_node_to_edge(v, u)", "T-ROLE", "from_bipartite_graph"),
    R("hif-writer-dict-built-in-order", HIF, "    data[\"metadata\"] = {}\n    data[\"metadata\"].update(H._net_attr)", "    data[\"metadata\"] = dict(H._net_attr)\n    data[\"metadata\"].update({})"),
    R("hif-attrs-separate-branches", HIF, "    for n in isolates.union(nodes_with_attrs):\n        attr = {\"attrs\": H.nodes[n]} if H.nodes[n] else {}\n        data[\"nodes\"].append(IDDict({\"node\": n}) + attr)", "    for n in isolates.union(nodes_with_attrs):\n        if H.nodes[n]:\n            data[\"nodes\"].append(IDDict({\"node\": n}) + {\"attrs\": H.nodes[n]})\n        else:\n            data[\"nodes\"].append(IDDict({\"node\": n}))"),
    M("from_bipartite-direction-swapped", "xgi/convert/bipartite_graph.py", "                H.add_node_to_edge(v, u, direction=\"in\")", "                H.add_node_to_edge(v, u, direction=\"out\")", "T-ROLE", "from_bipartite_graph"),
    M("to_bipartite-head-written-as-tail", "xgi/convert/bipartite_graph.py", "            for v in H.edges.head(e):\n                G.add_edge(edge_dict[e], node_dict[v])", "            for v in H.edges.head(e):\n                G.add_edge(node_dict[v], edge_dict[e])", "T-ROLE", "to_bipartite_graph"),
    R("from_bipartite-per-edge-pred-succ (property-preserving, edge order aside)", "xgi/convert/bipartite_graph.py", "    for u, v in G.edges:\n        if directed:\n            if v in edges:\n                H.add_node_to_edge(v, u, direction=\"in\")\n            else:\n                H.add_node_to_edge(u, v, direction=\"out\")\n        elif v in edges:\n            H.add_node_to_edge(v, u)\n        else:\n            H.add_node_to_edge(u, v)\n", "    for e in edges:\n        if directed:\n            for n in G.predecessors(e):\n                H.add_node_to_edge(e, n, direction=\"in\")\n            for n in G.successors(e):\n                H.add_node_to_edge(e, n, direction=\"out\")\n        else:\n            for n in G.neighbors(e):\n                H.add_node_to_edge(e, n)\n"),
]

# --------------------------------------------------------------------------- C11
RH = "xgi/readwrite/hif.py"
RJ = "xgi/readwrite/json.py"
RE = "xgi/readwrite/edgelist.py"
RB = "xgi/readwrite/bipartite.py"
RI = "xgi/readwrite/incidence.py"
VARIANTS["C11"] = [
    M("read_hif-drops-edgetype", RH, "    return from_hif_dict(data, nodetype=nodetype, edgetype=edgetype)", "    return from_hif_dict(data, nodetype=nodetype)", "F-FWD", "read_hif"),
    M("read_hif-edgetype-gets-nodetype", RH, "    return from_hif_dict(data, nodetype=nodetype, edgetype=edgetype)", "    return from_hif_dict(data, nodetype=nodetype, edgetype=nodetype)", "F-FWD", "read_hif"),
    M("write_hif-strips-metadata", RH, "    data = to_hif_dict(H)\n\n    datastring = json.dumps(data, indent=2)", "    data = to_hif_dict(H)\n    data.pop(\"metadata\", None)\n\n    datastring = json.dumps(data, indent=2)", "F-DELEG", "write_hif"),
    M("write_hif-opens-first", RH, "    data = to_hif_dict(H)\n\n    datastring = json.dumps(data, indent=2)\n\n    with open(path, \"w\") as output_file:\n        output_file.write(datastring)", "    with open(path, \"w\") as output_file:\n        data = to_hif_dict(H)\n        datastring = json.dumps(data, indent=2)\n        output_file.write(datastring)", "F-ATOMIC", "write_hif"),
    M("collection-relative-path-mismatch", RH, "            fname = f\"{path}/{collection_name}_{name}.json\"\n            collection_data[\"datasets\"][name] = {\n                \"relative-path\": f\"{collection_name}_{name}.json\"\n            }", "            fname = f\"{path}/{collection_name}_{name}.json\"\n            collection_data[\"datasets\"][name] = {\n                \"relative-path\": f\"{collection_name}-{name}.json\"\n            }", "F-DELEG", "write_hif_collection"),
    M("edgelist-literal-separator", RE, "        yield delimiter.join(map(str, e))", "        yield \" \".join(map(str, e))", "F-DELIM", "generate_edgelist"),
    M("bipartite-split-whitespace", RB, "        s = line.strip().split(delimiter)\n        if len(s) < 2:", "        s = line.strip().split()\n        if len(s) < 2:", "F-DELIM", "parse_bipartite_edgelist"),
    M("read_edgelist-drops-nodetype", RE, "            create_using=create_using,\n            nodetype=nodetype,\n        )\n\n\ndef parse_edgelist", "            create_using=create_using,\n        )\n\n\ndef parse_edgelist", "F-FWD", "read_edgelist"),
    M("read_bipartite-ignores-dual", RB, "            edgetype=edgetype,\n            dual=dual,\n        )", "            edgetype=edgetype,\n            dual=False,\n        )", "F-FWD", "read_bipartite_edgelist"),
    M("write_bipartite-default-delimiter", RB, "        for line in generate_bipartite_edgelist(H, delimiter):", "        for line in generate_bipartite_edgelist(H):", "F-FWD", "write_bipartite_edgelist"),
    M("incidence-no-ndmin", RI, "            path, comments=comments, delimiter=delimiter, encoding=encoding, ndmin=2\n", "            path, comments=comments, delimiter=delimiter, encoding=encoding\n", "F-2D", "read_incidence_matrix"),
    M("hif-incidences-on-demand", HIF, "    elif data[\"network-type\"] in {\"undirected\", \"asc\"}:\n        data[\"incidences\"] = [\n            IDDict({\"edge\": e, \"node\": n}) for n, e in to_bipartite_edgelist(H)\n        ]", "    elif data[\"network-type\"] in {\"undirected\", \"asc\"}:\n        for n, e in to_bipartite_edgelist(H):\n            data[\"incidences\"].append(IDDict({\"edge\": e, \"node\": n}))", "T-DEF", "to_hif_dict"),
    M("bipartite-edge-cast-with-nodetype", RB, "                edge = edgetype(s[edge_index])", "                edge = nodetype(s[edge_index])", "F-CAST", "parse_bipartite_edgelist"),
    M("bipartite-node-from-edge-column", RB, "                node = nodetype(s[node_index])", "                node = nodetype(s[edge_index])", "F-CAST", "parse_bipartite_edgelist"),
    M("bipartite-raw-edge-always", RB, "        else:\n            edge = s[edge_index]\n\n        H.add_node_to_edge(edge, node)", "        else:\n            edge = s[edge_index]\n        edge = s[edge_index]\n\n        H.add_node_to_edge(edge, node)", "F-CAST", "parse_bipartite_edgelist"),
    M("edgelist-no-cast", RE, "                edge = [nodetype(node) for node in edge]", "                edge = [node for node in edge]", "F-CAST", "parse_edgelist"),
    R("edgelist-cast-with-map", RE, "                edge = [nodetype(node) for node in edge]", "                edge = list(map(nodetype, edge))"),
    # np.atleast_2d after a squeezing load is NOT behaviour-preserving (an n x 1 file comes back as 1 x n): seed C11f showed
    # that this variant, first listed as a refactoring, is a mutant
    M("incidence-atleast-2d", RI, "        np.loadtxt(\n            path, comments=comments, delimiter=delimiter, encoding=encoding, ndmin=2\n        ),", "        np.atleast_2d(\n            np.loadtxt(path, comments=comments, delimiter=delimiter, encoding=encoding)\n        ),", "F-2D", "read_incidence_matrix"),
    R("write_hif-dumps-inline", RH, "    data = to_hif_dict(H)\n\n    datastring = json.dumps(data, indent=2)\n", "    data = to_hif_dict(H)\n    datastring = json.dumps(data, indent=2, sort_keys=False)\n"),
]

# --------------------------------------------------------------------------- C13
HO = "xgi/linalg/hodge_matrix.py"
VARIANTS["C13"] = [
    R("sign-plus-i-is-a-global-sign-per-order", HO, "                    (orientations[u_simplex_id] + order - i) % 2\n", "                    (orientations[u_simplex_id] + i) % 2\n"),
    M("sign-ignores-face-orientation", HO, "                        subfaces_induced_orientation[count] + orientations[subface_ID]\n", "                        subfaces_induced_orientation[count]\n", "B-SIGN", "boundary_matrix"),
    M("sign-constant", HO, "                    (orientations[u_simplex_id] + order - i) % 2\n", "                    (orientations[u_simplex_id] + order) % 2\n", "B-SIGN", "boundary_matrix"),
    M("sort-after-subfaces", HO, "                u_simplex = list(S.edges.members(u_simplex_id))\n                u_simplex.sort(\n                    key=lambda e: (isinstance(e, str), e)\n                )  # Sort the simplex's vertices to get a reference orientation\n                # The key is needed to sort a mixed list of numbers and strings:\n                #   it ensures that node labels which are numbers are put before\n                #   strings, thus giving a list [sorted numbers, sorted strings]\n                matrix_id = simplices_u_dict[u_simplex_id]\n                u_simplex_subfaces = S._subfaces(u_simplex, all=False)", "                u_simplex = list(S.edges.members(u_simplex_id))\n                matrix_id = simplices_u_dict[u_simplex_id]\n                u_simplex_subfaces = S._subfaces(u_simplex, all=False)\n                u_simplex.sort(key=lambda e: (isinstance(e, str), e))", "B-ORDER", "boundary_matrix"),
    M("edge-branch-different-key", HO, "                u_simplex.sort(\n                    key=lambda e: (isinstance(e, str), e)\n                )  # Sort the simplex's vertices to get a reference orientation\n                # The key is needed to sort a mixed list of numbers and strings:\n                #   it ensures that node labels which are numbers are put before\n                #   strings, thus giving a list [sorted numbers, sorted strings]\n                matrix_id = simplices_u_dict[u_simplex_id]\n                head_idx = u_simplex[1]", "                u_simplex.sort(key=str)\n                matrix_id = simplices_u_dict[u_simplex_id]\n                head_idx = u_simplex[1]", "B-ORDER", "boundary_matrix"),
    M("edge-branch-same-sign", HO, "                B[simplices_d_dict[tail_idx], matrix_id] = -(\n                    (-1) ** orientations[u_simplex_id]\n                )", "                B[simplices_d_dict[tail_idx], matrix_id] = (\n                    (-1) ** orientations[u_simplex_id]\n                )", "B-EDGE", "boundary_matrix"),
    M("edge-branch-head-tail-swapped", HO, "                head_idx = u_simplex[1]\n                tail_idx = u_simplex[0]", "                head_idx = u_simplex[0]\n                tail_idx = u_simplex[1]", "B-EDGE", "boundary_matrix"),
    M("face-loop-skips", HO, "                for count, subf in enumerate(u_simplex_subfaces):\n                    subface_ID", "                for count, subf in enumerate(u_simplex_subfaces):\n                    if count == order:\n                        continue\n                    subface_ID", "B-FACE", "boundary_matrix"),
    M("hodge-default-orientations-second", HO, "    B_op1 = boundary_matrix(S, order + 1, orientations, False)", "    B_op1 = boundary_matrix(S, order + 1, None, False)", "B-HODGE", "hodge_laplacian"),
    M("hodge-wrong-order", HO, "    B_op1 = boundary_matrix(S, order + 1, orientations, False)", "    B_op1 = boundary_matrix(S, order + 2, orientations, False)", "B-HODGE", "hodge_laplacian"),
    M("subfaces-codim1-reversed", SC, "            for face in combinations(simplex, size - 1):\n                faces.append(face)", "            for face in combinations(simplex[::-1], size - 1):\n                faces.append(face)", "B-FACE", "_subfaces"),
    R("sign-without-mod", HO, "                    (orientations[u_simplex_id] + order - i) % 2\n", "                    orientations[u_simplex_id] + order - i\n"),
    R("sign-inline", HO, "                    B[simplices_d_dict[subface_ID], matrix_id] = (-1) ** (\n                        subfaces_induced_orientation[count] + orientations[subface_ID]\n                    )", "                    B[simplices_d_dict[subface_ID], matrix_id] = (-1) ** (\n                        orientations[u_simplex_id] + order - count + orientations[subface_ID]\n                    )"),
    R("sign-with-xor-flag", HO, "                    B[simplices_d_dict[subface_ID], matrix_id] = (-1) ** (\n                        subfaces_induced_orientation[count] + orientations[subface_ID]\n                    )", "                    flip = int(orientations[u_simplex_id] != orientations[subface_ID])\n                    B[simplices_d_dict[subface_ID], matrix_id] = (-1) ** (order - count + flip)"),
    M("sign-with-or-flag", HO, "                    B[simplices_d_dict[subface_ID], matrix_id] = (-1) ** (\n                        subfaces_induced_orientation[count] + orientations[subface_ID]\n                    )", "                    flip = bool(orientations[u_simplex_id] or orientations[subface_ID])\n                    B[simplices_d_dict[subface_ID], matrix_id] = (-1) ** (order - count + flip)", "B-SIGN", "boundary_matrix"),
]

# --------------------------------------------------------------------------- C19
VARIANTS["C19"] = [
    M("cleanup-isolates-before-singletons", HG, "        if not singletons:\n            _H.remove_edges_from(_H.edges.singletons())\n        if not isolates:\n            _H.remove_nodes_from(_H.nodes.isolates())", "        if not isolates:\n            _H.remove_nodes_from(_H.nodes.isolates())\n        if not singletons:\n            _H.remove_edges_from(_H.edges.singletons())", "Q-ORDER", "Hypergraph.cleanup"),
    M("cleanup-relabel-before-component", HG, "        if connected:\n            from ..algorithms import largest_connected_hypergraph\n\n            largest_connected_hypergraph(_H, in_place=True)\n        if relabel:\n            from ..utils import convert_labels_to_integers\n\n            convert_labels_to_integers(_H, in_place=True)\n\n        return _H", "        if relabel:\n            from ..utils import convert_labels_to_integers\n\n            convert_labels_to_integers(_H, in_place=True)\n        if connected:\n            from ..algorithms import largest_connected_hypergraph\n\n            largest_connected_hypergraph(_H, in_place=True)\n\n        return _H", "Q-ORDER", "Hypergraph.cleanup"),
    M("cleanup-flag-inverted", HG, "        if not singletons:\n            _H.remove_edges_from(_H.edges.singletons())", "        if singletons:\n            _H.remove_edges_from(_H.edges.singletons())", "Q-FLAG", "Hypergraph.cleanup"),
    M("cleanup-wrong-flag", DH, "        if not isolates:\n            _DH.remove_nodes_from(_DH.nodes.isolates())", "        if not relabel:\n            _DH.remove_nodes_from(_DH.nodes.isolates())", "Q-FLAG", "DiHypergraph.cleanup"),
    M("cleanup-acts-on-self", SC, "        if not isolates:\n            _S.remove_nodes_from(_S.nodes.isolates())", "        if not isolates:\n            self.remove_nodes_from(self.nodes.isolates())", "Q-COPY", "SimplicialComplex.cleanup"),
    M("cleanup-relabel-not-in-place", HG, "            convert_labels_to_integers(_H, in_place=True)\n\n        return _H", "            convert_labels_to_integers(_H)\n\n        return _H", "Q-COPY", "Hypergraph.cleanup"),
    M("cleanup-returns-self", DH, "            convert_labels_to_integers(_DH, in_place=True)\n\n        return _DH", "            convert_labels_to_integers(_DH, in_place=True)\n\n        return self", "Q-COPY", "DiHypergraph.cleanup"),
    M("relabel-labels-before-nodes", UT, "    net.add_nodes_from((idx, deepcopy(node_attrs[n])) for n, idx in node_dict.items())\n    net.set_node_attributes({idx: {label_attribute: n} for n, idx in node_dict.items()})", "    net.set_node_attributes({idx: {label_attribute: n} for n, idx in node_dict.items()})\n    net.add_nodes_from((idx, deepcopy(node_attrs[n])) for n, idx in node_dict.items())", "Q-LABEL", "convert_labels_to_integers"),
    M("relabel-maps-after-clear", UT, "    node_dict = dict(zip(net.nodes, range(net.num_nodes)))\n    edge_dict = dict(zip(net.edges, range(net.num_edges)))\n\n    if not in_place:\n        net = net.copy()\n\n    node_attrs = net._node_attr.copy()\n    edge_attrs = net._edge_attr.copy()\n    edges = net._edge.copy()\n    net.clear(remove_net_attr=False)", "    if not in_place:\n        net = net.copy()\n\n    node_attrs = net._node_attr.copy()\n    edge_attrs = net._edge_attr.copy()\n    edges = net._edge.copy()\n    net.clear(remove_net_attr=False)\n    node_dict = dict(zip(net.nodes, range(net.num_nodes)))\n    edge_dict = dict(zip(net.edges, range(net.num_edges)))", "Q-LABEL", "convert_labels_to_integers"),
    M("relabel-drops-net-attrs", UT, "    net.clear(remove_net_attr=False)\n", "    net.clear()\n", "Q-LABEL", "convert_labels_to_integers"),
    M("relabel-stores-new-label", UT, "    net.set_edge_attributes({idx: {label_attribute: e} for e, idx in edge_dict.items()})", "    net.set_edge_attributes({idx: {label_attribute: idx} for e, idx in edge_dict.items()})", "Q-LABEL", "convert_labels_to_integers"),
    R("cleanup-merge-after-singletons", HG, "        if not multiedges:\n            _H.merge_duplicate_edges()\n        if not singletons:\n            _H.remove_edges_from(_H.edges.singletons())", "        if not singletons:\n            _H.remove_edges_from(_H.edges.singletons())\n        if not multiedges:\n            _H.merge_duplicate_edges()"),
    R("cleanup-component-first", SC, "        if not isolates:\n            _S.remove_nodes_from(_S.nodes.isolates())\n        if connected:\n            from ..algorithms import largest_connected_hypergraph\n\n            largest_connected_hypergraph(_S, in_place=True)", "        if connected:\n            from ..algorithms import largest_connected_hypergraph\n\n            largest_connected_hypergraph(_S, in_place=True)\n        if not isolates:\n            _S.remove_nodes_from(_S.nodes.isolates())"),
    M("lshift-drops-own-nodes", HG, "        tempH.add_nodes_from(zip(self._node.keys(), self._node_attr.values()))\n", "", "Q-UNION", "__lshift__"),
    M("dual-drops-nodes-from-edges", HG, "        dual.add_nodes_from((e, deepcopy(attr)) for e, attr in ee.items())\n", "", "Q-DUAL", "dual"),
]

# --------------------------------------------------------------------------- historical regression
# The pinned snapshot of xgi (before the fix: commits recorded in known_findings.json) must still be reported at the
# constructs that were repaired: (rule, substring of the reported function / statement / message).
PINNED_SNAPSHOT = "5f535cc"
HISTORICAL = {
    "C01": [("R-EXC", "Hypergraph.add_edge"), ("R-EXC", "Hypergraph.add_edges_from"), ("R-ONCE", "Hypergraph.add_edges_from")],
    "C02": [("R-INC", "DiHypergraph.remove_node"), ("R-EXC", "DiHypergraph.add_edge"), ("R-ONCE", "DiHypergraph.add_edges_from")],
    "C03": [("S-EMPTY", "add_simplex"), ("S-BOUND", "add_simplices_from"), ("R-EXC", "add_simplex")],
    "C04": [("U-BUMP", "Hypergraph.add_edge"), ("U-BUMP", "DiHypergraph.add_edge"), ("U-BUMP", "Hypergraph.add_edges_from"), ("U-BUMP", "DiHypergraph.add_edges_from"), ("U-BUMP", "Hypergraph.add_node_to_edge"), ("U-BUMP", "DiHypergraph.add_node_to_edge")],
    "C05": [("E-TYPE", "_add_simplex"), ("E-ALIAS", "SimplicialComplex.add_edge"), ("E-ALIAS", "SimplicialComplex.add_edges_from")],
    "C06": [("V-ORDER", "IDStat.aspandas"), ("V-ORDER", "MultiIDStat.aspandas"), ("V-LIVE", "from_view")],
    "C09": [("K1", "local_clustering_coefficient")],
    "C10": [("T-SIBLING", "to_simplicial_complex"), ("T-ROLE", "from_bipartite_graph")],
    "C11": [("F-2D", "read_incidence_matrix")],
    "C16": [("G-MEMBER", "uniform_HSBM")],
    "C17": [("D-FAM", "spectral_clustering")],
    "C18": [("Z-COVER", "clear_edges"), ("Z-COVER", "double_edge_swap"), ("Z-COVER", "random_edge_shuffle"), ("Z-COVER", "DiHypergraph.add_node_to_edge"), ("Z-COVER", "DiHypergraph.remove_node_from_edge"), ("Z-COVER", "remove_node_from_edge")],
}


def variants_for(prop):
    return list(VARIANTS.get(prop, []))
