"""Variant tables for the self-test: mutants (must be reported) and refactorings (must stay silent).

Each variant is one or more snippet replacements anchored on the current source. Snippets are kept short
and specific; when the tree changes so that an anchor no longer occurs exactly once the variant is
skipped (and counted) by the driver.
"""
from __future__ import annotations

HG = "xgi/core/hypergraph.py"
DH = "xgi/core/dihypergraph.py"
SC = "xgi/core/simplicialcomplex.py"
VW = "xgi/core/views.py"
UT = "xgi/utils/utilities.py"
ST = "xgi/stats/__init__.py"


def M(name, file, old, new, rule=None, function=None, **kw):
    d = {"kind": "mutant", "name": name, "edits": [{"file": file, "old": old, "new": new}], "rule": rule, "function": function}
    d.update(kw)
    return d


def M2(name, edits, rule=None, function=None, **kw):
    d = {"kind": "mutant", "name": name, "edits": [{"file": f, "old": o, "new": n} for f, o, n in edits], "rule": rule, "function": function}
    d.update(kw)
    return d


def R(name, file, old, new, **kw):
    d = {"kind": "refactor", "name": name, "edits": [{"file": file, "old": old, "new": new}]}
    d.update(kw)
    return d


def R2(name, edits, **kw):
    d = {"kind": "refactor", "name": name, "edits": [{"file": f, "old": o, "new": n} for f, o, n in edits]}
    d.update(kw)
    return d


VARIANTS = {}

# --------------------------------------------------------------------------- C18
VARIANTS["C18"] = [
    M("hg-freeze-drop-clear_edges", HG, "        self.clear_edges = frozen\n", "", "Z-COVER", "clear_edges"),
    M("hg-freeze-drop-add_node_to_edge", HG, "        self.add_node_to_edge = frozen\n", "", "Z-COVER", "add_node_to_edge"),
    M("hg-freeze-drop-remove_node", HG, "        self.remove_node = frozen\n", "", "Z-COVER", "remove_node"),
    M("dh-freeze-drop-remove_edge", DH, "        self.remove_edge = frozen\n", "", "Z-COVER", "remove_edge"),
    M("sc-freeze-drop-add_simplex", SC, "        self.add_simplex = frozen\n", "", "Z-COVER", "add_simplex"),
    M("sc-freeze-drop-double_edge_swap", SC, "        self.double_edge_swap = frozen\n", "", "Z-COVER", "double_edge_swap"),
    M(
        "hg-new-public-writer", HG, "    def clear_edges(self):",
        "    def drop_edge_members(self, idx):\n        for node in self._edge[idx]:\n            self._node[node].discard(idx)\n        self._edge[idx] = set()\n\n    def clear_edges(self):",
        "Z-COVER", "drop_edge_members",
    ),
    M("subhypergraph-no-freeze", "xgi/core/globalviews.py", "    new.freeze()\n", "", "Z-SUB"),
    M("frozen-returns", "xgi/exception.py", '    raise XGIError("Frozen higher-order network can\'t be modified")', "    return None", "Z-RAISE"),
    M("freeze-no-flag", DH, "        self.clear = frozen\n        self.frozen = True", "        self.clear = frozen", "Z-FLAG"),
    M(
        "is_frozen-default-true", HG,
        "        try:\n            return self.frozen\n        except AttributeError:\n            return False",
        "        try:\n            return self.frozen\n        except AttributeError:\n            return True",
        "Z-FLAG",
    ),
    M(
        "relabel-writes-tables-directly", UT, "    net.clear(remove_net_attr=False)\n",
        "    net._node.clear()\n    net._edge.clear()\n    net.clear(remove_net_attr=False)\n", "Z-COVER-FN", "convert_labels_to_integers",
    ),
    R(
        "hg-freeze-list-reordered", HG,
        "        self.add_node = frozen\n        self.add_nodes_from = frozen\n",
        "        self.add_nodes_from = frozen\n        self.add_node = frozen\n",
    ),
    R(
        "dh-freeze-loop-over-names", DH,
        "        self.add_node = frozen\n        self.add_nodes_from = frozen\n        self.remove_node = frozen\n        self.remove_nodes_from = frozen\n",
        "        for _name in (\"add_node\", \"add_nodes_from\", \"remove_node\", \"remove_nodes_from\"):\n            setattr(self, _name, frozen)\n",
    ),
    R(
        "is_frozen-getattr-form", SC,
        "        try:\n            return self.frozen\n        except AttributeError:\n            return False",
        "        return getattr(self, \"frozen\", False)",
    ),
]

# --------------------------------------------------------------------------- C08
VARIANTS["C08"] = [
    M(
        "members-no-copy", VW,
        "        if e not in self:\n            raise IDNotFound(f'ID \"{e}\" not in this view')\n\n        return self._id_dict[e].copy()",
        "        if e not in self:\n            raise IDNotFound(f'ID \"{e}\" not in this view')\n\n        return self._id_dict[e]",
        "P-VIEWCOPY", "EdgeView.members",
    ),
    M("memberships-no-copy", VW, "            else self._id_dict[n].copy()\n        )", "            else self._id_dict[n]\n        )", "P-VIEWCOPY", "NodeView.memberships"),
    M(
        "algorithm-removes-edges", "xgi/algorithms/properties.py", "def is_uniform(H):", "def is_uniform(H):\n    H.remove_edges_from(H.edges.singletons())\n    return _is_uniform(H)\n\n\ndef _is_uniform(H):",
        "P-PURE", "is_uniform",
    ),
    M(
        "algorithm-discards-through-alias", "xgi/algorithms/clustering.py", "    memberships = H.nodes.memberships()\n    members = H.edges.members(dtype=dict)\n",
        "    memberships = H.nodes.memberships()\n    members = H._edge\n    for e in members:\n        members[e].discard(None)\n", "P-PURE", "local_clustering_coefficient",
    ),
    M(
        "largest-component-in_place-inverted", "xgi/algorithms/connected.py", "    if not in_place:\n        return subhypergraph(H, nodes=connected_nodes).copy()", "    if in_place:\n        return subhypergraph(H, nodes=connected_nodes).copy()", ["P-INPLACE", "P-PURE"], "largest_connected_hypergraph",
    ),
    M("relabel-copies-too-late", UT, "    if not in_place:\n        net = net.copy()\n", "    if in_place:\n        net = net.copy()\n", ["P-INPLACE", "P-PURE"], "convert_labels_to_integers"),
    M("cleanup-in-place-inverted", HG, "        if in_place:\n            _H = self\n        else:\n            _H = self.copy()", "        if not in_place:\n            _H = self\n        else:\n            _H = self.copy()", ["P-INPLACE", "P-PURE"], "cleanup"),
    M("dual-consumes-counter", HG, "        dual = self.__class__()\n", "        dual = self.__class__()\n        next(self._edge_uid)\n", "P-PURE", "dual"),
    M(
        "stat-mutates-net-attr", "xgi/stats/nodestats.py", "def degree(net, bunch, order=None, weight=None):", "def degree(net, bunch, order=None, weight=None):\n    net._net_attr[\"last_stat\"] = \"degree\"\n    return _degree(net, bunch, order, weight)\n\n\ndef _degree(net, bunch, order=None, weight=None):",
        "P-PURE", "degree",
    ),
    M(
        "neighbors-pops-self", VW, "        if s == 1:\n            return {\n                i for n in self._id_dict[idx] for i in self._bi_id_dict[n]\n            }.difference({idx})",
        "        if s == 1:\n            nbrs = self._id_dict[idx]\n            out = set()\n            for n in nbrs:\n                out |= self._bi_id_dict[n]\n            out.discard(idx)\n            return out",
        None, "neighbors", note="refactoring that is in fact pure; kept as mutant=False below",
    ),
    M(
        "lshift-shares-member-sets", HG, "        tempH = Hypergraph()\n", "        tempH = Hypergraph()\n        H2._edge_attr.update(self._edge_attr)\n", "P-PURE", "__lshift__",
    ),
    R("algorithm-copies-first", "xgi/algorithms/properties.py", "def is_uniform(H):", "def is_uniform(H):\n    H = H.copy()\n    H.remove_edges_from(H.edges.singletons())\n    return _is_uniform(H)\n\n\ndef _is_uniform(H):"),
    R(
        "members-copy-via-set", VW,
        "        if e not in self:\n            raise IDNotFound(f'ID \"{e}\" not in this view')\n\n        return self._id_dict[e].copy()",
        "        if e not in self:\n            raise IDNotFound(f'ID \"{e}\" not in this view')\n\n        return set(self._id_dict[e])",
    ),
    R(
        "neighbors-loop-form", VW, "        if s == 1:\n            return {\n                i for n in self._id_dict[idx] for i in self._bi_id_dict[n]\n            }.difference({idx})",
        "        if s == 1:\n            nbrs = self._id_dict[idx]\n            out = set()\n            for n in nbrs:\n                out |= self._bi_id_dict[n]\n            out.discard(idx)\n            return out",
    ),
]
VARIANTS["C08"] = [v for v in VARIANTS["C08"] if v["name"] != "neighbors-pops-self"]


def variants_for(prop):
    return list(VARIANTS.get(prop, []))
