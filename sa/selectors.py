"""Inlining of *selector helpers*.

A selector helper is a module-level function whose body is nothing but an if-chain over its parameters that
returns constants (or tuples of constants) or raises, e.g.

    def _direction_keys(direction):
        if direction == "in":
            return "in", "out"
        if direction == "out":
            return "out", "in"
        raise XGIError("Invalid direction!")

A caller that writes ``ed, nd = _direction_keys(direction)`` is, for every analysis that enumerates mode valuations,
the same program as the if-chain written in place. ``inline_selectors`` rewrites such assignments into that if-chain
(on a copy of the function's tree) so that the mode enumeration and the constant propagation of the walkers see it.
"""
from __future__ import annotations

import ast
import copy

from .model import FunctionInfo

_CACHE = {}


def _is_const(e):
    if isinstance(e, ast.Constant):
        return True
    if isinstance(e, ast.Tuple):
        return all(_is_const(x) for x in e.elts)
    return False


def _unroll_literal_loops(stmts):
    """`for a, b in (("in", "out"), ("out", "in")): <body>` over a literal sequence of constants is the body repeated
    with the constants substituted (only bodies made of if / return / raise, no break / continue / else)."""
    out = []
    for s in stmts:
        if isinstance(s, ast.For) and not s.orelse and isinstance(s.iter, (ast.Tuple, ast.List)) and s.iter.elts and all(_is_const(e) for e in s.iter.elts) and not any(isinstance(x, (ast.Break, ast.Continue, ast.For, ast.While)) for b in s.body for x in ast.walk(b)):
            for e in s.iter.elts:
                if isinstance(s.target, ast.Name):
                    mapping = {s.target.id: e}
                elif isinstance(s.target, ast.Tuple) and isinstance(e, ast.Tuple) and len(e.elts) == len(s.target.elts) and all(isinstance(t, ast.Name) for t in s.target.elts):
                    mapping = {t.id: v for t, v in zip(s.target.elts, e.elts)}
                else:
                    return stmts
                out.extend(_Subst(mapping).visit(copy.deepcopy(b)) for b in s.body)
        else:
            out.append(s)
    return out


def _selector_body(tgt: FunctionInfo):
    body = [s for s in tgt.node.body if not (isinstance(s, ast.Expr) and isinstance(s.value, ast.Constant))]
    body = _unroll_literal_loops(body)
    params = set(tgt.all_params)

    def ok(stmts):
        for s in stmts:
            if isinstance(s, ast.Return):
                if s.value is None or not _is_const(s.value):
                    return False
            elif isinstance(s, ast.Raise):
                pass
            elif isinstance(s, ast.If):
                names = {n.id for n in ast.walk(s.test) if isinstance(n, ast.Name)}
                if not names <= params or any(isinstance(n, ast.Call) for n in ast.walk(s.test)):
                    return False
                if not ok(s.body) or not ok(s.orelse):
                    return False
            else:
                return False
        return True

    if not body or not ok(body) or not any(isinstance(s, ast.If) for s in body):
        return None
    return body


class _Subst(ast.NodeTransformer):
    def __init__(self, mapping):
        self.mapping = mapping

    def visit_Name(self, node):
        if isinstance(node.ctx, ast.Load) and node.id in self.mapping:
            return copy.deepcopy(self.mapping[node.id])
        return node


def _convert(stmts, targets, at):
    out = []
    for i, s in enumerate(stmts):
        if isinstance(s, ast.Return):
            out.append(ast.copy_location(ast.Assign(targets=copy.deepcopy(targets), value=s.value), at))
            return out
        if isinstance(s, ast.Raise):
            out.append(ast.copy_location(s, at))
            return out
        if isinstance(s, ast.If):
            rest = stmts[i + 1 :]
            node = ast.If(test=s.test, body=_convert(s.body + rest, targets, at), orelse=_convert(s.orelse + rest, targets, at))
            out.append(ast.copy_location(node, at))
            return out
    out.append(ast.copy_location(ast.Assign(targets=copy.deepcopy(targets), value=ast.Constant(value=None)), at))
    return out


def inline_selectors(repo, fi: FunctionInfo) -> FunctionInfo:
    key = (repo.digest(), fi.fq)
    if key in _CACHE:
        return _CACHE[key]
    sites = []
    for st in ast.walk(fi.node):
        if isinstance(st, ast.Assign) and isinstance(st.value, ast.Call) and not st.value.keywords and all(isinstance(a, (ast.Name, ast.Constant)) for a in st.value.args):
            f = st.value.func
            tgt, params = None, None
            if isinstance(f, ast.Name):
                tgt = repo.resolve_name(fi, fi.module, f.id)
                if isinstance(tgt, FunctionInfo) and tgt.cls is None and tgt.parent is None:
                    params = tgt.params
            elif isinstance(f, ast.Attribute) and isinstance(f.value, ast.Name) and fi.cls is not None and fi.params and f.value.id in (fi.params[0], fi.cls.name):
                # a private selector method of the class: self._m(...) (static or not)
                try:
                    tgt = repo.find_method(fi.cls, f.attr)
                except Exception:  # noqa: BLE001
                    tgt = None
                if isinstance(tgt, FunctionInfo):
                    static = any(d in ("staticmethod",) for d in tgt.decorators())
                    params = tgt.params if static else tgt.params[1:]
            if isinstance(tgt, FunctionInfo) and params is not None and len(st.value.args) == len(params):
                body = _selector_body(tgt)
                if body is not None:
                    sites.append((st, tgt, body, list(params)))
    if not sites:
        _CACHE[key] = fi
        return fi
    node = copy.deepcopy(fi.node)
    # locate the copied statements by position
    index = {(s.lineno, s.col_offset): (s, tgt, body, params) for s, tgt, body, params in sites}

    def rewrite(stmts):
        new = []
        for s in stmts:
            hit = index.get((getattr(s, "lineno", None), getattr(s, "col_offset", None))) if isinstance(s, ast.Assign) else None
            if hit is not None:
                _, tgt, body, params = hit
                mapping = dict(zip(params, s.value.args))
                body = [_Subst(mapping).visit(copy.deepcopy(b)) for b in body]
                repl = _convert(body, s.targets, s)
                for r in repl:
                    ast.fix_missing_locations(r)
                    for sub in ast.walk(r):
                        if hasattr(sub, "lineno"):
                            sub.lineno = s.lineno
                            sub.end_lineno = getattr(s, "end_lineno", s.lineno)
                new.extend(repl)
                continue
            for field in ("body", "orelse", "finalbody"):
                sub = getattr(s, field, None)
                if isinstance(sub, list) and not isinstance(s, (ast.FunctionDef, ast.AsyncFunctionDef, ast.ClassDef)):
                    setattr(s, field, rewrite(sub))
            for h in getattr(s, "handlers", []) or []:
                h.body = rewrite(h.body)
            new.append(s)
        return new

    node.body = rewrite(node.body)
    out = FunctionInfo(fi.module, fi.name, fi.qualname, node, fi.cls, fi.parent)
    _CACHE[key] = out
    return out
