"""Relational-delta analysis of the writer methods of the three classes (C01/C02/C03).

The incidence invariant I (member <=> membership with the in/out sides swapped for directed networks;
one attribute record per ID) is inductive. For one writer method the analysis accumulates, by a
structured walk of the body, the *delta* each write applies to

    E / E.in / E.out   edge-side relation   (pairs (e, x): x is stored in _edge[e][side])
    N / N.in / N.out   node-side relation   (pairs (e, x): e is stored in _node[x][side])
    K:E K:EATTR K:N K:NATTR   key sets of the four tables

as boolean formulas over atoms about a generic pair (e, x) or key k ("e = idx", "x in <members>",
"e in N[n]", "x in E.in[e]", branch conditions ...). A loop contributes its body once with the loop
variable as a bound coordinate. The method preserves I iff, for every truth assignment consistent with
I on the pre-state, gains and losses of E equal those of the transposed N (E.in<->N.out, E.out<->N.in)
and the key deltas of each table equal those of its attribute table - decided by truth table.
The same comparison restricted to the events that precede a *raise point* (explicit raise, first use
of a caller-supplied key in an IDDict store / table load / inner-set remove, consumption of a caller
iterable, call of another writer method) decides the "whether each call returns or raises" clause.

Nothing is executed: values are symbolic terms; the walk follows the syntax tree.
"""
from __future__ import annotations

import ast
import itertools
from dataclasses import dataclass, field

from .model import AnalysisError, FunctionInfo
from .paths import eval3

TABLES = {"_node": "N", "_edge": "E", "_node_attr": "NATTR", "_edge_attr": "EATTR"}
DUAL_SIDE = {"in": "out", "out": "in", None: None}
MATERIALIZERS = {"set", "list", "frozenset", "tuple", "sorted"}


class Unsupported(AnalysisError):
    pass


class Infeasible(Exception):
    """The walk reached a use of a name that no statement on this valuation's path has bound."""


# ----------------------------------------------------------------------------- formulas
TRUE = ("true",)
FALSE = ("false",)


def And(*fs):
    out = []
    for f in fs:
        if f == FALSE:
            return FALSE
        if f == TRUE:
            continue
        if f[0] == "and":
            out.extend(f[1:])
        else:
            out.append(f)
    if not out:
        return TRUE
    if len(out) == 1:
        return out[0]
    return ("and",) + tuple(out)


def Or(*fs):
    out = []
    for f in fs:
        if f == TRUE:
            return TRUE
        if f == FALSE:
            continue
        if f[0] == "or":
            out.extend(f[1:])
        else:
            out.append(f)
    if not out:
        return FALSE
    if len(out) == 1:
        return out[0]
    return ("or",) + tuple(out)


def Not(f):
    if f == TRUE:
        return FALSE
    if f == FALSE:
        return TRUE
    if f[0] == "not":
        return f[1]
    return ("not", f)


def Atom(var, op, term):
    return ("atom", var, op, term)


def assume_false(f, atom):
    """f with the given atom replaced by FALSE (simplified)."""
    t = f[0]
    if t == "atom":
        return FALSE if f == atom else f
    if t == "and":
        return And(*(assume_false(g, atom) for g in f[1:]))
    if t == "or":
        return Or(*(assume_false(g, atom) for g in f[1:]))
    if t == "not":
        return Not(assume_false(f[1], atom))
    return f


def atoms_of(f, acc=None):
    acc = set() if acc is None else acc
    if f[0] == "atom":
        acc.add(f)
    elif f[0] in ("and", "or"):
        for g in f[1:]:
            atoms_of(g, acc)
    elif f[0] == "not":
        atoms_of(f[1], acc)
    return acc


def evalf(f, asg):
    t = f[0]
    if t == "true":
        return True
    if t == "false":
        return False
    if t == "atom":
        return asg[f]
    if t == "and":
        return all(evalf(g, asg) for g in f[1:])
    if t == "or":
        return any(evalf(g, asg) for g in f[1:])
    if t == "not":
        return not evalf(f[1], asg)
    raise ValueError(t)


def subst(f, var, other=None, rename=None):
    """Instantiate the element placeholder '$' with var; rename loop-variable terms to generic names."""
    t = f[0]
    if t == "atom":
        v = var if f[1] == "$" else f[1]
        term = f[3]
        if rename:
            for a, b in rename.items():
                term = term.replace(a, b)
        return ("atom", v, f[2], term)
    if t in ("and", "or"):
        return (t,) + tuple(subst(g, var, other, rename) for g in f[1:])
    if t == "not":
        return ("not", subst(f[1], var, other, rename))
    return f


def const_inst(f, cterm):
    """The membership formula f (over the placeholder '$') evaluated at the named element `cterm`: `$ = t` becomes
    true for t == cterm and false otherwise (distinct terms are distinct IDs; alias valuations substitute names before
    the walk), `$ in REL[k]` becomes the ground atom `cterm in REL[k]`.  With cterm None: evaluated away from every
    named element (all equalities false, memberships kept as they are).  None if f has atoms of another kind."""
    t = f[0]
    if t == "atom":
        if f[1] != "$":
            return f
        if f[2] == "=":
            return TRUE if (cterm is not None and f[3] == cterm) else FALSE
        if f[2] == "in":
            return f if cterm is None else ("atom", cterm, "in", f[3])
        return None
    if t in ("and", "or"):
        parts = [const_inst(g, cterm) for g in f[1:]]
        if any(p is None for p in parts):
            return None
        return And(*parts) if t == "and" else Or(*parts)
    if t == "not":
        g = const_inst(f[1], cterm)
        return None if g is None else Not(g)
    return f


def positive_conjuncts(f):
    if f[0] == "and":
        out = []
        for g in f[1:]:
            out.extend(positive_conjuncts(g))
        return out
    if f[0] == "atom":
        return [f]
    return []


def show(f):
    t = f[0]
    if t == "atom":
        return f"{f[1]}{'=' if f[2] == '=' else ' in '}{f[3]}" if f[2] in ("=", "in") else f"[{f[3]}]"
    if t in ("and", "or"):
        return "(" + (" & " if t == "and" else " | ").join(show(g) for g in f[1:]) + ")"
    if t == "not":
        return "~" + show(f[1])
    return t


# ----------------------------------------------------------------------------- symbolic values
@dataclass
class Sc:
    """Scalar: an ID (or something derived from caller data)."""
    term: str
    dom: "SetV | None" = None  # loop-bound: the set it ranges over
    loop: int | None = None
    caller: bool = False  # derived from caller-supplied data
    source: str | None = None  # source term of the iterable it was drawn from
    const: object = None


@dataclass
class SetV:
    """A set of IDs as a membership formula over the placeholder '$'."""
    f: tuple
    source: str | None = None  # caller iterable it was built from (None: structure / literal)
    materialized: bool = True
    caller: bool = False
    entry: "tuple | None" = None  # (rel, key term) when this is (a copy of) a stored entry
    toks: frozenset = frozenset()  # consumption sites of un-materialised caller iterables this set was read from


@dataclass
class Entry:
    rel: str  # 'E' | 'N'
    key: Sc
    side: str | None  # None | 'in' | 'out'
    directed_dict: bool = False  # the {'in':..,'out':..} dict itself


@dataclass
class DiLocal:
    ins: SetV
    outs: SetV


@dataclass
class Table:
    name: str  # N, E, NATTR, EATTR


@dataclass
class CallerData:
    """An un-materialised value supplied by the caller (parameter, element of a parameter...)."""
    term: str


@dataclass
class Opaque:
    why: str = ""


@dataclass
class Coll:
    """A collection of node sets each drawn from validated (hashable, not None) members - e.g. the faces of
    simplices: results of _subfaces / powerset / combinations, and lists accumulated from them."""
    valid: bool = True
    line: int = 0


SUBSET_PRODUCERS = {"_subfaces", "powerset", "combinations", "subfaces"}


@dataclass
class Event:
    rel: str
    sign: str  # '+' | '-'
    edge: object  # Sc | None (key events use `key`)
    node: object
    key: object
    conds: tuple
    loops: tuple
    stmt: ast.AST
    order: int
    extra: tuple = TRUE  # additional formula over e/x (whole-entry contents)
    note: str = ""
    toks: frozenset = frozenset()


@dataclass
class RaisePoint:
    kind: str
    stmt: ast.AST
    conds: tuple
    loops: tuple
    order: int
    text: str
    callee: str | None = None
    validated: tuple = ()
    final_ranges: tuple = ()  # (first order, last order) of the events of enclosing `finally` blocks: they run on this exit too


_SUB_CACHE = {}
_SUB_CACHE_REPO = set()


class MethodAnalysis:
    def __init__(self, repo, fn: FunctionInfo, directed: bool, valuation=None, trusted_params=(), writer_methods=(), readonly_methods=(), cname=None, depth=0, param_values=None, pre_established=()):
        self._pre_established = tuple(pre_established)
        self.param_values = dict(param_values or {})  # parameter name -> initial symbolic value (collections of validated sets)
        self.cname = cname or (fn.cls.name if fn.cls is not None else None)
        self.depth = depth
        self.inlined = []  # names of private helpers whose events were spliced in
        self.repo = repo
        self.fn = fn
        self.directed = directed
        self.val = dict(valuation or {})
        self.selfn = fn.params[0]
        self.trusted = set(trusted_params)  # parameter names whose elements are hashable and not None (helper contract)
        self.writer_methods = set(writer_methods)
        self.readonly_methods = set(readonly_methods)
        self.events: list[Event] = []
        self.raises: list[RaisePoint] = []
        self.order = 0
        self.acc_axioms = {}  # accumulator atom term -> (relation, domain formula over '$')
        self.loop_counter = 0
        self.if_counter = 0
        self.established = set()  # (table, term) keys known present / accepted; ("!table", term) keys known absent
        self.established |= set(getattr(self, '_pre_established', ()))
        self.clobbers = []  # (table, key term, stmt): stores under a key whose presence is unknown
        self.cover_clobbers = []  # ... where the key may have been created earlier in this very call
        self.test_alias = {}  # local flag name -> the membership test it was assigned from
        self.key_version = {}  # table -> number of deletions so far (key-set atoms are versioned by it)
        self.return_conds = []  # path conditions at each `return`
        self.key_cover = {}  # table -> [formula over $]: IDs made keys by a completed creation loop of this call
        self.accepted = set()  # key terms accepted by an IDDict store
        self.size_flags = {}  # local flag name -> boolean expression of size comparisons it was bound to
        self.size_formulas = {}  # (condition id, id(Compare node)) -> formula of a size comparison, fixed when the branch is taken
        self.memb = set()  # (rel-with-side, edge term, node term) memberships known to hold
        self.hashable_sources = set()
        self.nonnull_sources = set()
        self.consumed = {}  # source term -> list of (stmt, how)
        self.once_findings = []
        self.entry_content = {}  # (rel, side, key term) -> SetV current content when overwritten in this method
        self.empty_entries = []  # (conds, rel, key term) entries known empty under conds
        self.helper_calls = []  # (name, call node, arg validation)
        self.loop_vars = {}  # loop id -> Sc
        self.loop_self_events = {}
        self.notes = []
        self.helper_post = lambda mname: []  # (table, parameter index) keys a helper leaves present on every exit

    # ------------------------------------------------------------------ driver
    def run(self):
        env = {}
        a = self.fn.node.args
        for p in a.posonlyargs + a.args + a.kwonlyargs:
            if p.arg == self.selfn:
                continue
            if p.arg in self.param_values:
                env[p.arg] = self.param_values[p.arg]
            elif p.arg in self.val:
                env[p.arg] = Sc(f"const:{self.val[p.arg]}", const=self.val[p.arg])
            else:
                env[p.arg] = CallerData(f"P:{p.arg}")
                if p.arg in self.trusted:
                    self.accepted.add(f"P:{p.arg}")
                    self.hashable_sources.add(f"P:{p.arg}")
                    self.nonnull_sources.add(f"P:{p.arg}")
        if a.vararg:
            env[a.vararg.arg] = CallerData(f"P:*{a.vararg.arg}")
        if a.kwarg:
            env[a.kwarg.arg] = Opaque("kwargs")
        self.fall_conds = self.block(self.fn.node.body, env, (), ())
        return self

    def tick(self):
        self.order += 1
        return self.order

    def is_trusted_term(self, term):
        return term.startswith("P:") and term[2:] in self.trusted

    def validated_set(self, v):
        """Is v a materialised set of hashable, non-None IDs?"""
        if isinstance(v, SetV):
            if v.source is None:
                return True
            return v.materialized and v.source in self.hashable_sources and v.source in self.nonnull_sources
        if isinstance(v, CallerData):
            return self.is_trusted_term(v.term)
        return False

    # ------------------------------------------------------------------ statements
    def block(self, stmts, env, conds, loops):
        """Returns the extra conditions that hold after the block when control falls through
        (negations of the conditions under which the block left early), or None if it never falls through."""
        conds = tuple(conds)
        for i, st in enumerate(stmts):
            dup = self._side_split(st)
            if dup is not None and i + 1 < len(stmts):
                # the statement binds a name to "in" on one branch and "out" on the other: run the rest of the block
                # once per branch so that the side stays a literal (tail duplication; the branches are exclusive)
                test, first_t, first_f = dup
                rest = list(stmts[i + 1:])
                node = ast.If(test=test, body=first_t + rest, orelse=first_f + rest)
                ast.copy_location(node, st)
                r = self.stmt(node, env, conds, loops)
                if r is None:
                    return None
                return conds + tuple(r)
            r = self.stmt(st, env, conds, loops)
            if r is None:
                return None
            conds = conds + tuple(r)
        return conds

    @staticmethod
    def _side_split(st):
        """(test, [stmts if true], [stmts if false]) when st binds one name to different in/out literals on two branches."""
        def side_const(e):
            return isinstance(e, ast.Constant) and e.value in ("in", "out")

        if isinstance(st, ast.Assign) and len(st.targets) == 1 and isinstance(st.targets[0], ast.Name) and isinstance(st.value, ast.IfExp) and side_const(st.value.body) and side_const(st.value.orelse) and st.value.body.value != st.value.orelse.value:
            a = ast.copy_location(ast.Assign(targets=st.targets, value=st.value.body), st)
            b = ast.copy_location(ast.Assign(targets=st.targets, value=st.value.orelse), st)
            return st.value.test, [a], [b]
        if isinstance(st, ast.If) and st.orelse:
            def consts(body):
                out = {}
                for x in body:
                    if isinstance(x, ast.Assign) and len(x.targets) == 1 and isinstance(x.targets[0], ast.Name) and side_const(x.value):
                        out[x.targets[0].id] = x.value.value
                return out
            a, b = consts(st.body), consts(st.orelse)
            if any(k in b and b[k] != v for k, v in a.items()) and not any(isinstance(x, (ast.Return, ast.Raise, ast.Continue, ast.Break)) for x in st.body + st.orelse):
                return st.test, list(st.body), list(st.orelse)
        return None

    def cond_eval(self, test, env):
        facts = {}
        for k, v in env.items():
            if isinstance(v, Sc) and v.const is not None and not isinstance(v.const, bool):
                pass
        val = dict(self.val)
        none_facts = {}
        for k, v in env.items():
            if isinstance(v, Sc) and v.term.startswith("const:") and k not in self.val:
                val[k] = v.const
            if isinstance(v, Sc) and v.source is not None and (v.source in self.nonnull_sources):
                none_facts[k] = False
            if isinstance(v, Sc) and v.term in self.accepted:
                none_facts[k] = False
        return eval3(test, val, none_facts)

    def stmt(self, st, env, conds, loops):
        """Returns () / tuple of new conditions for following statements, or None when control leaves."""
        self.pending_conds = []
        if isinstance(st, ast.Expr):
            if isinstance(st.value, ast.Constant):
                return ()
            self.expr_stmt(st, env, conds, loops)
            return self.take_pending()
        if isinstance(st, ast.Assign):
            self.assign(st, env, conds, loops)
            return self.take_pending()
        if isinstance(st, ast.AugAssign):
            self.aug(st, env, conds, loops)
            return ()
        if isinstance(st, ast.Delete):
            for t in st.targets:
                if isinstance(t, ast.Subscript):
                    base = self.ev(t.value, env, conds, loops, st)
                    key = self.ev(t.slice, env, conds, loops, st)
                    self.delete(base, key, st, env, conds, loops)
                elif isinstance(t, ast.Name):
                    env.pop(t.id, None)
            return ()
        if isinstance(st, ast.Return):
            if st.value is not None:
                self.ev(st.value, env, conds, loops, st)
            self.has_return = True
            self.return_conds.append(tuple(conds))
            return None
        if isinstance(st, ast.Raise):
            self.raise_point("explicit raise", st, conds, loops)
            return None
        if isinstance(st, (ast.Continue, ast.Break)):
            return None
        if isinstance(st, ast.Pass) or isinstance(st, (ast.Import, ast.ImportFrom, ast.Global, ast.Nonlocal)):
            return ()
        if isinstance(st, ast.If):
            return self.if_stmt(st, env, conds, loops)
        if isinstance(st, (ast.For, ast.AsyncFor)):
            return self.for_stmt(st, env, conds, loops)
        if isinstance(st, ast.While):
            return self.while_stmt(st, env, conds, loops)
        if isinstance(st, ast.Try):
            return self.try_stmt(st, env, conds, loops)
        if isinstance(st, (ast.With, ast.AsyncWith)):
            for it in st.items:
                self.ev(it.context_expr, env, conds, loops, st)
            r = self.block(st.body, env, conds, loops)
            return None if r is None else r[len(conds):]
        if isinstance(st, (ast.FunctionDef, ast.AsyncFunctionDef, ast.ClassDef)):
            return ()
        if isinstance(st, ast.Assert):
            return ()
        raise Unsupported(f"{self.fn.fq}:{st.lineno}: statement kind {type(st).__name__} not supported by the incidence walker")

    def take_pending(self):
        """Conditions that hold after an inlined helper call returned normally (its early exits did not fire)."""
        r = tuple(getattr(self, "pending_conds", ()))
        self.pending_conds = []
        return r

    def if_stmt(self, st, env, conds, loops):
        self.ev_test(st.test, env, conds, loops, st)
        v = self.cond_eval(st.test, env)
        if v is True:
            r = self.block(st.body, env, conds, loops)
            return None if r is None else r[len(conds):]
        if v is False:
            r = self.block(st.orelse, env, conds, loops)
            return None if r is None else r[len(conds):]
        self.if_counter += 1
        cid = self.if_counter
        if self.size_flags and any(isinstance(n, ast.Name) and n.id in self.size_flags for n in ast.walk(st.test)):
            flags = dict(self.size_flags)

            class _Deref(ast.NodeTransformer):
                def visit_Name(self, n):
                    return flags[n.id] if n.id in flags and isinstance(n.ctx, ast.Load) else n

            import copy as _copy

            shell = _copy.copy(st)
            shell.test = _Deref().visit(_copy.deepcopy(st.test)) if not isinstance(st.test, ast.Name) else flags[st.test.id]
            if isinstance(st.test, ast.UnaryOp) and isinstance(st.test.op, ast.Not) and isinstance(st.test.operand, ast.Name) and st.test.operand.id in flags:
                shell.test = ast.copy_location(ast.UnaryOp(op=ast.Not(), operand=flags[st.test.operand.id]), st.test)
            st = shell
        for sub in ast.walk(st.test):
            if isinstance(sub, ast.Compare) and len(sub.ops) == 1 and isinstance(sub.ops[0], (ast.Eq, ast.NotEq)):
                f = Balance(self).size_compare(sub, env)
                if f is not None:
                    self.size_formulas[(cid, id(sub))] = f
        ct = ("if", cid, True, st.test, dict(env))
        cf = ("if", cid, False, st.test, dict(env))
        e1, e2 = dict(env), dict(env)
        snap = (set(self.established), set(self.accepted), set(self.memb), set(self.hashable_sources), set(self.nonnull_sources))
        self.learn(st.test, True, e1)
        r1 = self.block(st.body, e1, conds + (ct,), loops)
        after1 = (set(self.established), set(self.accepted), set(self.memb), set(self.hashable_sources), set(self.nonnull_sources))
        self.established, self.accepted, self.memb, self.hashable_sources, self.nonnull_sources = (set(x) for x in snap)
        self.learn(st.test, False, e2)
        r2 = self.block(st.orelse, e2, conds + (cf,), loops)
        after2 = (set(self.established), set(self.accepted), set(self.memb), set(self.hashable_sources), set(self.nonnull_sources))
        # merge environments / facts of the branches that fall through
        if r1 is None and r2 is None:
            return None
        if r1 is None:
            env.clear(); env.update(e2)
            self.established, self.accepted, self.memb, self.hashable_sources, self.nonnull_sources = after2
            return (cf,) + tuple(r2[len(conds) + 1:])
        if r2 is None:
            env.clear(); env.update(e1)
            self.established, self.accepted, self.memb, self.hashable_sources, self.nonnull_sources = after1
            return (ct,) + tuple(r1[len(conds) + 1:])
        merged = {}
        for k in set(e1) | set(e2):
            a, b = e1.get(k), e2.get(k)
            if a is b or _same_value(a, b):
                merged[k] = a if a is not None else b
            elif a is None or b is None:
                merged[k] = a if a is not None else b
            else:
                merged[k] = self.merge_values(k, a, b, ct, cf)
        env.clear(); env.update(merged)
        self.established, self.accepted, self.memb = after1[0] & after2[0], after1[1] & after2[1], after1[2] & after2[2]
        self.hashable_sources, self.nonnull_sources = after1[3] & after2[3], after1[4] & after2[4]
        return ()

    def merge_values(self, name, a, b, ct, cf):
        if isinstance(a, CallerData):
            a = Sc(a.term, caller=True)
        if isinstance(b, CallerData):
            b = Sc(b.term, caller=True)
        if isinstance(a, Sc) and isinstance(b, Sc):
            return Sc(f"phi({a.term}|{b.term})", caller=a.caller or b.caller, source=a.source if a.source == b.source else None)
        return Opaque(f"merge of {type(a).__name__}/{type(b).__name__} for {name}")

    def for_stmt(self, st, env, conds, loops):
        it = self.ev(st.iter, env, conds, loops, st)
        self.loop_counter += 1
        lid = self.loop_counter
        if isinstance(it, Coll) and isinstance(st.target, ast.Name):
            src = f"face@{st.lineno}"
            if it.valid:
                self.hashable_sources.add(src); self.nonnull_sources.add(src)
            env[st.target.id] = SetV(Atom("$", "in", src), source=src, materialized=True, caller=not it.valid)
            self.loop_vars[lid] = None
        else:
            dom, src, caller = self.iter_domain(it, st, env, conds, loops)
            self.bind_target(st.target, dom, src, caller, lid, st, env)
        benv = dict(env)
        self.block(st.body, benv, conds, loops + (lid,))
        self.close_accumulators(st, env, benv, lid)
        # a completed loop that leaves every element of its domain a key of N/E (created or found present)
        sc = self.loop_vars.get(lid)
        if isinstance(sc, Sc) and sc.dom is not None and not any(isinstance(x, (ast.Continue, ast.Break, ast.Return)) for b in st.body for x in ast.walk(b)):
            for t in ("N", "E"):
                if (t, sc.term) in self.established:
                    self.key_cover.setdefault(t, []).append((sc.dom.f, tuple(conds)))
        # names assigned in the loop body stay visible afterwards
        for k, v in benv.items():
            if k not in env:
                env[k] = v
            elif not _same_value(env[k], v):
                env[k] = v if isinstance(v, (Opaque,)) else v
        if st.orelse:
            r = self.block(st.orelse, env, conds, loops)
            return None if r is None else r[len(conds):]
        return ()

    def close_accumulators(self, st, env, benv, lid):
        """Local sets that grew inside the loop by terms over the loop variable (`acc.add(v)`, `acc.update(E[v][side])`):
        after the loop they hold the union over the whole domain.  `$ = v` becomes `$ in domain`; `$ in E.s[v]` becomes an
        accumulator atom with the axiom  v' in domain & x in E.s[v']  =>  x in acc  (used by the balance check)."""
        sc = self.loop_vars.get(lid)
        jumps = any(isinstance(x, (ast.Continue, ast.Break, ast.Return)) for b in st.body for x in ast.walk(b))
        for name, v in list(benv.items()):
            if not isinstance(v, SetV):
                continue
            mentions = sc is not None and any(sc.term in a[3] for a in atoms_of(v.f))
            if not mentions:
                continue
            before = env.get(name)
            ok = isinstance(before, SetV) and not jumps and sc.dom is not None and not any(sc.term in a[3] for a in atoms_of(before.f))
            terms = []
            if ok:
                parts = list(v.f[1:]) if v.f[0] == "or" else [v.f]
                bparts = (list(before.f[1:]) if before.f[0] == "or" else [before.f]) if before.f != FALSE else []
                if parts[: len(bparts)] != bparts:
                    ok = False
                else:
                    terms = parts[len(bparts):]
            new_terms = []
            for t in terms if ok else []:
                if t[0] != "atom" or t[1] != "$":
                    ok = False
                    break
                if t[2] == "=" and t[3] == sc.term:
                    new_terms.append(sc.dom.f)
                elif t[2] == "in" and t[3].endswith(f"[{sc.term}]") and t[3][0] in "EN":
                    rel = t[3][: -len(sc.term) - 2]
                    aterm = f"acc:{name}@{st.lineno}:{rel}"
                    self.acc_axioms[aterm] = (rel, sc.dom.f)
                    new_terms.append(Atom("$", "in", aterm))
                else:
                    ok = False
                    break
            if ok:
                benv[name] = SetV(Or(before.f, *new_terms), source=None, materialized=True, caller=v.caller, toks=v.toks)
            else:
                benv[name] = Opaque(f"set `{name}` accumulated over loop iterations in a way the walker cannot summarise")

    def while_stmt(self, st, env, conds, loops):
        self.ev_test(st.test, env, conds, loops, st)
        self.loop_counter += 1
        lid = self.loop_counter
        self.loop_vars[lid] = None
        benv = dict(env)
        self.block(st.body, benv, conds, loops + (lid,))
        for k, v in benv.items():
            env[k] = v
        return ()

    def try_stmt(self, st, env, conds, loops):
        n_raises0 = len(self.raises)
        r = self.block(st.body, env, conds, loops)
        for h in st.handlers:
            henv = dict(env)
            if h.name:
                henv[h.name] = Opaque("exception")
            # a handler runs with whatever the try body had done when the exception arose; its own raise is a
            # conversion of that exception, checked at the statement that can raise inside the body
            saved = len(self.raises)
            self.block(h.body, henv, conds, loops)
            # explicit re-raises inside handlers are not separate raise points
            self.raises = [rp for i, rp in enumerate(self.raises) if i < saved or rp.kind != "explicit raise"]
        if r is None:
            rest = None
        else:
            rest = r[len(conds):]
        if st.orelse and r is not None:
            r2 = self.block(st.orelse, env, r, loops)
            rest = None if r2 is None else r2[len(conds):]
        if st.finalbody:
            inside = list(self.raises[n_raises0:])
            t0 = self.order
            self.block(st.finalbody, env, conds, loops)
            t1 = self.order
            for rp in inside:
                rp.final_ranges = rp.final_ranges + ((t0 + 1, t1),)
        return rest

    # ------------------------------------------------------------------ learning from conditions
    def learn(self, test, truth, env):
        """Record facts implied by taking a branch: presence of keys, memberships, emptiness, None-checks."""
        if isinstance(test, ast.UnaryOp) and isinstance(test.op, ast.Not):
            return self.learn(test.operand, not truth, env)
        if isinstance(test, ast.Name) and test.id in self.test_alias:
            # flag = k not in table ... if flag:
            return self.learn(self.test_alias[test.id], truth, env)
        if isinstance(test, ast.BoolOp):
            if isinstance(test.op, ast.And) and truth:
                for v in test.values:
                    self.learn(v, True, env)
            if isinstance(test.op, ast.Or) and not truth:
                for v in test.values:
                    self.learn(v, False, env)
            return
        if isinstance(test, ast.Compare) and len(test.ops) == 1 and isinstance(test.ops[0], (ast.In, ast.NotIn)):
            present = truth if isinstance(test.ops[0], ast.In) else (not truth)
            left, right = test.left, test.comparators[0]
            if isinstance(left, ast.Constant) and left.value is None:
                # `None in S`: on the false branch S holds no None
                try:
                    s = self.ev(right, env, (), (), test, quiet=True)
                except Unsupported:
                    s = None
                if isinstance(s, SetV) and s.source and not present:
                    self.nonnull_sources.add(s.source)
                return
            try:
                k = self.ev(left, env, (), (), test, quiet=True)
                if isinstance(right, ast.Call) and isinstance(right.func, ast.Attribute) and right.func.attr == "keys" and not right.args:
                    right = right.func.value  # `k in table.keys()` is `k in table`
                r = self.ev(right, env, (), (), test, quiet=True)
            except Unsupported:
                return
            if isinstance(k, CallerData):
                k = Sc(k.term, caller=True)
            if isinstance(k, Sc) and not present and isinstance(r, Table):
                self.establish_absent(r.name, k.term)
            if isinstance(k, Sc) and k.dom is not None and isinstance(r, SetV):
                # `n in unseen` with unseen = members - keys: what the outcome says about n being a key
                fact = And(k.dom.f, subst(r.f, "$") if False else r.f) if present else And(k.dom.f, Not(r.f))
                for t in ("N", "E"):
                    ka = self.keys_atom(t)
                    if ka not in atoms_of(fact):
                        continue
                    if self._valid(Or(Not(fact), ka)) is True:
                        self.establish_pre(t, k.term)
                    elif self._valid(Not(And(fact, ka))) is True and not self.covers(t, (), definite=False):
                        self.establish_absent(t, k.term)
            if isinstance(k, Sc) and present:
                if isinstance(r, Table):
                    self.establish_pre(r.name, k.term)
                elif isinstance(r, Entry) and not r.directed_dict:
                    rel = r.rel + (("." + r.side) if r.side else "")
                    if r.rel == "E":
                        self.memb.add((rel, r.key.term, k.term))
                    else:
                        self.memb.add((rel, k.term, r.key.term))
            return

    def ev_test(self, test, env, conds, loops, st):
        # tests may load table entries (raise points) - evaluate their sub-expressions for side conditions only
        for n in ast.walk(test):
            if isinstance(n, ast.Subscript):
                try:
                    self.ev(n, env, conds, loops, st)
                except Unsupported:
                    pass

    # ------------------------------------------------------------------ iteration
    def iter_domain(self, it, st, env, conds, loops):
        """Returns (SetV domain, source term, caller?) for iterating value `it`."""
        if isinstance(it, SetV):
            if it.source and not it.materialized:
                tok = self.consume(it.source, st, "iterated")
                it = SetV(it.f, it.source, it.materialized, it.caller, it.entry, it.toks | {tok})
            return it, it.source, it.caller
        if isinstance(it, Entry) and not it.directed_dict:
            s = self.entry_set(it)
            return s, None, False
        if isinstance(it, Table):
            return SetV(self.keys_atom(it.name) if it.name in ("N", "E") else Atom("$", "in", f"keys({it.name})")), None, False
        if it in ("NODEVIEW", "EDGEVIEW"):
            return SetV(self.keys_atom("N" if it == "NODEVIEW" else "E")), None, False
        if isinstance(it, CallerData) and self.is_trusted_term(it.term):
            self.hashable_sources.add(it.term); self.nonnull_sources.add(it.term)
            return SetV(Atom("$", "in", it.term), source=it.term, materialized=True, caller=False), it.term, False
        if isinstance(it, CallerData):
            first = it.term not in self.consumed
            tok = self.consume(it.term, st, "iterated")
            if first:
                self.raise_point(f"iteration over caller-supplied `{it.term}`", st, conds, loops, soft=True)
            trusted = it.term in {f"P:{p}" for p in self.trusted}
            if trusted:
                self.hashable_sources.add(it.term)
                self.nonnull_sources.add(it.term)
            return SetV(Atom("$", "in", it.term), source=it.term, materialized=False, caller=True, toks=frozenset([tok])), it.term, True
        if isinstance(it, Opaque) or it is None:
            return SetV(Atom("$", "in", f"?{getattr(st, 'lineno', 0)}")), None, True
        if isinstance(it, DiLocal):
            return SetV(Atom("$", "in", "keys(in/out)")), None, False
        if isinstance(it, Sc):
            return SetV(Atom("$", "in", f"iter({it.term})"), source=f"iter({it.term})", materialized=False, caller=it.caller), f"iter({it.term})", it.caller
        return SetV(Atom("$", "in", f"?{getattr(st, 'lineno', 0)}")), None, True

    def bind_target(self, target, dom, src, caller, lid, st, env):
        if isinstance(target, ast.Name):
            sc = Sc(f"v:{target.id}@{st.lineno}", dom=dom, loop=lid, caller=caller, source=src)
            env[target.id] = sc
            self.loop_vars[lid] = sc
            # facts from iterating stored structure
            if dom.entry is not None:
                rel, kterm = dom.entry
                base = rel.split(".")[0]
                if base == "E":
                    self.memb.add((rel, kterm, sc.term))
                    self.establish_pre("N", sc.term)
                else:
                    self.memb.add((rel, sc.term, kterm))
                    self.establish_pre("E", sc.term)
            cur_keys = {self.keys_atom(t)[3]: t for t in ("N", "E")}
            for a in positive_conjuncts(dom.f):
                if a[0] == "atom" and a[2] == "in" and a[3] in cur_keys:
                    self.establish_pre(cur_keys[a[3]], sc.term)
            conj = dom.f[1:] if dom.f[0] == "and" else (dom.f,)
            for c in conj:
                if c[0] == "not" and c[1][0] == "atom" and c[1][2] == "in" and c[1][3] in cur_keys and not self.covers(cur_keys[c[1][3]], (), definite=False):
                    self.establish_absent(cur_keys[c[1][3]], sc.term)
            for a in positive_conjuncts(dom.f):
                if a[0] == "atom" and a[2] == "in" and "[" in a[3] and a[3][0] in "EN":
                    head, _, rest = a[3].partition("[")
                    kterm = rest[:-1]
                    if head.startswith("E"):
                        self.memb.add((head, kterm, sc.term))
                        self.establish_pre("N", sc.term)
                    else:
                        self.memb.add((head, sc.term, kterm))
                        self.establish_pre("E", sc.term)
            return
        if isinstance(target, (ast.Tuple, ast.List)):
            self.loop_vars[lid] = None
            for i, e in enumerate(target.elts):
                if isinstance(e, ast.Name):
                    env[e.id] = CallerData(f"{src or 'it'}@{st.lineno}[{i}]") if caller else Sc(f"v:{e.id}@{st.lineno}", dom=None, loop=lid)
                    if not caller and isinstance(env[e.id], Sc) and i == 0:
                        # keys of .items() of a table
                        for a in atoms_of(dom.f):
                            if a[2] == "in" and a[3].startswith("items("):
                                env[e.id] = Sc(f"v:{e.id}@{st.lineno}", dom=SetV(Atom("$", "in", "keys(" + a[3][6:-1] + ")")), loop=lid)
                                self.loop_vars[lid] = env[e.id]
                                self.establish_pre(a[3][6:-1], env[e.id].term)
                    if not caller and i == 1:
                        for a in atoms_of(dom.f):
                            if a[2] == "in" and a[3].startswith("items("):
                                k = self.loop_vars[lid]
                                if k is not None:
                                    env[e.id] = Entry("E" if a[3][6:-1] == "E" else "N", k, None, directed_dict=self.directed) if a[3][6:-1] in ("E", "N") else Opaque("attr")
            return
        raise Unsupported(f"{self.fn.fq}:{st.lineno}: loop target not supported")

    def consume(self, source, st, how):
        """Register one consumption of an un-materialised caller iterable; returns its token."""
        lst = self.consumed.setdefault(source, [])
        for i, (s0, _) in enumerate(lst):
            if s0 is st:
                return (source, i)
        lst.append((st, how))
        return (source, len(lst) - 1)

    # ------------------------------------------------------------------ expressions
    def ev(self, node, env, conds, loops, st, quiet=False):
        if isinstance(node, ast.Name):
            if node.id == self.selfn:
                return "SELF"
            return env.get(node.id, Opaque(f"unbound {node.id}"))
        if isinstance(node, ast.Constant):
            return Sc(f"const:{node.value!r}", const=node.value)
        if isinstance(node, ast.Attribute):
            base = self.ev(node.value, env, conds, loops, st, quiet)
            if base == "SELF":
                if node.attr in TABLES:
                    return Table(TABLES[node.attr])
                if node.attr in ("nodes", "_nodeview"):
                    return "NODEVIEW"
                if node.attr in ("edges", "_edgeview"):
                    return "EDGEVIEW"
                return Opaque(f"self.{node.attr}")
            return Opaque(f"attr {node.attr}")
        if isinstance(node, ast.Subscript):
            base = self.ev(node.value, env, conds, loops, st, quiet)
            key = self.ev(node.slice, env, conds, loops, st, quiet) if not isinstance(node.slice, ast.Slice) else Opaque("slice")
            return self.subscript(base, key, node, st, conds, loops, quiet)
        if isinstance(node, ast.Call):
            return self.call(node, env, conds, loops, st, quiet)
        if isinstance(node, ast.IfExp):
            v = self.cond_eval(node.test, env)
            if v is True:
                return self.ev(node.body, env, conds, loops, st, quiet)
            if v is False:
                return self.ev(node.orelse, env, conds, loops, st, quiet)
            a = self.ev(node.body, env, conds, loops, st, quiet)
            b = self.ev(node.orelse, env, conds, loops, st, quiet)
            if isinstance(a, Sc) and isinstance(b, Sc):
                return Sc(f"ite({a.term}|{b.term})", caller=a.caller or b.caller)
            if isinstance(a, CallerData) or isinstance(b, CallerData):
                ta = a.term if isinstance(a, (Sc, CallerData)) else "?"
                tb = b.term if isinstance(b, (Sc, CallerData)) else "?"
                return Sc(f"ite({ta}|{tb})", caller=True)
            return Opaque("ifexp")
        if isinstance(node, (ast.Set, ast.List, ast.Tuple)):
            fs = []
            for e in node.elts:
                v = self.ev(e, env, conds, loops, st, quiet)
                if isinstance(v, Sc):
                    fs.append(Atom("$", "=", v.term))
                elif isinstance(v, CallerData):
                    fs.append(Atom("$", "=", v.term))
                else:
                    return Opaque("literal with non-scalar elements")
            return SetV(Or(*fs) if fs else FALSE)
        if isinstance(node, ast.Dict):
            keys = [k.value if isinstance(k, ast.Constant) else None for k in node.keys]
            if set(keys) == {"in", "out"} and len(keys) == 2:
                d = {}
                for k, v in zip(keys, node.values):
                    val = self.ev(v, env, conds, loops, st, quiet)
                    if not isinstance(val, SetV):
                        return Opaque("in/out dict with non-set values")
                    d[k] = val
                return DiLocal(d["in"], d["out"])
            return Opaque("dict literal")
        if isinstance(node, ast.BinOp) and isinstance(node.op, (ast.BitOr, ast.BitAnd, ast.Sub, ast.Add)):
            a = self.as_set(self.ev(node.left, env, conds, loops, st, quiet))
            b = self.as_set(self.ev(node.right, env, conds, loops, st, quiet))
            if a is None or b is None:
                return Opaque("set algebra on unknown operands")
            tk = a.toks | b.toks
            if isinstance(node.op, (ast.BitOr, ast.Add)):  # list + list: the elements of both
                return SetV(Or(a.f, b.f), toks=tk)
            if isinstance(node.op, ast.BitAnd):
                return SetV(And(a.f, b.f), toks=tk)
            return SetV(And(a.f, Not(b.f)), toks=tk)
        if isinstance(node, (ast.Compare, ast.BoolOp, ast.UnaryOp, ast.JoinedStr, ast.BinOp)):
            for ch in ast.iter_child_nodes(node):
                if isinstance(ch, ast.expr):
                    try:
                        self.ev(ch, env, conds, loops, st, quiet)
                    except Unsupported:
                        pass
            return Opaque(type(node).__name__)
        if isinstance(node, (ast.GeneratorExp, ast.ListComp, ast.SetComp, ast.DictComp, ast.Lambda)):
            return Opaque("comprehension")
        if isinstance(node, ast.Starred):
            return self.ev(node.value, env, conds, loops, st, quiet)
        return Opaque(type(node).__name__)

    def as_set(self, v):
        if isinstance(v, SetV):
            return v
        if isinstance(v, Entry) and not v.directed_dict:
            return self.entry_set(v)
        if isinstance(v, Table) and v.name in ("N", "E"):
            return SetV(self.keys_atom(v.name))
        if v in ("NODEVIEW", "EDGEVIEW"):
            return SetV(self.keys_atom("N" if v == "NODEVIEW" else "E"))
        return None

    def keys_atom(self, t):
        """`$ is a key of table t` as of the last deletion from t (keys only grow in between)."""
        ver = self.key_version.get(t, 0)
        return Atom("$", "in", f"keys({t})" + (f"#{ver}" if ver else ""))

    def _valid(self, f):
        """Is formula f (atoms taken as independent booleans) true under every assignment? None if too large."""
        ats = sorted(atoms_of(f))
        if len(ats) > 14:
            return None
        for bits in itertools.product((False, True), repeat=len(ats)):
            if not evalf(f, dict(zip(ats, bits))):
                return False
        return True

    def covers(self, t, conds, definite=True):
        """Cover formulas usable at a point with path conditions `conds`: those recorded under a prefix of them
        (definite), or all of them (possible)."""
        conds = tuple(conds)
        return [f for f, c in self.key_cover.get(t, []) if not definite or conds[: len(c)] == c]

    def dom_all_keys(self, t, k, conds):
        """Every element of the loop variable's domain is a key of t now (present before, or created by a completed loop)."""
        if k.dom is None:
            return False
        return self._valid(Or(Not(k.dom.f), self.keys_atom(t), *self.covers(t, conds))) is True

    def dom_no_keys(self, t, k, conds):
        """No element of the domain is a key of t now."""
        if k.dom is None:
            return False
        return self._valid(Not(And(k.dom.f, Or(self.keys_atom(t), *self.covers(t, conds, definite=False))))) is True

    def dom_hits_cover_only(self, t, k, conds):
        """The domain excludes the keys present before but may contain IDs created earlier in this call."""
        cs = self.covers(t, conds, definite=False)
        if k.dom is None or not cs:
            return False
        return self._valid(Not(And(k.dom.f, self.keys_atom(t)))) is True and self._valid(Not(And(k.dom.f, Or(*cs)))) is False

    def entry_atom_term(self, rel, side, kterm):
        return f"{rel}{('.' + side) if side else ''}[{kterm}]"

    def entry_set(self, e: Entry):
        key = (e.rel, e.side, e.key.term)
        if key in self.entry_content:
            return self.entry_content[key]
        rel = e.rel + (("." + e.side) if e.side else "")
        return SetV(Atom("$", "in", self.entry_atom_term(e.rel, e.side, e.key.term)), entry=(rel, e.key.term))

    def key_scalar(self, key, st):
        if isinstance(key, Sc):
            return key
        if isinstance(key, CallerData):
            return Sc(key.term, caller=True, source=None)
        if isinstance(key, Opaque) and key.why.startswith("unbound"):
            raise Infeasible(key.why)
        raise Unsupported(f"{self.fn.fq}:{st.lineno}: table key of kind {type(key).__name__} not supported")

    def subscript(self, base, key, node, st, conds, loops, quiet):
        if isinstance(base, Table):
            k = self.key_scalar(key, st)
            if base.name in ("N", "E"):
                if not quiet:
                    self.table_load(base.name, k, st, conds, loops)
                if self.directed:
                    return Entry(base.name, k, None, directed_dict=True)
                return Entry(base.name, k, None)
            return Opaque(f"attr record {base.name}[{k.term}]")
        if isinstance(base, Entry) and base.directed_dict:
            side = key.const if isinstance(key, Sc) and key.const in ("in", "out") else None
            if side is None:
                raise Unsupported(f"{self.fn.fq}:{st.lineno}: in/out side `{ast.unparse(node.slice)}` is not a resolved literal")
            return Entry(base.rel, base.key, side)
        if isinstance(base, DiLocal):
            side = key.const if isinstance(key, Sc) and key.const in ("in", "out") else None
            if side is None:
                raise Unsupported(f"{self.fn.fq}:{st.lineno}: in/out side not resolved")
            return base.ins if side == "in" else base.outs
        if isinstance(base, CallerData):
            kt = key.term if isinstance(key, (Sc, CallerData)) else "?"
            kt = kt.replace("const:", "")
            return CallerData(f"{base.term}[{kt}]")
        if isinstance(base, Sc) and base.caller:
            kt = key.term if isinstance(key, (Sc, CallerData)) else "?"
            return CallerData(f"{base.term}[{kt.replace('const:', '')}]")
        return Opaque("subscript")

    def is_established(self, tname, term):
        return (tname, term) in self.established

    def establish_pre(self, tname, term):
        """The key is present in the pre-state: by the invariant it is present in the paired table too."""
        base = {"NATTR": "N", "EATTR": "E"}.get(tname, tname)
        self.established.add((base, term))
        self.established.add(({"N": "NATTR", "E": "EATTR"}[base], term))
        self.accepted.add(term)

    def establish_absent(self, tname, term):
        """The key is absent (from the table and, by the invariant, from its paired attribute table)."""
        base = {"NATTR": "N", "EATTR": "E"}.get(tname, tname)
        self.established.add(("!" + base, term))
        self.established.add(("!" + {"N": "NATTR", "E": "EATTR"}[base], term))

    def term_absent(self, tname, term):
        """Known not to be a key of the table: tested absent on this path, an automatic ID (fresh by the counter
        premise R-FRESH), or a merge of such terms."""
        if ("!" + tname, term) in self.established:
            return True
        if term.startswith("auto@"):
            return tname in ("E", "EATTR")
        for head in ("ite(", "phi("):
            if term.startswith(head) and term.endswith(")"):
                inner = term[len(head):-1]
                parts, depth, cur = [], 0, ""
                for ch in inner:
                    if ch == "(":
                        depth += 1
                    elif ch == ")":
                        depth -= 1
                    if ch == "|" and depth == 0:
                        parts.append(cur)
                        cur = ""
                    else:
                        cur += ch
                parts.append(cur)
                return all(self.term_absent(tname, p) for p in parts)
        return False

    def table_load(self, tname, k: Sc, st, conds, loops):
        if self.is_established(tname, k.term):
            return
        base = {"NATTR": "N", "EATTR": "E"}.get(tname, tname)
        if self.dom_all_keys(base, k, conds):
            self.establish_pre(tname, k.term)
            return
        if k.caller or k.term.startswith("P:") or "P:" in k.term:
            self.raise_point(f"lookup of caller-supplied ID `{k.term}` in {tname}", st, conds, loops)
        self.establish_pre(tname, k.term)

    # ------------------------------------------------------------------ calls
    def call(self, node, env, conds, loops, st, quiet):
        f = node.func
        if not quiet:
            # `g(**x)`, `dict(x)`, `r.update(x)` with a caller-supplied x: raises unless x is a mapping (with string keys for **)
            own_kw = self.fn.node.args.kwarg.arg if self.fn.node.args.kwarg else None
            risky = [k.value for k in node.keywords if k.arg is None]
            fname = getattr(f, "id", getattr(f, "attr", None))
            if fname in ("dict", "update") and len(node.args) == 1 and not (isinstance(f, ast.Attribute) and fname == "dict"):
                risky.append(node.args[0])
            for x in risky:
                if isinstance(x, ast.Name) and x.id == own_kw:
                    continue
                try:
                    xv = self.ev(x, env, conds, loops, st, True)
                except (Unsupported, Infeasible):
                    continue
                if isinstance(xv, CallerData) and not self.is_trusted_term(xv.term):
                    self.raise_point(f"{ast.unparse(node)[:60]}: caller-supplied `{ast.unparse(x)[:30]}` not known to be a mapping (with string keys)", st, conds, loops)
        if isinstance(f, ast.Name):
            name = f.id
            args = [self.ev(a, env, conds, loops, st, quiet) for a in node.args]
            if name in MATERIALIZERS:
                if not args:
                    return SetV(FALSE)
                return self.materialize(args[0], name, st, conds, loops, quiet)
            if name == "next":
                if node.args and isinstance(node.args[0], ast.Attribute) and node.args[0].attr == "_edge_uid":
                    return Sc(f"auto@{node.lineno}")
                if args and isinstance(args[0], (CallerData, Sc, SetV)):
                    t = args[0].term if isinstance(args[0], (CallerData, Sc)) else (args[0].source or "it")
                    return CallerData(f"next({t})@{node.lineno}")
                return Opaque("next")
            if name == "iter" and args:
                if isinstance(args[0], CallerData):
                    return CallerData(f"iter({args[0].term})")
                return args[0]
            if name in SUBSET_PRODUCERS:
                return Coll(valid=bool(args) and self.validated_set(args[0]), line=node.lineno)
            if name in ("len", "isinstance", "issubclass", "type", "all", "any", "warn", "print", "str", "repr", "int", "float", "bool", "min", "max", "hash", "deepcopy", "copy", "dict", "zip", "map", "enumerate", "filter", "sum", "id", "callable", "getattr", "hasattr", "count", "frozen", "defaultdict", "combinations", "powerset"):
                return Opaque(name)
            if name == "update_uid_counter":
                return Opaque(name)
            tgt = self.repo.resolve_name(self.fn, self.fn.module, name)
            if isinstance(tgt, FunctionInfo) or tgt is not None:
                return Opaque(name)
            return Opaque(name)
        if isinstance(f, ast.Attribute):
            m = f.attr
            if m == "fromkeys" and isinstance(f.value, ast.Name) and f.value.id in ("dict", "OrderedDict") and f.value.id not in env and len(node.args) == 1:
                # dict.fromkeys(x): the elements of x, once each, in order - iterating it is iterating a materialised x
                return self.materialize(self.ev(node.args[0], env, conds, loops, st, quiet), "list", st, conds, loops, quiet)
            base = self.ev(f.value, env, conds, loops, st, quiet)
            args = [self.ev(a, env, conds, loops, st, quiet) for a in node.args]
            if base == "SELF":
                if m in SUBSET_PRODUCERS and m not in self.writer_methods:
                    return Coll(valid=bool(args) and self.validated_set(args[0]), line=node.lineno)
                return self.self_call(m, node, args, env, conds, loops, st)
            if base in ("NODEVIEW", "EDGEVIEW"):
                rel = "N" if base == "NODEVIEW" else "E"
                if m in ("members", "memberships") and args and isinstance(args[0], (Sc, CallerData)):
                    k = self.key_scalar(args[0], st)
                    self.table_load(rel, k, st, conds, loops)
                    if self.directed:
                        e = Entry(rel, k, None, directed_dict=True)
                        return SetV(Or(self.entry_set(Entry(rel, k, "in")).f, self.entry_set(Entry(rel, k, "out")).f))
                    return self.entry_set(Entry(rel, k, None))
                return Opaque(f"view.{m}")
            if isinstance(base, Table):
                return self.table_method(base, m, args, node, st, env, conds, loops)
            if isinstance(base, Entry):
                return self.entry_method(base, m, args, node, st, env, conds, loops)
            if isinstance(base, SetV):
                return self.set_method(base, m, args, node, st, env, f.value)
            if isinstance(base, DiLocal):
                if m == "copy":
                    return base
                return Opaque("dilocal method")
            if isinstance(base, CallerData):
                if m in ("items", "values", "keys"):
                    return CallerData(f"{base.term}.{m}()")
                if m == "copy":
                    return base
                return Opaque(f"callerdata.{m}")
            return Opaque(f"method {m}")
        return Opaque("call")

    def materialize(self, v, how, st, conds, loops, quiet):
        if isinstance(v, Coll):
            return v
        if isinstance(v, CallerData) and self.is_trusted_term(v.term):
            self.hashable_sources.add(v.term); self.nonnull_sources.add(v.term)
            return SetV(Atom("$", "in", v.term), source=v.term, materialized=True, caller=False)
        if isinstance(v, CallerData):
            tok = None
            if not quiet:
                first = v.term not in self.consumed
                tok = self.consume(v.term, st, how)
                if first:
                    self.raise_point(f"{how}() of caller-supplied `{v.term}`", st, conds, loops, soft=True)
            if how in ("set", "frozenset"):
                self.hashable_sources.add(v.term)
            if v.term in {f"P:{p}" for p in self.trusted}:
                self.hashable_sources.add(v.term); self.nonnull_sources.add(v.term)
            return SetV(Atom("$", "in", v.term), source=v.term, materialized=True, caller=True, toks=frozenset([tok]) if tok else frozenset())
        if isinstance(v, SetV):
            toks = v.toks
            if v.source and not v.materialized and not quiet:
                toks = toks | {self.consume(v.source, st, how)}
            if how in ("set", "frozenset") and v.source:
                self.hashable_sources.add(v.source)
            return SetV(v.f, source=v.source, materialized=True, caller=v.caller, entry=v.entry, toks=toks)
        if isinstance(v, Entry) and not v.directed_dict:
            return self.entry_set(v)
        if isinstance(v, Table):
            return SetV(Atom("$", "in", f"keys({v.name})"))
        if isinstance(v, Sc) and v.caller:
            return SetV(Atom("$", "in", f"iter({v.term})"), source=f"iter({v.term})", materialized=True, caller=True)
        return Opaque(f"{how}(?)")

    def self_call(self, m, node, args, env, conds, loops, st):
        if m in self.writer_methods and m.startswith("_") and not m.startswith("__") and self.depth < 3 and self.inline_helper(m, node, args, conds, loops, st):
            return Opaque(f"self.{m}() [inlined]")
        if m in self.writer_methods:
            self.raise_point(f"call of writer method self.{m}()", st, conds, loops, soft=True)
            self.raises[-1].callee = m
            self.raises[-1].validated = tuple(self.arg_validated(a) for a in args)
            self.helper_calls.append((m, node, [self.arg_validated(a) for a in args], conds, loops))
            for t, j in self.helper_post(m):
                if j < len(args) and isinstance(args[j], (Sc, CallerData)):
                    self.established.add((t, args[j].term))
                    self.accepted.add(args[j].term)
            self.events.append(Event("CALL", "+", None, None, None, conds, loops, st, self.tick(), note=m))
            return Opaque(f"self.{m}()")
        return Opaque(f"self.{m}()")

    # ------------------------------------------------------------------ inlining of private writer helpers
    def inline_helper(self, m, node, args, conds, loops, st):
        """Splice the events and raise points of private helper self.m(...) into this walk, with its parameters
        replaced by the argument values. Returns False when the helper cannot be analysed (caller falls back to an
        opaque call)."""
        if self.cname is None:
            return False
        try:
            ci = self.repo.get_class(self.cname)
        except AnalysisError:
            return False
        callee = self.repo.find_method(ci, m)
        if callee is None or callee is self.fn:
            return False
        params = callee.params[1:]
        for a in args:
            if isinstance(a, Opaque) and a.why.startswith("unbound"):
                raise Infeasible(a.why)  # this valuation never reaches the call (a name it passes is not bound)
        kwargs = {k.arg: self.ev(k.value, {}, conds, loops, st, quiet=True) for k in node.keywords if k.arg} if False else {}
        argmap = {}
        for i, pn in enumerate(params):
            if i < len(args):
                argmap[pn] = args[i]
        for k in node.keywords:
            if k.arg in params:
                return False  # keyword arguments of helpers: keep the opaque treatment
        trusted = tuple(pn for pn, a in argmap.items() if self.arg_validated(a))
        pvals = {pn: Coll(a.valid, 0) for pn, a in argmap.items() if isinstance(a, Coll)}
        consts = {pn: a.const for pn, a in argmap.items() if isinstance(a, Sc) and a.const is not None and isinstance(a.const, (str, bool, int))}
        # keys the caller has already established (stored / tested present) stay established inside the helper
        pre = tuple(sorted((t, f"P:{pn}") for pn, a in argmap.items() if isinstance(a, (Sc, CallerData)) for t in ("N", "E", "NATTR", "EATTR") if (t, a.term) in self.established))
        ckey = (self.repo.digest(), callee.fq, trusted, self.directed, self.cname, tuple(sorted(self.writer_methods)), tuple(sorted((k, v.valid) for k, v in pvals.items())), tuple(sorted(consts.items())), pre)
        sub = _SUB_CACHE.get(ckey)
        if sub is None:
            sub = MethodAnalysis(self.repo, callee, self.directed, dict(consts), trusted_params=trusted, writer_methods=self.writer_methods, cname=self.cname, depth=self.depth + 1, param_values=pvals, pre_established=pre)
            sub.helper_post = self.helper_post
            try:
                sub.run()
            except (Unsupported, Infeasible):
                sub = False
            _SUB_CACHE[ckey] = sub
        if sub is False:
            return False
        self.inlined.append(m)
        self.inlined.extend(sub.inlined)
        self.if_counter += 1
        tag = self.if_counter
        loop_off = self.loop_counter + 1
        self.loop_counter += sub.loop_counter + 1

        def xterm(t):
            for pn, a in argmap.items():
                if isinstance(a, (Sc, CallerData)):
                    t = t.replace(f"P:{pn}", a.term)
            return t

        def xformula(f):
            if f[0] == "atom":
                var, op, term = f[1], f[2], f[3]
                if op == "in" and term.startswith("P:") and term[2:] in argmap and isinstance(argmap[term[2:]], SetV):
                    return subst(argmap[term[2:]].f, var)
                if op == "in" and term.startswith("P:") and term[2:] in argmap and isinstance(argmap[term[2:]], Entry) and not argmap[term[2:]].directed_dict:
                    return subst(self.entry_set(argmap[term[2:]]).f, var)
                return ("atom", var, op, xterm(term))
            if f[0] in ("and", "or"):
                return (f[0],) + tuple(xformula(g) for g in f[1:])
            if f[0] == "not":
                return ("not", xformula(f[1]))
            return f

        def xset(sv):
            if sv is None:
                return None
            return SetV(xformula(sv.f), sv.source, sv.materialized, sv.caller, sv.entry, sv.toks)

        def xsc(sc):
            if sc is None:
                return None
            if sc.term.startswith("P:") and sc.term[2:] in argmap and isinstance(argmap[sc.term[2:]], Sc):
                return argmap[sc.term[2:]]
            if sc.term.startswith("P:") and sc.term[2:] in argmap and isinstance(argmap[sc.term[2:]], CallerData):
                return Sc(argmap[sc.term[2:]].term, caller=True)
            return Sc(xterm(sc.term), xset(sc.dom), (sc.loop + loop_off) if sc.loop is not None else None, sc.caller, sc.source, sc.const)

        def xconds(cs):
            out = []
            for c in cs:
                if c[0] == "if":
                    out.append(("if", ("h", tag, c[1]), c[2], c[3], c[4]))
            return tuple(conds) + tuple(out)

        def xloops(ls):
            return tuple(loops) + tuple(l + loop_off for l in ls)

        items = [("e", e.order, e) for e in sub.events] + [("r", r.order, r) for r in sub.raises]
        for kind, _, it in sorted(items, key=lambda x: x[1]):
            if kind == "e":
                if it.rel == "CALL":
                    self.events.append(Event("CALL", "+", None, None, None, xconds(it.conds), xloops(it.loops), it.stmt, self.tick(), note=it.note))
                    continue
                extra = it.extra
                if it.note.startswith("maybe-old|"):
                    atom_term = it.note.split("|", 1)[1]
                    key_sc = it.edge if it.edge is not None else it.node
                    tname = it.rel.split(".")[0]
                    if key_sc is not None and self.term_absent(tname, xsc(key_sc).term):
                        extra = assume_false(extra, Atom("$", "in", atom_term))
                        if extra == FALSE:
                            continue
                toks = set()
                for (src, i) in it.toks:
                    nsrc = f"{xterm(src)} [in {m}#{tag}]"
                    lst = self.consumed.setdefault(nsrc, [])
                    while len(lst) < len(sub.consumed.get(src, [])):
                        lst.append(sub.consumed[src][len(lst)])
                    toks.add((nsrc, i))
                self.events.append(Event(it.rel, it.sign, xsc(it.edge), xsc(it.node), xsc(it.key), xconds(it.conds), xloops(it.loops), it.stmt, self.tick(), extra=xformula(extra), note=it.note + f" [in {m}]", toks=frozenset(toks)))
            else:
                self.raises.append(RaisePoint(it.kind, it.stmt, xconds(it.conds), xloops(it.loops), self.tick(), it.text + f" [in {m}]", it.callee, it.validated))
        # the helper returned normally: none of its early exits (raise under a condition) fired
        exit_conds = None
        if not getattr(sub, "has_return", False) and getattr(sub, "fall_conds", None):
            exit_conds = sub.fall_conds
        elif getattr(sub, "fall_conds", None) is None and len(getattr(sub, "return_conds", [])) == 1:
            exit_conds = sub.return_conds[0]  # a single `return` at the end of the helper
        if exit_conds:
            if not hasattr(self, "pending_conds"):
                self.pending_conds = []
            self.pending_conds.extend(xconds(exit_conds)[len(tuple(conds)):])
        # facts the helper leaves behind
        for t, j in self.helper_post(m):
            if j < len(args) and isinstance(args[j], (Sc, CallerData)):
                self.established.add((t, args[j].term))
                self.accepted.add(args[j].term)
        for (t, term) in sub.established:
            self.established.add((t, xterm(term)))
        for term in sub.accepted:
            self.accepted.add(xterm(term))
        return True

    def arg_validated(self, a):
        src = None
        if isinstance(a, Coll):
            return a.valid
        if isinstance(a, Sc):
            if a.term in self.accepted:
                return True
            if a.source is None:
                return not a.caller
            return a.source in self.hashable_sources and a.source in self.nonnull_sources
        if isinstance(a, SetV):
            src = a.source
        if isinstance(a, CallerData):
            if a.term in self.accepted:
                return True
            src = a.term
        if src is None:
            return isinstance(a, SetV)
        return src in self.hashable_sources and src in self.nonnull_sources

    def table_method(self, t: Table, m, args, node, st, env, conds, loops):
        if m == "clear":
            if t.name in ("N", "E"):
                for rel in self.rels(t.name):
                    self.emit(Event(rel, "-", None, None, None, conds, loops, st, self.tick(), extra=TRUE, note="table cleared"))
            self.emit(Event("K:" + t.name, "-", None, None, None, conds, loops, st, self.tick(), extra=TRUE, note="table cleared"))
            return Opaque("clear")
        if m in ("keys",):
            return SetV(self.keys_atom(t.name) if t.name in ("N", "E") else Atom("$", "in", f"keys({t.name})"))
        if m in ("values",):
            return SetV(Atom("$", "in", f"values({t.name})"))
        if m == "items":
            return SetV(Atom("$", "in", f"items({t.name})"))
        if m in ("copy", "get", "__contains__"):
            return Opaque(f"table.{m}")
        if m == "pop" and len(args) == 1 and t.name in ("N", "E") and not self.directed:
            # members = table.pop(k): the stored set is handed out and the key deleted (KeyError when absent)
            k = self.key_scalar(args[0], st)
            self.table_load(t.name, k, st, conds, loops)
            old = self.entry_set(Entry(t.name, k, None))
            content = SetV(old.f, source=None, materialized=True)
            self.delete(t, args[0], st, env, conds, loops)
            return content
        if m in ("pop", "popitem", "update", "setdefault", "__setitem__", "__delitem__"):
            raise Unsupported(f"{self.fn.fq}:{st.lineno}: table method .{m}() on {t.name} is not an idiom the incidence walker recognises")
        return Opaque(f"table.{m}")

    def rels(self, base):
        if self.directed:
            return [base + ".in", base + ".out"]
        return [base]

    def entry_method(self, e: Entry, m, args, node, st, env, conds, loops):
        if e.directed_dict:
            if m == "copy":
                return e
            if m in ("values", "items", "keys", "get"):
                return Opaque("in/out dict view")
            raise Unsupported(f"{self.fn.fq}:{st.lineno}: method .{m}() on an in/out dict")
        rel = e.rel + (("." + e.side) if e.side else "")
        if m in ("add", "remove", "discard"):
            if not args or not isinstance(args[0], (Sc, CallerData)):
                raise Unsupported(f"{self.fn.fq}:{st.lineno}: .{m}() with a non-scalar argument on a stored member set")
            a = self.key_scalar(args[0], st)
            sign = "+" if m == "add" else "-"
            if e.rel == "E":
                edge, nodev = e.key, a
            else:
                edge, nodev = a, e.key
            if m == "remove":
                fact_rel = rel
                known = (fact_rel, edge.term, nodev.term) in self.memb or (self.dual_rel(fact_rel), edge.term, nodev.term) in self.memb
                if not known:
                    self.raise_point(f"{ast.unparse(node)[:60]}: removal of an element not known to be present", st, conds, loops)
            if m == "add" and (a.caller and a.term not in self.accepted and not (a.source and a.source in self.hashable_sources)):
                self.raise_point(f"{ast.unparse(node)[:60]}: caller-supplied value not known to be hashable", st, conds, loops, soft=True)
            toks = frozenset()
            for sc in (edge, nodev):
                if sc.dom is not None:
                    toks |= sc.dom.toks
            self.emit(Event(rel, sign, edge, nodev, None, conds, loops, st, self.tick(), toks=toks))
            key = (e.rel, e.side, e.key.term)
            if key in self.entry_content:
                cur = self.entry_content[key]
                f = Or(cur.f, Atom("$", "=", a.term)) if sign == "+" else And(cur.f, Not(Atom("$", "=", a.term)))
                self.entry_content[key] = SetV(f)
            return Opaque(m)
        if m == "copy":
            return self.entry_set(e)
        if m in ("union", "intersection", "difference", "symmetric_difference", "issubset", "issuperset", "isdisjoint"):
            return self.set_method(self.entry_set(e), m, args, node, st, env, None)
        if m in ("update", "difference_update", "intersection_update") and len(args) == 1:
            self.inplace_entry(e, {"update": "|", "difference_update": "-", "intersection_update": "&"}[m], args[0], st, conds, loops)
            return Opaque(m)
        if m == "clear" and not args:
            self.inplace_entry(e, "clear", None, st, conds, loops)
            return Opaque(m)
        if m in ("clear", "update", "pop", "difference_update", "intersection_update", "symmetric_difference_update"):
            raise Unsupported(f"{self.fn.fq}:{st.lineno}: in-place .{m}() on a stored member set is not an idiom the incidence walker recognises")
        return Opaque(f"entry.{m}")

    def dual_rel(self, rel):
        base, _, side = rel.partition(".")
        ob = "N" if base == "E" else "E"
        return ob + (("." + DUAL_SIDE[side]) if side else "")

    def set_method(self, s: SetV, m, args, node, st, env, recv_node):
        if m == "copy":
            return SetV(s.f, source=s.source, materialized=True, caller=s.caller, entry=s.entry, toks=s.toks)
        if m in ("union", "intersection", "difference"):
            fs = s.f
            for a in args:
                b = self.as_set(a)
                if b is None:
                    return Opaque(f"{m} with unknown operand")
                if m == "union":
                    fs = Or(fs, b.f)
                elif m == "intersection":
                    fs = And(fs, b.f)
                else:
                    fs = And(fs, Not(b.f))
            return SetV(fs, entry=None)
        if m in ("add", "remove", "discard") and isinstance(recv_node, ast.Name) and args and isinstance(args[0], (Sc, CallerData)):
            a = self.key_scalar(args[0], st)
            if m == "remove" and node.args and isinstance(node.args[0], ast.Name) and a.dom is None:
                # the call returned: the element was in the set (otherwise KeyError); later conditions that compare
                # sizes need this fact.  Recorded as a path condition with the pre-state of the local set.
                self.if_counter += 1
                t = ast.Compare(left=ast.Name(id=node.args[0].id, ctx=ast.Load()), ops=[ast.In()], comparators=[ast.Name(id=recv_node.id, ctx=ast.Load())])
                ast.copy_location(t, node)
                ast.fix_missing_locations(t)
                t._const_membership = True
                t._const_formula = const_inst(s.f, a.term)
                self.pending_conds.append(("if", self.if_counter, True, t, dict(env)))
            nf = Or(s.f, Atom("$", "=", a.term)) if m == "add" else And(s.f, Not(Atom("$", "=", a.term)))
            env[recv_node.id] = SetV(nf, source=s.source, materialized=True, caller=s.caller)
            return Opaque(m)
        if m in ("update", "difference_update", "intersection_update") and isinstance(recv_node, ast.Name) and len(args) == 1:
            b = self.as_set(args[0])
            if b is None:
                env[recv_node.id] = Opaque(f"set.{m} with an operand the walker cannot describe")
                return Opaque(m)
            nf = Or(s.f, b.f) if m == "update" else (And(s.f, Not(b.f)) if m == "difference_update" else And(s.f, b.f))
            env[recv_node.id] = SetV(nf, source=None, materialized=True, caller=s.caller or b.caller, toks=s.toks | b.toks)
            return Opaque(m)
        if m in ("issubset", "issuperset", "isdisjoint", "__contains__"):
            return Opaque(m)
        return Opaque(f"set.{m}")

    # ------------------------------------------------------------------ writes
    def expr_stmt(self, st, env, conds, loops):
        self.ev(st.value, env, conds, loops, st)

    def inplace_entry(self, e: Entry, op, operand, st, conds, loops):
        """`entry |= S`, `entry -= S`, `entry &= S` (and update / difference_update / intersection_update / clear) on a
        stored member set: the new content is stored in place of the old one."""
        if e.directed_dict:
            raise Unsupported(f"{self.fn.fq}:{st.lineno}: in-place set operation on an in/out dict")
        old = self.entry_set(e)
        if op == "clear":
            f = FALSE
            toks = frozenset()
        else:
            r = self.as_set(operand)
            if r is None:
                raise Unsupported(f"{self.fn.fq}:{st.lineno}: in-place set operation on a stored member set with an operand the walker cannot describe ({type(operand).__name__})")
            if r.source and not r.materialized:
                self.consume(r.source, st, "merged into a stored member set")
            f = {"|": Or(old.f, r.f), "-": And(old.f, Not(r.f)), "&": And(old.f, r.f)}[op]
            toks = r.toks
        self.store_content(e.rel, e.side, e.key, SetV(f, toks=toks), False, st, conds, loops)

    _AUG_OPS = {ast.BitOr: "|", ast.Sub: "-", ast.BitAnd: "&"}

    def aug(self, st, env, conds, loops):
        if isinstance(st.target, ast.Subscript):
            tgt = ast.copy_location(ast.Subscript(value=st.target.value, slice=st.target.slice, ctx=ast.Load()), st.target)
            tv = self.ev(tgt, env, conds, loops, st)
            if isinstance(tv, SetV) and tv.entry is not None:
                raise Unsupported(f"{self.fn.fq}:{st.lineno}: in-place set operator on an alias of a stored member set")
            if isinstance(tv, Entry):
                op = self._AUG_OPS.get(type(st.op))
                if op is None:
                    raise Unsupported(f"{self.fn.fq}:{st.lineno}: augmented assignment `{ast.unparse(st)[:60]}` on a stored member set")
                self.inplace_entry(tv, op, self.ev(st.value, env, conds, loops, st), st, conds, loops)
                return
            self.ev(st.value, env, conds, loops, st)
            return
        if isinstance(st.target, ast.Name) and isinstance(env.get(st.target.id), Entry) and type(st.op) in self._AUG_OPS:
            # `members = self._edge[e]; members |= {...}`: the operator works in place on the stored set
            self.inplace_entry(env[st.target.id], self._AUG_OPS[type(st.op)], self.ev(st.value, env, conds, loops, st), st, conds, loops)
            return
        if isinstance(st.target, ast.Name):
            v = env.get(st.target.id)
            if isinstance(st.op, ast.Add):
                r = self.ev(st.value, env, conds, loops, st)
                lv = v
                if isinstance(lv, SetV) and lv.f == FALSE:
                    lv = Coll(True, st.lineno)
                if isinstance(lv, Coll):
                    env[st.target.id] = Coll(lv.valid and isinstance(r, Coll) and r.valid, st.lineno)
                    return
                env[st.target.id] = Opaque("aug-add")
                return
            if isinstance(v, Entry):
                raise Unsupported(f"{self.fn.fq}:{st.lineno}: augmented assignment on a stored member set")
            if isinstance(v, SetV):
                r = self.as_set(self.ev(st.value, env, conds, loops, st))
                if r is not None and isinstance(st.op, ast.BitOr):
                    env[st.target.id] = SetV(Or(v.f, r.f))
                elif r is not None and isinstance(st.op, ast.Sub):
                    env[st.target.id] = SetV(And(v.f, Not(r.f)))
                elif r is not None and isinstance(st.op, ast.BitAnd):
                    env[st.target.id] = SetV(And(v.f, r.f))
                else:
                    env[st.target.id] = Opaque("aug")
                if v.entry is not None:
                    raise Unsupported(f"{self.fn.fq}:{st.lineno}: in-place set operator on an alias of a stored member set")
            return
        self.ev(st.value, env, conds, loops, st)

    def assign(self, st, env, conds, loops):
        if len(st.targets) == 1 and isinstance(st.targets[0], (ast.Tuple, ast.List)) and isinstance(st.value, (ast.Tuple, ast.List)) and len(st.targets[0].elts) == len(st.value.elts):
            vals = [self.ev(v, env, conds, loops, st) for v in st.value.elts]
            for t, v in zip(st.targets[0].elts, vals):
                self.assign_to(t, v, st, env, conds, loops)
            return
        val = self.ev(st.value, env, conds, loops, st)
        for t in st.targets:
            self.assign_to(t, val, st, env, conds, loops)
            if isinstance(t, ast.Name):
                self.test_alias.pop(t.id, None)
                self.size_flags.pop(t.id, None)
                found = False
                for sub in ast.walk(st.value):
                    if isinstance(sub, ast.Compare) and len(sub.ops) == 1 and isinstance(sub.ops[0], (ast.Eq, ast.NotEq)):
                        f = Balance(self).size_compare(sub, env)
                        if f is not None:
                            self.size_formulas[(0, id(sub))] = f
                            found = True
                if found and isinstance(st.value, (ast.BoolOp, ast.Compare, ast.UnaryOp)):
                    # `ok = len(a) == len(b) and ...`: a later `if not ok:` stands for the expression (its size
                    # comparisons were evaluated here, with the contents the sets have now)
                    self.size_flags[t.id] = st.value
                v = st.value
                core = v.operand if isinstance(v, ast.UnaryOp) and isinstance(v.op, ast.Not) else v
                if isinstance(core, ast.Compare) and len(core.ops) == 1 and isinstance(core.ops[0], (ast.In, ast.NotIn)):
                    self.test_alias[t.id] = v
        # `self._edge[k] = {"in": tail_set, "out": head_set}`: the two local names denote the stored sides from now on
        if self.directed and isinstance(st.value, ast.Dict) and len(st.targets) == 1 and isinstance(st.targets[0], ast.Subscript):
            base = self.ev(st.targets[0].value, env, conds, loops, st, quiet=True)
            if isinstance(base, Table) and base.name in ("N", "E"):
                key = self.ev(st.targets[0].slice, env, conds, loops, st, quiet=True)
                try:
                    k = self.key_scalar(key, st)
                except (Unsupported, Infeasible):
                    k = None
                if k is not None:
                    for kk, vv in zip(st.value.keys, st.value.values):
                        if isinstance(kk, ast.Constant) and kk.value in ("in", "out") and isinstance(vv, ast.Name) and isinstance(env.get(vv.id), SetV) and env[vv.id].entry is None and env[vv.id].source is None:
                            env[vv.id] = Entry(base.name, k, kk.value)
        # `local = {...}; self._edge[k] = local`: from now on the local name denotes the stored entry (same object)
        if isinstance(st.value, ast.Name) and isinstance(val, (DiLocal, SetV)) and len(st.targets) == 1 and isinstance(st.targets[0], ast.Subscript):
            base = self.ev(st.targets[0].value, env, conds, loops, st, quiet=True)
            if isinstance(base, Table) and base.name in ("N", "E") and not (isinstance(val, SetV) and (val.entry is not None or val.source is not None)):
                key = self.ev(st.targets[0].slice, env, conds, loops, st, quiet=True)
                try:
                    k = self.key_scalar(key, st)
                except (Unsupported, Infeasible):
                    k = None
                if k is not None:
                    env[st.value.id] = Entry(base.name, k, None, directed_dict=True) if self.directed else Entry(base.name, k, None)

    def assign_to(self, t, val, st, env, conds, loops):
        if isinstance(t, ast.Name):
            env[t.id] = val
            return
        if isinstance(t, (ast.Tuple, ast.List)):
            for i, e in enumerate(t.elts):
                if isinstance(val, CallerData):
                    self.assign_to(e, CallerData(f"{val.term}[{i}]"), st, env, conds, loops)
                else:
                    self.assign_to(e, Opaque("unpacked"), st, env, conds, loops)
            return
        if isinstance(t, ast.Subscript):
            base = self.ev(t.value, env, conds, loops, st, quiet=True)
            key = self.ev(t.slice, env, conds, loops, st)
            self.store(base, key, val, st, env, conds, loops, t)
            return
        if isinstance(t, ast.Attribute):
            b = self.ev(t.value, env, conds, loops, st)
            if b == "SELF" and t.attr in TABLES:
                raise Unsupported(f"{self.fn.fq}:{st.lineno}: rebinding of self.{t.attr} inside a writer method")
            return

    def key_is_new(self, tname, k: Sc):
        return (tname, k.term) not in self.established

    def store(self, base, key, val, st, env, conds, loops, target):
        if isinstance(base, Table):
            k = self.key_scalar(key, st)
            t = base.name
            # IDDict store: first use of a caller-supplied key can be refused (None / unhashable)
            if (k.caller or "P:" in k.term) and k.term not in self.accepted and not (k.source and k.source in self.hashable_sources and k.source in self.nonnull_sources):
                self.raise_point(f"IDDict store under caller-supplied ID `{k.term}`", st, conds, loops)
            new = self.key_is_new(t, k)
            # presence unknown: the store may replace an entry that exists (its old content is dropped)
            base_t = {"NATTR": "N", "EATTR": "E"}.get(t, t)
            maybe = new and not self.term_absent(t, k.term) and not self.dom_no_keys(base_t, k, conds) and not getattr(self, "assume_new_keys", False)
            if maybe and t in ("N", "E") and self.dom_hits_cover_only(base_t, k, conds):
                self.cover_clobbers.append((t, k.term, st))
            self.accepted.add(k.term)
            self.established.discard(("!" + t, k.term))
            if t in ("NATTR", "EATTR"):
                if new:
                    self.emit(Event("K:" + t, "+", None, None, k, conds, loops, st, self.tick()))
                self.established.add((t, k.term))
                return
            # N / E
            if new:
                self.emit(Event("K:" + t, "+", None, None, k, conds, loops, st, self.tick()))
            self.established.add((t, k.term))
            if maybe:
                new = False
                self.clobbers.append((t, k.term, st))
                self.maybe_store = (t, k.term)
            if self.directed:
                if isinstance(val, DiLocal):
                    contents = {"in": val.ins, "out": val.outs}
                elif isinstance(val, Entry) and val.directed_dict:
                    contents = {"in": self.entry_set(Entry(val.rel, val.key, "in")), "out": self.entry_set(Entry(val.rel, val.key, "out"))}
                else:
                    raise Unsupported(f"{self.fn.fq}:{st.lineno}: value stored in self._{'node' if t == 'N' else 'edge'}[...] of a directed network is not an in/out dict the walker recognises")
                for side, sv in contents.items():
                    self.store_content(t, side, k, sv, new, st, conds, loops)
            else:
                sv = self.as_set(val)
                if sv is None:
                    if isinstance(val, CallerData) and self.is_trusted_term(val.term):
                        sv = SetV(Atom("$", "in", val.term), source=val.term, materialized=True, caller=False)
                    elif isinstance(val, CallerData):
                        tok = self.consume(val.term, st, "stored")
                        sv = SetV(Atom("$", "in", val.term), source=val.term, materialized=False, caller=True, toks=frozenset([tok]))
                    else:
                        raise Unsupported(f"{self.fn.fq}:{st.lineno}: value stored in a member table is not a set expression the walker recognises ({type(val).__name__})")
                self.store_content(t, None, k, sv, new, st, conds, loops)
            self.maybe_store = None
            return
        if isinstance(base, Entry) and base.directed_dict:
            side = key.const if isinstance(key, Sc) and key.const in ("in", "out") else None
            if side is None:
                raise Unsupported(f"{self.fn.fq}:{st.lineno}: in/out side not resolved in store")
            sv = self.as_set(val)
            if sv is None:
                raise Unsupported(f"{self.fn.fq}:{st.lineno}: value stored in an in/out slot not recognised")
            self.store_content(base.rel, side, base.key, sv, False, st, conds, loops)
            return
        if isinstance(base, Opaque) or isinstance(base, (SetV, DiLocal, CallerData)) or base is None:
            return
        if isinstance(base, Entry):
            raise Unsupported(f"{self.fn.fq}:{st.lineno}: item assignment on a stored member set")

    def store_content(self, t, side, k: Sc, sv: SetV, new, st, conds, loops):
        rel = t + (("." + side) if side else "")
        ckey = (t, side, k.term)
        tag = "content"
        if getattr(self, "maybe_store", None) == (t, k.term) and ckey not in self.entry_content:
            # presence of the key unknown: the old content is a symbolic atom a caller that knows the key absent can drop
            tag = f"maybe-old|{self.entry_atom_term(t, side, k.term)}"
        old = FALSE if new else (self.entry_content[ckey].f if ckey in self.entry_content else Atom("$", "in", self.entry_atom_term(t, side, k.term)))
        if sv.source and not sv.materialized:
            pass
        gain = And(sv.f, Not(old))
        loss = And(old, Not(sv.f))
        if gain != FALSE:
            self.emit(Event(rel, "+", k if t == "E" else None, k if t == "N" else None, None, conds, loops, st, self.tick(), extra=gain, note=tag, toks=sv.toks))
        if loss != FALSE:
            self.emit(Event(rel, "-", k if t == "E" else None, k if t == "N" else None, None, conds, loops, st, self.tick(), extra=loss, note=tag, toks=sv.toks))
        self.entry_content[ckey] = SetV(sv.f, source=sv.source, materialized=sv.materialized, caller=sv.caller, toks=sv.toks)

    def delete(self, base, key, st, env, conds, loops):
        if isinstance(base, Table):
            k = self.key_scalar(key, st)
            t = base.name
            if not self.is_established(t, k.term) and (k.caller or "P:" in k.term):
                self.raise_point(f"deletion of caller-supplied ID `{k.term}` from {t}", st, conds, loops)
            self.emit(Event("K:" + t, "-", None, None, k, conds, loops, st, self.tick()))
            if t in ("N", "E"):
                for side in (("in", "out") if self.directed else (None,)):
                    rel = t + (("." + side) if side else "")
                    if self.entry_known_empty(t, side, k, conds):
                        continue
                    ckey = (t, side, k.term)
                    content = self.entry_content[ckey].f if ckey in self.entry_content else Atom("$", "in", self.entry_atom_term(t, side, k.term))
                    self.emit(Event(rel, "-", k if t == "E" else None, k if t == "N" else None, None, conds, loops, st, self.tick(), extra=content, note="entry deleted"))
            self.established.discard((t, k.term))
            self.established.add(("!" + t, k.term))
            if t in ("N", "E"):
                self.key_version[t] = self.key_version.get(t, 0) + 1
                self.key_cover.pop(t, None)
            return
        if isinstance(base, Entry):
            raise Unsupported(f"{self.fn.fq}:{st.lineno}: del on a stored member set")

    def entry_known_empty(self, t, side, k: Sc, conds):
        """Idiom (ii): a dominating `not self._edge[k]` (for every side) on the taken branch."""
        for c in conds:
            if c[0] != "if":
                continue
            _, cid, pol, test, cenv = c
            if self._test_implies_empty(test, pol, t, side, k, cenv):
                return True
        return False

    def _test_implies_empty(self, test, pol, t, side, k, cenv):
        if isinstance(test, ast.BoolOp) and isinstance(test.op, ast.And) and pol:
            return any(self._test_implies_empty(v, True, t, side, k, cenv) for v in test.values)
        if isinstance(test, ast.UnaryOp) and isinstance(test.op, ast.Not) and pol:
            try:
                v = self.ev(test.operand, dict(cenv), (), (), test, quiet=True)
            except Unsupported:
                return False
            if isinstance(v, Entry) and v.rel == t and v.key.term == k.term and (v.side == side):
                return True
        if isinstance(test, ast.Compare) and len(test.ops) == 1 and pol and isinstance(test.ops[0], ast.Eq):
            # len(self._edge[k]) == 0
            l, r = test.left, test.comparators[0]
            if isinstance(l, ast.Call) and isinstance(l.func, ast.Name) and l.func.id == "len" and isinstance(r, ast.Constant) and r.value == 0:
                try:
                    v = self.ev(l.args[0], dict(cenv), (), (), test, quiet=True)
                except Unsupported:
                    return False
                if isinstance(v, Entry) and v.rel == t and v.key.term == k.term and v.side == side:
                    return True
        return False

    def emit(self, ev: Event):
        self.events.append(ev)

    def raise_point(self, kind, st, conds, loops, soft=False):
        self.raises.append(RaisePoint(kind, st, tuple(conds), tuple(loops), self.tick(), ("soft:" if soft else "") + kind))


def _same_value(a, b):
    if a is b:
        return True
    if type(a) is not type(b):
        return False
    if isinstance(a, Sc):
        return a.term == b.term
    if isinstance(a, SetV):
        return a.f == b.f and a.source == b.source
    if isinstance(a, CallerData):
        return a.term == b.term
    if isinstance(a, Table):
        return a.name == b.name
    if isinstance(a, Entry):
        return (a.rel, a.side, a.key.term, a.directed_dict) == (b.rel, b.side, b.key.term, b.directed_dict)
    return False


# ----------------------------------------------------------------------------- balance checking
PAIRINGS_UND = [("E", "N")]
PAIRINGS_DIR = [("E.in", "N.out"), ("E.out", "N.in")]
KEY_PAIRS = [("K:E", "K:EATTR"), ("K:N", "K:NATTR")]


class Balance:
    def __init__(self, ma: MethodAnalysis):
        self.ma = ma

    # conditions -> formulas
    def cond_formula(self, c, edge: Sc | None, nodev: Sc | None, rename):
        _, cid, pol, test, cenv = c
        f = self.test_formula(test, cenv, edge, nodev, rename, cid)
        return f if pol else Not(f)

    def test_formula(self, test, cenv, edge, nodev, rename, cid):
        ma = self.ma
        if isinstance(test, ast.UnaryOp) and isinstance(test.op, ast.Not):
            return Not(self.test_formula(test.operand, cenv, edge, nodev, rename, cid))
        if isinstance(test, ast.BoolOp):
            parts = [self.test_formula(v, cenv, edge, nodev, rename, cid) for v in test.values]
            return And(*parts) if isinstance(test.op, ast.And) else Or(*parts)
        if isinstance(test, ast.Compare) and len(test.ops) == 1 and isinstance(test.ops[0], (ast.In, ast.NotIn)) and isinstance(test.left, ast.Name):
            lv = cenv.get(test.left.id)
            if isinstance(lv, Sc):
                var = None
                if edge is not None and lv.term == edge.term:
                    var = "e"
                elif nodev is not None and lv.term == nodev.term:
                    var = "x"
                if var is not None:
                    try:
                        rv = ma.ev(test.comparators[0], dict(cenv), (), (), test, quiet=True)
                    except Unsupported:
                        rv = None
                    s = ma.as_set(rv) if rv is not None else None
                    if s is not None:
                        f = subst(s.f, var, rename=rename)
                        return f if isinstance(test.ops[0], ast.In) else Not(f)
        if getattr(test, "_const_membership", False) and getattr(test, "_const_formula", None) is not None:
            return test._const_formula
        if isinstance(test, ast.Compare) and (0, id(test)) in ma.size_formulas:
            # part of a flag expression: computed when the flag was assigned
            return ma.size_formulas[(0, id(test))]
        if isinstance(test, ast.Compare) and (cid, id(test)) in ma.size_formulas:
            # computed when the branch was taken (the contents of the stored entries are those of that moment)
            return ma.size_formulas[(cid, id(test))]
        text = ast.unparse(test)
        for a, b in rename.items():
            text = text.replace(a, b)
        return Atom("c", "c", f"{text}")

    def size_compare(self, test, cenv):
        """`len(A) != len(B)` where A and B are sets that differ only in finitely many named elements (a local copy of
        a stored entry after remove / add of given IDs): |A| - |B| is the sum over those IDs c of [c in A] - [c in B],
        each a formula over atoms `c in <stored entry>`; the comparison is the disjunction of the assignments where the
        sum is not zero.  None when the shape is not recognised (the caller falls back to an opaque condition)."""
        ma = self.ma
        sides = []
        for e in (test.left, test.comparators[0]):
            if not (isinstance(e, ast.Call) and isinstance(e.func, ast.Name) and e.func.id == "len" and len(e.args) == 1 and not e.keywords):
                return None
            try:
                v = ma.ev(e.args[0], dict(cenv), (), (), test, quiet=True)
            except (Unsupported, Infeasible):
                return None
            sv = ma.as_set(v)
            if sv is None or (sv.source and not sv.materialized):
                return None
            sides.append(sv.f)
        fa, fb = sides
        consts = sorted({a[3] for a in atoms_of(fa) | atoms_of(fb) if a[1] == "$" and a[2] == "="})
        if len(consts) > 4:
            return None
        # away from the named elements the two sets must be the same set
        ra, rb = const_inst(fa, None), const_inst(fb, None)
        if ra is None or rb is None:
            return None
        ats = sorted(atoms_of(ra) | atoms_of(rb))
        if len(ats) > 10:
            return None
        for bits in itertools.product((False, True), repeat=len(ats)):
            asg = dict(zip(ats, bits))
            if evalf(ra, asg) != evalf(rb, asg):
                return None
        per = []
        for c in consts:
            a_c, b_c = const_inst(fa, c), const_inst(fb, c)
            if a_c is None or b_c is None:
                return None
            per.append((a_c, b_c))
        cats = sorted(set().union(*[atoms_of(x) | atoms_of(y) for x, y in per])) if per else []
        if len(cats) > 8:
            return None
        differ = []
        for bits in itertools.product((False, True), repeat=len(cats)):
            asg = dict(zip(cats, bits))
            d = sum(int(evalf(x, asg)) - int(evalf(y, asg)) for x, y in per)
            if d != 0:
                differ.append(And(*[(a if v else Not(a)) for a, v in asg.items()]))
        f = Or(*differ) if differ else FALSE
        return f if isinstance(test.ops[0], ast.NotEq) else Not(f)

    def event_formula(self, ev: Event, fixed_loops=()):
        """Formula over e/x (pair events) or k (key events) describing the pairs/keys this event adds or removes."""
        ma = self.ma
        rename = {}
        parts = []
        if ev.rel.startswith("K:"):
            k = ev.key
            if k is None:
                parts.append(ev.extra)
            else:
                if k.dom is not None and k.loop not in fixed_loops:
                    rename[k.term] = "k"
                    parts.append(subst(k.dom.f, "k", rename=rename))
                else:
                    parts.append(Atom("k", "=", k.term))
            for c in ev.conds:
                if c[0] == "if":
                    parts.append(self.cond_formula(c, None, None, rename) if True else TRUE)
            f = And(*parts)
            # a key bound as 'k' may appear inside condition texts
            return f
        edge, nodev = ev.edge, ev.node
        if edge is not None and edge.dom is not None and edge.loop not in fixed_loops:
            rename[edge.term] = "e"
        if nodev is not None and nodev.dom is not None and nodev.loop not in fixed_loops:
            rename[nodev.term] = "x"
        if edge is not None:
            if edge.term in rename:
                parts.append(subst(edge.dom.f, "e", rename=rename))
            else:
                parts.append(Atom("e", "=", edge.term))
        if nodev is not None:
            if nodev.term in rename:
                parts.append(subst(nodev.dom.f, "x", rename=rename))
            else:
                parts.append(Atom("x", "=", nodev.term))
        if ev.extra != TRUE:
            var = "x" if ev.rel.startswith("E") else "e"
            parts.append(subst(ev.extra, var, rename=rename))
        # enclosing loops whose variable is neither coordinate: their variable stays a free term (same on both sides)
        for c in ev.conds:
            if c[0] == "if":
                parts.append(self.cond_formula(c, edge, nodev, rename))
        return And(*parts)

    def total(self, events, rel, sign, fixed_loops=()):
        fs = [self.event_formula(ev, fixed_loops) for ev in events if ev.rel == rel and ev.sign == sign]
        return Or(*fs) if fs else FALSE

    # invariant constraints on truth assignments
    def consistent(self, asg, atoms, side_pair):
        """I on the pre-state, restricted to the atoms present. side_pair = (E-rel, N-rel) being compared."""
        erel, nrel = side_pair
        # generic atoms x in E.s[e]  <=> e in N.s'[x]
        for a in atoms:
            if a[0] != "atom" or a[2] != "in":
                continue
        # collect equalities
        xeq = [a for a in atoms if a[1] == "x" and a[2] == "="]
        eeq = [a for a in atoms if a[1] == "e" and a[2] == "="]
        xin = [a for a in atoms if a[1] == "x" and a[2] == "in"]
        ein = [a for a in atoms if a[1] == "e" and a[2] == "in"]
        def parse(term):
            # 'E.in[foo]' -> ('E','in','foo')
            if "[" not in term or not term.endswith("]"):
                return None
            head, _, rest = term.partition("[")
            key = rest[:-1]
            base, _, side = head.partition(".")
            if base not in ("E", "N"):
                return None
            return base, (side or None), key
        for a in xin:
            p = parse(a[3])
            if not p or p[0] != "E":
                continue
            # x in E.s[KEY]
            if p[2] == "e":
                # generic: x in E.s[e]; with x = T  <=>  e in N.s'[T]
                for q in xeq:
                    if asg[q]:
                        dual = ("atom", "e", "in", f"N{('.' + DUAL_SIDE[p[1]]) if p[1] else ''}[{q[3]}]")
                        if dual in asg and asg[dual] != asg[a]:
                            return False
                for q in eeq:
                    if asg[q]:
                        same = ("atom", "x", "in", f"E{('.' + p[1]) if p[1] else ''}[{q[3]}]")
                        if same in asg and asg[same] != asg[a]:
                            return False
            else:
                # x in E.s[U] with x = T  <=>  U in N.s'[T]  (not an atom about e) - nothing to relate
                for q in eeq:
                    if asg[q] and q[3] == p[2]:
                        gen = ("atom", "x", "in", f"E{('.' + p[1]) if p[1] else ''}[e]")
                        if gen in asg and asg[gen] != asg[a]:
                            return False
                        # e = U and x = T: x in E.s[U] <=> e in N.s'[T]
                        for r in xeq:
                            if asg[r]:
                                dual = ("atom", "e", "in", f"N{('.' + DUAL_SIDE[p[1]]) if p[1] else ''}[{r[3]}]")
                                if dual in asg and asg[dual] != asg[a]:
                                    return False
        for a in ein:
            p = parse(a[3])
            if not p or p[0] != "N":
                continue
            if p[2] == "x":
                for q in eeq:
                    if asg[q]:
                        dual = ("atom", "x", "in", f"E{('.' + DUAL_SIDE[p[1]]) if p[1] else ''}[{q[3]}]")
                        if dual in asg and asg[dual] != asg[a]:
                            return False
                for q in xeq:
                    if asg[q]:
                        same = ("atom", "e", "in", f"N{('.' + p[1]) if p[1] else ''}[{q[3]}]")
                        if same in asg and asg[same] != asg[a]:
                            return False
                gen = ("atom", "x", "in", f"E{('.' + DUAL_SIDE[p[1]]) if p[1] else ''}[e]")
                if gen in asg and asg[gen] != asg[a]:
                    return False
        # ground facts: every atom that, under the equalities this assignment makes true, speaks about the same
        # (node, edge, side) pair of the pre-state has the same truth value (this ties the atoms about named elements,
        # `P:n in E[P:e]`, to the generic ones and to their duals)
        res_x = next((a[3] for a in xeq if asg[a]), None)
        res_e = next((a[3] for a in eeq if asg[a]), None)
        ground = {}
        for a in atoms:
            if a[0] != "atom" or a[2] != "in":
                continue
            p = parse(a[3])
            if not p:
                continue
            var = a[1]
            member = res_x if var == "x" else (res_e if var == "e" else (var if var not in ("k", "c", "$") else None))
            key = res_e if p[2] == "e" else (res_x if p[2] == "x" else p[2])
            if member is None or key is None:
                continue
            if p[0] == "E":
                if var == "e":
                    continue
                fact = (member, key, p[1])
            else:
                if var == "x":
                    continue
                fact = (key, member, DUAL_SIDE[p[1]])
            if fact in ground and ground[fact] != asg[a]:
                return False
            ground[fact] = asg[a]
        return True

    def accumulators_ok(self, asg):
        """acc = union over v in D of REL[v]:  (g in D) & (m in REL[g])  =>  m in acc, for the generic pair (e, x)."""
        for a, val in asg.items():
            if a[0] != "atom" or a[2] != "in" or not a[3].startswith("acc:") or val:
                continue
            rel, dom = self.ma.acc_axioms.get(a[3], (None, None))
            if rel is None:
                continue
            member_var = a[1]  # the variable said not to be in the accumulator
            key_var = "e" if member_var == "x" else "x"
            if (rel.startswith("E") and member_var != "x") or (rel.startswith("N") and member_var != "e"):
                continue
            gen = ("atom", member_var, "in", f"{rel}[{key_var}]")
            if not asg.get(gen, False):
                # the dual atom of the pre-relation says the same thing
                base, _, side = rel.partition(".")
                dual = ("atom", key_var, "in", f"{'N' if base == 'E' else 'E'}{('.' + DUAL_SIDE[side]) if side else ''}[{member_var}]")
                if not asg.get(dual, False):
                    continue
            d = subst(dom, key_var)
            try:
                if all(x in asg for x in atoms_of(d)) and evalf(d, asg):
                    return False
            except KeyError:
                continue
        return True

    def equivalent(self, f1, f2, side_pair, loss):
        """Returns None if equivalent under the constraints, else a witness assignment (dict atom->bool)."""
        f1, f2 = factor_common(f1, f2)
        atoms = set(atoms_of(f1)) | set(atoms_of(f2))
        erel, nrel = side_pair
        gen_e = None
        if loss and not erel.startswith("K:"):
            side = erel.partition(".")[2] or None
            gen_e = ("atom", "x", "in", f"E{('.' + side) if side else ''}[e]")
            gen_n = ("atom", "e", "in", f"N{('.' + DUAL_SIDE[side]) if side else ''}[x]")
            atoms |= {gen_e, gen_n}
        atoms = sorted(atoms)
        if len(atoms) > 20:
            raise Unsupported(f"{self.ma.fn.fq}: too many atoms ({len(atoms)}) in a balance formula")
        index = {a: i for i, a in enumerate(atoms)}
        g1, g2 = compile_formula(f1, index), compile_formula(f2, index)
        for bits in itertools.product([False, True], repeat=len(atoms)):
            if g1(bits) == g2(bits):
                continue
            asg = dict(zip(atoms, bits))
            if gen_e is not None and not (asg[gen_e] and asg[gen_n]):
                continue  # losses only concern pairs of the pre-relation
            if gen_e is not None and any((a[2] == "in" and a[3] in ("keys(N)", "keys(E)") and not asg[a]) for a in atoms):
                continue  # members of pre-relation pairs are keys of the tables
            if not distinct_terms_ok(asg, atoms):
                continue
            if not self.consistent(asg, atoms, side_pair):
                continue
            if not self.accumulators_ok(asg):
                continue
            if evalf(f1, asg) != evalf(f2, asg):
                return asg
        return None

    def check(self, events, fixed_loops=()):
        """Compare the deltas of paired relations. Returns list of (rel_a, rel_b, sign, witness, f_a, f_b)."""
        out = []
        pairs = PAIRINGS_DIR if self.ma.directed else PAIRINGS_UND
        for a, b in pairs:
            for sign in "+-":
                fa = self.total(events, a, sign, fixed_loops)
                fb = self.total(events, b, sign, fixed_loops)
                if fa == FALSE and fb == FALSE:
                    continue
                w = self.equivalent(fa, fb, (a, b), loss=(sign == "-"))
                if w is not None:
                    out.append((a, b, sign, w, fa, fb))
        for a, b in KEY_PAIRS:
            for sign in "+-":
                fa = self.total(events, a, sign, fixed_loops)
                fb = self.total(events, b, sign, fixed_loops)
                if fa == FALSE and fb == FALSE:
                    continue
                w = self.equivalent(fa, fb, (a, b), loss=False)
                if w is not None:
                    out.append((a, b, sign, w, fa, fb))
        return out


def compile_formula(f, index):
    """Compile a formula into a Python function of the tuple of atom truth values."""
    def gen(f):
        t = f[0]
        if t == "true":
            return "True"
        if t == "false":
            return "False"
        if t == "atom":
            return f"a[{index[f]}]"
        if t == "and":
            return "(" + " and ".join(gen(g) for g in f[1:]) + ")"
        if t == "or":
            return "(" + " or ".join(gen(g) for g in f[1:]) + ")"
        if t == "not":
            return "(not " + gen(f[1]) + ")"
        raise ValueError(t)
    return eval("lambda a: " + gen(f))  # noqa: S307 - expression built from our own formula tree only


def _disjuncts(f):
    return list(f[1:]) if f[0] == "or" else [f]


def _conjuncts(f):
    return list(f[1:]) if f[0] == "and" else [f]


def factor_common(f1, f2):
    """Drop opaque branch-condition literals that occur as a top-level conjunct of EVERY disjunct of both formulas and
    nowhere else: C & A == C & B  iff  A == B when C shares no atom with A and B (and is satisfiable)."""
    if f1 in (TRUE, FALSE) or f2 in (TRUE, FALSE):
        return f1, f2
    d1, d2 = _disjuncts(f1), _disjuncts(f2)
    def lits(d):
        out = set()
        for c in _conjuncts(d):
            if c[0] == "atom" and c[1] == "c":
                out.add(c)
            elif c[0] == "not" and c[1][0] == "atom" and c[1][1] == "c":
                out.add(c)
        return out
    common = None
    for d in d1 + d2:
        l = lits(d)
        common = l if common is None else (common & l)
    if not common:
        return f1, f2
    def strip(d):
        return And(*[c for c in _conjuncts(d) if c not in common])
    n1 = Or(*[strip(d) for d in d1])
    n2 = Or(*[strip(d) for d in d2])
    # the removed literals' atoms must not occur in what remains
    removed_atoms = {c if c[0] == "atom" else c[1] for c in common}
    if removed_atoms & (set(atoms_of(n1)) | set(atoms_of(n2))):
        return f1, f2
    # and they must be jointly satisfiable (no literal together with its negation)
    for c in common:
        if c[0] == "atom" and ("not", c) in common:
            return f1, f2
    return n1, n2


def distinct_terms_ok(asg, atoms):
    """Non-aliasing assumption: a generic variable equals at most one of several distinct terms
    (two different parameters / loop variables / automatic IDs are not assumed to coincide)."""
    for var in ("e", "x", "k"):
        n = 0
        for a in atoms:
            if a[0] == "atom" and a[1] == var and a[2] == "=" and asg[a]:
                n += 1
        if n > 1:
            return False
    return True


def compatible(ev_conds, p_conds):
    """Could the event have executed on a path that reaches the program point with conditions p_conds?"""
    pol = {c[1]: c[2] for c in p_conds if c[0] == "if"}
    for c in ev_conds:
        if c[0] == "if" and c[1] in pol and pol[c[1]] != c[2]:
            return False
    return True


def describe_witness(w):
    return ", ".join(f"{show(a)}={'T' if v else 'F'}" for a, v in sorted(w.items(), key=lambda kv: str(kv[0])) if a[0] == "atom")
