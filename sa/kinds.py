"""ID / position kind inference (abstract interpretation over one function at a time).

Kinds (tuples; None = unknown, never reported)
  ('id', which)        a node / edge label of a network           which in {'node','edge',None}
  ('pos',)             a position (range, enumerate index, argsort/argmax result, value of dict(zip(ids, range(n))))
  ('idpos',)           a label of a network produced by convert_labels_to_integers (labels are positions)
  ('num',)             a plain number that is neither
  ('seq', elem)        positional container (list / tuple / ndarray / members() default / list(view))
  ('map', key, val)    dict
  ('set', elem)        set / frozenset
  ('tup', (k1, k2..))  fixed-length tuple (multiple return values, zip/enumerate/items elements)
  ('mat',)             numpy / scipy matrix or tensor (subscripts are positions)
  ('net', idpos)       network object;   ('view', which, idpos);   ('stat', which, idpos)

Rules checked at every subscript:
  K1  a positional container is never subscripted with a label
  K2  a label-keyed map is never subscripted with a position (unless labels are positions: idpos)
  K5  a map keyed by node labels is never subscripted with an edge label of the same network, and vice versa
"""
from __future__ import annotations

import ast
from dataclasses import dataclass, field

from .model import FunctionInfo, ModuleInfo, ClassInfo, External, numpydoc_param_types
from .rules.common import NET_WORDS

ID_N, ID_E, ID_ANY = ("id", "node"), ("id", "edge"), ("id", None)
POS, IDPOS, NUM, MAT = ("pos",), ("idpos",), ("num",), ("mat",)


def seq(e):
    return ("seq", e)


def mp(k, v):
    return ("map", k, v)


def st(e):
    return ("set", e)


def tup(*ks):
    return ("tup", tuple(ks))


def is_id(k):
    return k is not None and k[0] == "id"


def join(a, b):
    if a == b:
        return a
    if a is None or b is None:
        return None
    if a[0] == b[0]:
        if a[0] in ("seq", "set"):
            return (a[0], join(a[1], b[1]))
        if a[0] == "map":
            return ("map", join(a[1], b[1]), join(a[2], b[2]))
        if a[0] == "id":
            return ID_ANY
        if a[0] == "tup" and len(a[1]) == len(b[1]):
            return ("tup", tuple(join(x, y) for x, y in zip(a[1], b[1])))
        if a[0] == "net":
            return ("net", jflag(a[1], b[1]))
        if a[0] in ("view", "stat"):
            return (a[0], a[1] if a[1] == b[1] else None, jflag(a[2], b[2]))
    if {a[0], b[0]} <= {"pos", "num"}:
        return NUM
    return None


def jflag(a, b):
    """Join of the labels-are-positions flag of two networks: False (arbitrary labels) < 'perm' (the labels are a
    permutation of 0..n-1, but the views list them in insertion order) < True (labels 0..n-1 in view order)."""
    if not a or not b:
        return False
    if a == "perm" or b == "perm":
        return "perm"
    return True


def elem_of(k):
    """Kind of an element obtained by iterating a value of kind k."""
    if k is None:
        return None
    t = k[0]
    if t in ("seq", "set"):
        return k[1]
    if t == "map":
        return k[1]
    if t == "view":
        return IDPOS if k[2] else ("id", k[1])
    if t == "net":
        return IDPOS if k[1] else ID_N
    if t == "tup":
        out = None
        first = True
        for x in k[1]:
            out = x if first else join(out, x)
            first = False
        return out
    if t == "mat":
        return MAT
    return None


@dataclass
class KViolation:
    rule: str
    node: ast.AST
    container: tuple
    index: tuple
    text: str


@dataclass
class KResult:
    violations: list = field(default_factory=list)
    subscripts: int = 0
    both_resolved: int = 0
    container_only: int = 0
    index_only: int = 0
    neither: int = 0
    returns: list = field(default_factory=list)
    perm_pairs: list = field(default_factory=list)  # zip(view of a 'perm' network, ...) calls
    order_uses: list = field(default_factory=list)  # K3 information: sorted()/min()/max()/< on labels
    calls: list = field(default_factory=list)  # (call node, callee name, [arg kinds])


class KindAnalysis:
    def __init__(self, repo, fn: FunctionInfo, param_kinds=None, engine=None, depth=0):
        self.repo = repo
        self.fn = fn
        self.res = KResult()
        self.param_kinds = param_kinds or {}
        self.engine = engine
        self.depth = depth

    # ------------------------------------------------------------------ driver
    def add_violation(self, v):
        key = (v.rule, getattr(v.node, "lineno", 0), getattr(v.node, "col_offset", 0))
        if key not in self._vkeys:
            self._vkeys.add(key)
            self.res.violations.append(v)

    def run(self):
        self._vkeys = set()
        self._counted = set()
        env = {}
        doc = numpydoc_param_types(self.fn.docstring())
        for p in self.fn.all_params:
            if p in self.param_kinds:
                env[p] = self.param_kinds[p]
                continue
            t = doc.get(p, "")
            if p in ("self",):
                continue
            if NET_WORDS.search(t or "") and not (t or "").lower().startswith(("list", "dict")):
                env[p] = ("net", False)
            elif p in ("H", "S", "SC", "DH", "net", "H1", "H2") and not t:
                env[p] = ("net", False)
            elif (t or "").strip().lower() in ("node", "node id", "hashable", "node ID".lower()) and p in ("n", "node", "source", "target"):
                env[p] = ID_N
            elif p in ("pos", "node_pos") and "dict" in (t or "dict").lower() and "tuple" not in (t or "").lower():
                env[p] = mp(ID_N, seq(NUM))
            elif p == "edge_pos":
                env[p] = mp(ID_E, seq(NUM))
        self.block(self.fn.node.body, env)
        return self.res

    # ------------------------------------------------------------------ statements
    def block(self, stmts, env):
        for s in stmts:
            self.stmt(s, env)

    def merge(self, env, e1, e2):
        keys = set(e1) | set(e2)
        env.clear()
        for k in keys:
            if k in e1 and k in e2:
                env[k] = join(e1[k], e2[k])
            else:
                env[k] = e1.get(k, e2.get(k))

    def stmt(self, s, env):
        if isinstance(s, ast.Assign):
            v = self.ev(s.value, env)
            for t in s.targets:
                self.assign(t, v, env, s.value)
        elif isinstance(s, ast.AnnAssign) and s.value is not None:
            self.assign(s.target, self.ev(s.value, env), env, s.value)
        elif isinstance(s, ast.AugAssign):
            v = self.ev(s.value, env)
            if isinstance(s.target, ast.Name):
                cur = env.get(s.target.id)
                if cur is not None and cur[0] in ("seq", "set") and v is not None and v[0] in ("seq", "set"):
                    env[s.target.id] = (cur[0], join(cur[1], v[1]) if cur[1] is not None else v[1])
                elif cur == POS and v in (NUM, None, POS):
                    env[s.target.id] = POS if isinstance(s.op, (ast.Add, ast.Sub)) else None
                else:
                    self.ev(s.target, env)
            else:
                self.ev(s.target, env)
        elif isinstance(s, ast.Expr):
            self.ev(s.value, env)
            self.side_effects(s.value, env)
        elif isinstance(s, ast.Return):
            if s.value is not None:
                if isinstance(s.value, ast.IfExp):
                    self.ev(s.value.test, env)
                    self.res.returns.append(self.ev(s.value.body, env))
                    self.res.returns.append(self.ev(s.value.orelse, env))
                else:
                    self.res.returns.append(self.ev(s.value, env))
        elif isinstance(s, ast.If):
            self.ev(s.test, env)
            e1, e2 = dict(env), dict(env)
            pg = self.perm_guard(s.test, env)
            if pg is not None:
                (e1 if pg[1] else e2)[pg[0]] = ("net", "perm")
            self.block(s.body, e1)
            self.block(s.orelse, e2)
            self.merge(env, e1, e2)
        elif isinstance(s, (ast.For, ast.AsyncFor)):
            it = self.ev(s.iter, env)
            ek = self.iter_elem(s.iter, it, env)
            for _ in range(2):
                self.assign(s.target, ek, env, None)
                e1 = dict(env)
                self.block(s.body, e1)
                self.merge(env, dict(env), e1)
            self.block(s.orelse, env)
        elif isinstance(s, ast.While):
            self.ev(s.test, env)
            for _ in range(2):
                e1 = dict(env)
                self.block(s.body, e1)
                self.merge(env, dict(env), e1)
        elif isinstance(s, (ast.With, ast.AsyncWith)):
            for it in s.items:
                v = self.ev(it.context_expr, env)
                if it.optional_vars is not None:
                    self.assign(it.optional_vars, None, env, None)
            self.block(s.body, env)
        elif isinstance(s, ast.Try):
            self.block(s.body, env)
            for h in s.handlers:
                e1 = dict(env)
                self.block(h.body, e1)
                self.merge(env, dict(env), e1)
            self.block(s.orelse, env)
            self.block(s.finalbody, env)
        elif isinstance(s, (ast.Raise, ast.Assert)):
            for ch in ast.iter_child_nodes(s):
                if isinstance(ch, ast.expr):
                    self.ev(ch, env)
        elif isinstance(s, ast.Delete):
            for t in s.targets:
                self.ev(t, env)

    def perm_guard(self, test, env):
        """`set(X.nodes) == set(range(X.num_nodes))` (also len(X.nodes) / len(X)): in that branch the node labels of X
        are exactly 0..n-1 - usable as positions - but nothing says the view lists them in that order.
        Returns (name of X, branch in which the guard holds)."""
        if not (isinstance(test, ast.Compare) and len(test.ops) == 1 and isinstance(test.ops[0], (ast.Eq, ast.NotEq))):
            return None
        def nodes_of(e):
            if isinstance(e, ast.Call) and getattr(e.func, "id", None) in ("set", "frozenset", "sorted", "list") and len(e.args) == 1:
                a = e.args[0]
                if isinstance(a, ast.Attribute) and a.attr in ("nodes", "_node") and isinstance(a.value, ast.Name):
                    return a.value.id
                if isinstance(a, ast.Name) and env.get(a.id) is not None and env[a.id][0] == "net":
                    return a.id
            return None
        def range_n(e, x):
            if isinstance(e, ast.Call) and getattr(e.func, "id", None) in ("set", "frozenset", "list") and len(e.args) == 1:
                e = e.args[0]
            if not (isinstance(e, ast.Call) and getattr(e.func, "id", None) == "range" and len(e.args) == 1):
                return False
            n = e.args[0]
            if isinstance(n, ast.Attribute) and n.attr == "num_nodes" and isinstance(n.value, ast.Name) and n.value.id == x:
                return True
            if isinstance(n, ast.Call) and getattr(n.func, "id", None) == "len" and len(n.args) == 1:
                a = n.args[0]
                return (isinstance(a, ast.Name) and a.id == x) or (isinstance(a, ast.Attribute) and a.attr in ("nodes", "_node") and isinstance(a.value, ast.Name) and a.value.id == x)
            return False
        for l, r in ((test.left, test.comparators[0]), (test.comparators[0], test.left)):
            x = nodes_of(l)
            if x is not None and range_n(r, x):
                k = env.get(x)
                if k is None or k[0] == "net":
                    return x, isinstance(test.ops[0], ast.Eq)
        return None

    def side_effects(self, e, env):
        """x.append(v) / x.add(v) / x[k] = v style container growth."""
        if isinstance(e, ast.Call) and isinstance(e.func, ast.Attribute) and isinstance(e.func.value, ast.Name):
            name = e.func.value.id
            cur = env.get(name)
            m = e.func.attr
            if m in ("append", "add") and e.args:
                v = self.ev(e.args[0], env)
                if cur is not None and cur[0] in ("seq", "set"):
                    env[name] = (cur[0], v if cur[1] is None else join(cur[1], v))
            elif m in ("extend", "update") and e.args:
                v = self.ev(e.args[0], env)
                if cur is not None and cur[0] in ("seq", "set") and v is not None and v[0] in ("seq", "set"):
                    env[name] = (cur[0], v[1] if cur[1] is None else join(cur[1], v[1]))

    def assign(self, t, v, env, value_node):
        if isinstance(t, ast.Name):
            env[t.id] = v
        elif isinstance(t, (ast.Tuple, ast.List)):
            if v is not None and v[0] == "tup" and len(v[1]) == len(t.elts):
                for e, k in zip(t.elts, v[1]):
                    self.assign(e, k, env, None)
            elif isinstance(value_node, (ast.Tuple, ast.List)) and len(value_node.elts) == len(t.elts):
                for e, vn in zip(t.elts, value_node.elts):
                    self.assign(e, self.ev(vn, env), env, vn)
            else:
                ek = elem_of(v) if v is not None and v[0] in ("seq", "set") else None
                for e in t.elts:
                    self.assign(e, ek, env, None)
        elif isinstance(t, ast.Subscript):
            ck = self.ev(t.value, env)
            ik = self.ev(t.slice, env)
            self.check_subscript(t, ck, ik)
            # d[k] = v grows an empty dict's kinds
            if isinstance(t.value, ast.Name) and ck is not None and ck[0] == "map" and ck[1] is None and not isinstance(t.slice, ast.Slice):
                env[t.value.id] = ("map", ik, v if ck[2] is None else join(ck[2], v))
        elif isinstance(t, ast.Starred):
            self.assign(t.value, None, env, None)

    # ------------------------------------------------------------------ iteration
    def iter_elem(self, node, k, env):
        if isinstance(node, ast.Call):
            f = node.func
            name = f.id if isinstance(f, ast.Name) else f.attr if isinstance(f, ast.Attribute) else None
            if name == "range":
                return POS
            if name == "enumerate" and node.args:
                inner = self.ev(node.args[0], env)
                return tup(POS, self.iter_elem(node.args[0], inner, env))
            if name == "zip":
                return tup(*[self.iter_elem(a, self.ev(a, env), env) for a in node.args])
            if name == "product" and node.args:
                return elem_of(self.func_call(node, name, [self.ev(a, env) for a in node.args], {}, env))
            if name in ("combinations", "permutations", "combinations_with_replacement") and node.args:
                inner = self.ev(node.args[0], env)
                return seq(elem_of(inner))
            if name in ("sorted", "reversed", "list", "set", "tuple", "iter") and node.args:
                return self.iter_elem(node.args[0], self.ev(node.args[0], env), env)
            if isinstance(f, ast.Attribute) and name == "items":
                base = self.ev(f.value, env)
                if base is not None and base[0] == "map":
                    return tup(base[1], base[2])
                if base is not None and base[0] == "view":
                    return tup(IDPOS if base[2] else ("id", base[1]), None)
                if base is not None and base[0] == "stat":
                    return tup(IDPOS if base[2] else ("id", base[1]), NUM)
                return tup(None, None)
            if isinstance(f, ast.Attribute) and name == "values":
                base = self.ev(f.value, env)
                if base is not None and base[0] == "map":
                    return base[2]
                return None
            if isinstance(f, ast.Attribute) and name == "keys":
                base = self.ev(f.value, env)
                if base is not None and base[0] == "map":
                    return base[1]
                return None
        return elem_of(k)

    # ------------------------------------------------------------------ expressions
    def ev(self, e, env):
        if e is None:
            return None
        m = getattr(self, "ev_" + type(e).__name__, None)
        if m is None:
            for ch in ast.iter_child_nodes(e):
                if isinstance(ch, ast.expr):
                    self.ev(ch, env)
            return None
        return m(e, env)

    def ev_Name(self, e, env):
        return env.get(e.id)

    def ev_Constant(self, e, env):
        if isinstance(e.value, bool) or e.value is None:
            return None
        if isinstance(e.value, (int, float)):
            return ("lit",)
        return None

    def ev_Tuple(self, e, env):
        ks = [self.ev(x, env) for x in e.elts]
        return ("tup", tuple(ks))

    def ev_List(self, e, env):
        ks = [self.ev(x, env) for x in e.elts]
        out = None
        for i, k in enumerate(ks):
            out = k if i == 0 else join(out, k)
        return seq(out)

    def ev_Set(self, e, env):
        ks = [self.ev(x, env) for x in e.elts]
        out = None
        for i, k in enumerate(ks):
            out = k if i == 0 else join(out, k)
        return st(out)

    def ev_Dict(self, e, env):
        kk = vv = None
        for i, (k, v) in enumerate(zip(e.keys, e.values)):
            a = self.ev(k, env) if k is not None else None
            b = self.ev(v, env)
            kk = a if i == 0 else join(kk, a)
            vv = b if i == 0 else join(vv, b)
        return mp(kk, vv)

    def comp_env(self, e, env):
        env2 = dict(env)
        for g in e.generators:
            it = self.ev(g.iter, env2)
            self.assign(g.target, self.iter_elem(g.iter, it, env2), env2, None)
            for c in g.ifs:
                self.ev(c, env2)
        return env2

    def ev_ListComp(self, e, env):
        env2 = self.comp_env(e, env)
        return seq(self.ev(e.elt, env2))

    def ev_GeneratorExp(self, e, env):
        env2 = self.comp_env(e, env)
        return seq(self.ev(e.elt, env2))

    def ev_SetComp(self, e, env):
        env2 = self.comp_env(e, env)
        return st(self.ev(e.elt, env2))

    def ev_DictComp(self, e, env):
        env2 = self.comp_env(e, env)
        return mp(self.ev(e.key, env2), self.ev(e.value, env2))

    def ev_IfExp(self, e, env):
        self.ev(e.test, env)
        return join(self.ev(e.body, env), self.ev(e.orelse, env))

    def ev_BoolOp(self, e, env):
        out = None
        for i, v in enumerate(e.values):
            k = self.ev(v, env)
            out = k if i == 0 else join(out, k)
        return out

    def ev_Compare(self, e, env):
        l = self.ev(e.left, env)
        for op, c in zip(e.ops, e.comparators):
            r = self.ev(c, env)
            if isinstance(op, (ast.Lt, ast.Gt, ast.LtE, ast.GtE)) and (is_id(l) or is_id(r)):
                self.res.order_uses.append((e, "comparison of labels"))
        return None

    def ev_UnaryOp(self, e, env):
        self.ev(e.operand, env)
        return None

    def ev_BinOp(self, e, env):
        l, r = self.ev(e.left, env), self.ev(e.right, env)
        if isinstance(e.op, (ast.Add, ast.Sub)):
            if l == POS and r in (("lit",), NUM, POS):
                return POS
            if r == POS and l in (("lit",), NUM) and isinstance(e.op, ast.Add):
                return POS
        if isinstance(e.op, (ast.BitOr, ast.BitAnd, ast.Sub, ast.BitXor)) and l is not None and l[0] == "set":
            return l
        if l is not None and l[0] == "mat" or (r is not None and r[0] == "mat"):
            return MAT
        if isinstance(e.op, ast.Add) and l is not None and r is not None and l[0] == "seq" and r[0] == "seq":
            return seq(join(l[1], r[1]))
        if isinstance(e.op, ast.Mult) and l is not None and l[0] == "seq":
            return l
        return None

    def ev_Starred(self, e, env):
        return self.ev(e.value, env)

    def ev_Lambda(self, e, env):
        return None

    def ev_JoinedStr(self, e, env):
        for v in e.values:
            if isinstance(v, ast.FormattedValue):
                self.ev(v.value, env)
        return None

    def ev_NamedExpr(self, e, env):
        v = self.ev(e.value, env)
        self.assign(e.target, v, env, e.value)
        return v

    def ev_Attribute(self, e, env):
        b = self.ev(e.value, env)
        a = e.attr
        if b is None:
            return None
        if b[0] == "net":
            if a in ("nodes", "_nodeview"):
                return ("view", "node", b[1])
            if a in ("edges", "_edgeview"):
                return ("view", "edge", b[1])
            if a in ("num_nodes", "num_edges"):
                return NUM
            if a == "_node":
                return mp(IDPOS if b[1] else ID_N, st(IDPOS if b[1] else ID_E))
            if a == "_edge":
                return mp(IDPOS if b[1] else ID_E, st(IDPOS if b[1] else ID_N))
            if a in ("_node_attr",):
                return mp(IDPOS if b[1] else ID_N, None)
            if a in ("_edge_attr",):
                return mp(IDPOS if b[1] else ID_E, None)
            return None
        if b[0] == "view":
            if a == "ids":
                return st(IDPOS if b[2] else ("id", b[1]))
            return ("stat", b[1], b[2])
        if b[0] == "mat":
            if a in ("T", "real", "imag", "A", "data"):
                return MAT
            if a == "shape":
                return seq(NUM)
            return None
        if b[0] == "seq" and a in ("T", "real"):
            return b
        return None

    def ev_Subscript(self, e, env):
        ck = self.ev(e.value, env)
        if isinstance(e.slice, ast.Slice):
            for x in (e.slice.lower, e.slice.upper, e.slice.step):
                if x is not None:
                    self.ev(x, env)
            return ck if ck is not None and ck[0] in ("seq", "mat") else None
        ik = self.ev(e.slice, env)
        self.check_subscript(e, ck, ik)
        if ck is None:
            return None
        t = ck[0]
        if t == "seq":
            if ik is not None and ik[0] in ("seq", "mat"):
                return ck  # fancy indexing
            return ck[1]
        if t == "map":
            return ck[2]
        if t == "tup":
            if isinstance(e.slice, ast.Constant) and isinstance(e.slice.value, int) and -len(ck[1]) <= e.slice.value < len(ck[1]):
                return ck[1][e.slice.value]
            return elem_of(ck)
        if t == "mat":
            return MAT if isinstance(e.slice, ast.Tuple) and any(isinstance(x, ast.Slice) for x in e.slice.elts) else NUM
        if t == "stat":
            return NUM
        if t == "view":
            return None
        return None

    def check_subscript(self, node, ck, ik):
        first = id(node) not in self._counted
        self._counted.add(id(node))
        if not first:
            c_known = i_known = False
        if first:
            self.res.subscripts += 1
        idx_kinds = []
        if ik is not None and ik[0] == "tup" and isinstance(node.slice, ast.Tuple):
            idx_kinds = list(ik[1])
        else:
            idx_kinds = [ik]
        c_known = ck is not None and ck[0] in ("seq", "map", "mat", "tup")
        i_known = any(k is not None and k[0] in ("id", "pos", "idpos") for k in idx_kinds)
        if not first:
            pass
        elif c_known and i_known:
            self.res.both_resolved += 1
        elif c_known:
            self.res.container_only += 1
        elif i_known:
            self.res.index_only += 1
        else:
            self.res.neither += 1
        if ck is None:
            return
        text = " ".join(ast.unparse(node).split())[:80]
        if ck[0] in ("seq", "mat", "tup"):
            for k in idx_kinds:
                if k is not None and k[0] in ("seq", "tup") and ck[0] != "tup":
                    inner = elem_of(k)
                    if is_id(inner):
                        k = inner
                if is_id(k):
                    what = {"seq": "a positional sequence", "mat": "a matrix", "tup": "a tuple"}[ck[0]]
                    self.add_violation(KViolation("K1", node, ck, k, f"`{text}`: {what} is indexed with a {k[1] or 'node/edge'} label"))
        elif ck[0] == "map":
            key = ck[1]
            for k in idx_kinds[:1]:
                if is_id(key) and k == POS:
                    self.add_violation(KViolation("K2", node, ck, k, f"`{text}`: a dict keyed by {key[1] or 'node/edge'} labels is indexed with a position"))
                if key == POS and is_id(k):
                    self.add_violation(KViolation("K2", node, ck, k, f"`{text}`: a dict keyed by positions is indexed with a {k[1] or 'node/edge'} label"))
                if is_id(key) and is_id(k) and key[1] and k[1] and key[1] != k[1]:
                    self.add_violation(KViolation("K5", node, ck, k, f"`{text}`: a dict keyed by {key[1]} labels is indexed with a {k[1]} label"))

    # ------------------------------------------------------------------ calls
    def ev_Call(self, e, env):
        f = e.func
        args = [self.ev(a, env) for a in e.args]
        kws = {k.arg: self.ev(k.value, env) for k in e.keywords if k.arg}
        for k in e.keywords:
            if k.arg is None:
                self.ev(k.value, env)
        name = f.id if isinstance(f, ast.Name) else f.attr if isinstance(f, ast.Attribute) else None
        self.res.calls.append((e, name, args, kws))
        if isinstance(f, ast.Attribute):
            base = self.ev(f.value, env)
            r = self.method_call(e, base, f.attr, args, kws, env)
            if r is not NotImplemented:
                return r
        return self.func_call(e, name, args, kws, env)

    def idk(self, which, idpos):
        return IDPOS if idpos else ("id", which)

    def method_call(self, e, base, m, args, kws, env):
        if base is None:
            return NotImplemented
        t = base[0]
        kwnode = {k.arg: k.value for k in e.keywords if k.arg}
        if t == "view":
            which, ip = base[1], base[2]
            me = self.idk(which, ip)
            other = self.idk("edge" if which == "node" else "node", ip)
            dtype = kwnode.get("dtype")
            is_dict = isinstance(dtype, ast.Name) and dtype.id == "dict"
            if m in ("members", "memberships", "head", "tail", "dimembers", "dimemberships", "sources", "targets"):
                has_id_arg = bool(e.args) or ("e" in kwnode and not (isinstance(kwnode["e"], ast.Constant) and kwnode["e"].value is None)) or ("n" in kwnode)
                inner = st(other) if m not in ("dimembers", "dimemberships") else tup(st(other), st(other))
                if has_id_arg:
                    return inner
                if m in ("memberships", "dimemberships") or is_dict:
                    return mp(me, inner)
                return seq(inner)
            if m in ("filterby", "filterby_attr", "duplicates", "lookup", "isolates", "singletons", "empty", "maximal", "from_view", "__call__"):
                return base
            if m == "neighbors":
                return st(me)
            if m in ("items",):
                return seq(tup(me, None))
            if m == "multi":
                return ("stat", which, ip)
            # stat called with arguments: H.nodes.degree(order=2)
            return ("stat", which, ip)
        if t == "stat":
            which, ip = base[1], base[2]
            me = self.idk(which, ip)
            if m == "asdict":
                return mp(me, NUM)
            if m in ("aslist", "asnumpy"):
                return seq(NUM)
            if m in ("argmax", "argmin"):
                return me
            if m == "argsort":
                return seq(me)
            if m in ("max", "min", "sum", "mean", "median", "std", "var", "mode", "moment"):
                return NUM
            if m == "aspandas":
                return None
            return ("stat", which, ip)
        if t == "net":
            if m in ("copy", "dual", "cleanup"):
                return ("net", False) if m != "copy" else base
            return NotImplemented
        if t == "map":
            if m == "get" and args:
                self.check_map_key(e, base, args[0])
                return base[2]
            if m in ("keys",):
                return st(base[1])
            if m == "values":
                return seq(base[2])
            if m == "items":
                return seq(tup(base[1], base[2]))
            if m == "copy":
                return base
            if m in ("pop", "setdefault") and args:
                self.check_map_key(e, base, args[0])
                return base[2]
            return None
        if t == "seq":
            if m == "index":
                return POS
            if m in ("copy", "tolist", "flatten", "ravel", "astype", "reshape", "todense", "toarray"):
                return base
            if m in ("argsort",):
                return seq(POS)
            if m in ("argmax", "argmin"):
                return POS
            if m in ("sum", "mean", "max", "min", "dot", "count"):
                return NUM
            return None
        if t == "set":
            if m in ("copy", "union", "intersection", "difference", "symmetric_difference"):
                return base
            if m == "pop":
                return base[1]
            return None
        if t == "mat":
            if m in ("argsort",):
                return seq(POS)
            if m in ("argmax", "argmin"):
                return POS
            if m in ("nonzero",):
                return tup(seq(POS), seq(POS))
            if m in ("sum", "mean", "max", "min", "trace"):
                return MAT
            return MAT if m in ("dot", "T", "transpose", "todense", "toarray", "tocsr", "tocoo", "tolil", "astype", "copy", "multiply", "power", "diagonal", "reshape", "ravel", "flatten", "setdiag", "conj") else None
        return NotImplemented

    def check_map_key(self, node, mk, ik):
        fake = ast.Subscript(value=ast.Name(id="_", ctx=ast.Load()), slice=ast.Name(id="_", ctx=ast.Load()), ctx=ast.Load())
        ast.copy_location(fake, node)
        fake.__dict__["_text"] = ast.unparse(node)
        self.res.subscripts += 1
        key = mk[1]
        text = " ".join(ast.unparse(node).split())[:80]
        if is_id(key) and ik == POS:
            self.add_violation(KViolation("K2", node, mk, ik, f"`{text}`: a dict keyed by {key[1] or 'node/edge'} labels is looked up with a position"))
        if key == POS and is_id(ik):
            self.add_violation(KViolation("K2", node, mk, ik, f"`{text}`: a dict keyed by positions is looked up with a {ik[1] or 'node/edge'} label"))
        if is_id(key) and is_id(ik) and key[1] and ik[1] and key[1] != ik[1]:
            self.add_violation(KViolation("K5", node, mk, ik, f"`{text}`: a dict keyed by {key[1]} labels is looked up with a {ik[1]} label"))

    def func_call(self, e, name, args, kws, env):
        a0 = args[0] if args else None
        kwnode = {k.arg: k.value for k in e.keywords if k.arg}
        if name == "range":
            return seq(POS)
        if name == "len":
            return NUM
        if name == "enumerate" and e.args:
            return seq(tup(POS, self.iter_elem(e.args[0], a0, env)))
        if name == "zip":
            for i, k in enumerate(args):
                if k is not None and ((k[0] == "view" and k[2] == "perm") or (k[0] == "net" and k[1] == "perm")):
                    self.res.perm_pairs.append((e, i))
                elif i < len(e.args):
                    # a container built by iterating the view of a perm network (`vc = {n: [] for n in H.nodes}`) lists
                    # the labels in view order too
                    from .rules.common import _order_source

                    if not hasattr(self, "_local_defs"):
                        self._local_defs = {}
                        for stn in ast.walk(self.fn.node):
                            if isinstance(stn, ast.Assign) and len(stn.targets) == 1 and isinstance(stn.targets[0], ast.Name):
                                self._local_defs.setdefault(stn.targets[0].id, []).append(stn.value)
                    src = _order_source(e.args[i], self._local_defs)
                    if src is not None and src[0] == "view":
                        nk = env.get(src[1])
                        if nk is not None and nk[0] == "net" and nk[1] == "perm":
                            self.res.perm_pairs.append((e, i))
            return seq(tup(*[self.iter_elem(x, k, env) for x, k in zip(e.args, args)]))
        if name in ("list", "tuple", "sorted", "reversed") and e.args:
            if name == "sorted":
                ek = self.iter_elem(e.args[0], a0, env)
                if is_id(ek):
                    self.res.order_uses.append((e, "sorted() of labels"))
            return seq(self.iter_elem(e.args[0], a0, env))
        if name in ("set", "frozenset"):
            return st(self.iter_elem(e.args[0], a0, env)) if e.args else st(None)
        if name == "dict":
            if e.args:
                if a0 is not None and a0[0] == "map":
                    return a0
                ek = self.iter_elem(e.args[0], a0, env)
                if ek is not None and ek[0] == "tup" and len(ek[1]) == 2:
                    return mp(ek[1][0], ek[1][1])
                return mp(None, None)
            return mp(None, None)
        if name in ("defaultdict", "OrderedDict", "Counter"):
            return mp(None, None)
        if name in ("min", "max") and e.args:
            ek = self.iter_elem(e.args[0], a0, env) if len(e.args) == 1 else join(a0, args[1])
            if is_id(ek) and "key" not in kwnode:
                self.res.order_uses.append((e, f"{name}() of labels"))
            return ek
        if name in ("sum", "abs", "round", "int", "float"):
            return NUM if name != "int" else (a0 if a0 in (POS,) else NUM)
        if name in ("next", "iter"):
            return self.iter_elem(e.args[0], a0, env) if name == "next" and e.args else a0
        if name in ("deepcopy", "copy") and e.args:
            return a0
        # numpy / scipy
        if name in ("zeros", "ones", "empty", "eye", "identity", "full", "zeros_like", "ones_like", "diag", "csr_array", "csc_array", "coo_array", "lil_array", "csr_matrix", "coo_matrix", "lil_matrix", "dot", "matmul", "transpose", "outer", "kron", "linspace", "column_stack", "vstack", "hstack", "sqrt", "exp", "log", "cos", "sin", "diags", "inv", "pinv", "eigh", "eig", "eigsh", "eigs", "power", "multiply"):
            if name in ("zeros", "ones", "empty", "full", "linspace") and e.args and not isinstance(e.args[0], (ast.Tuple, ast.List)):
                return seq(NUM)
            return MAT
        if name in ("array", "asarray"):
            return a0 if a0 is not None and a0[0] == "seq" else MAT
        if name in ("arange",):
            return seq(POS)
        if name in ("argsort",):
            return seq(POS)
        if name in ("argmax", "argmin"):
            return POS
        if name in ("where", "nonzero", "flatnonzero"):
            return tup(seq(POS), seq(POS)) if name != "flatnonzero" else seq(POS)
        if name in ("unique",):
            return a0
        if name == "product" and e.args:
            if any(isinstance(a, ast.Starred) for a in e.args):
                inner = elem_of(a0)  # each unpacked argument is one factor
                return seq(seq(elem_of(inner)))
            return seq(tup(*[self.iter_elem(x, k, env) for x, k in zip(e.args, args)]))
        if name in ("combinations", "permutations", "combinations_with_replacement") and e.args:
            return seq(seq(elem_of(a0)))
        # xgi API
        api = self.api_call(e, name, args, kws, kwnode, env)
        if api is not NotImplemented:
            return api
        return None

    def api_call(self, e, name, args, kws, kwnode, env):
        a0 = args[0] if args else None
        ip = bool(a0 is not None and a0[0] == "net" and a0[1])
        nid, eid = self.idk("node", ip), self.idk("edge", ip)
        index = kwnode.get("index")
        idx_true = isinstance(index, ast.Constant) and index.value is True
        idx_unknown = index is not None and not isinstance(index, ast.Constant)
        if name == "convert_labels_to_integers":
            return ("net", True)
        if name in ("Hypergraph", "SimplicialComplex", "DiHypergraph", "empty_hypergraph", "empty_simplicial_complex", "empty_dihypergraph", "subhypergraph", "from_max_simplices", "to_hypergraph", "to_simplicial_complex", "cut_to_order", "k_skeleton", "largest_connected_hypergraph"):
            return ("net", False)
        if name == "incidence_matrix":
            if idx_true:
                return tup(MAT, mp(POS, nid), mp(POS, eid))
            return MAT if index is None or (isinstance(index, ast.Constant) and not index.value) else None
        if name in ("adjacency_matrix", "degree_matrix", "clique_motif_matrix", "adjacency_tensor", "laplacian", "multiorder_laplacian", "normalized_hypergraph_laplacian"):
            if idx_true:
                return tup(MAT, mp(POS, nid))
            return MAT if not idx_unknown else None
        if name == "intersection_profile":
            if idx_true:
                return tup(MAT, mp(POS, eid))
            return MAT if not idx_unknown else None
        if name == "boundary_matrix":
            if idx_true:
                return tup(MAT, mp(POS, None), mp(POS, None))
            return MAT if not idx_unknown else None
        if name == "hodge_laplacian":
            if idx_true:
                return tup(MAT, mp(POS, None))
            return MAT if not idx_unknown else None
        if name == "to_bipartite_graph":
            if idx_true:
                return tup(None, mp(POS, nid), mp(POS, eid))
            return None
        if name in ("connected_components",):
            return seq(st(nid))
        if name in ("largest_connected_component", "node_connected_component", "_plain_bfs"):
            return st(nid)
        if name in ("dual_dict",):
            return mp(None, None)
        # user-defined function of the package: infer its return kind with the argument kinds
        if self.engine is not None and name is not None and self.depth < 2:
            tgt = None
            if isinstance(e.func, ast.Name):
                tgt = self.repo.resolve_name(self.fn, self.fn.module, name)
            elif isinstance(e.func, ast.Attribute):
                try:
                    tgt = self.repo.resolve_dotted(self.fn, self.fn.module, e.func)
                except Exception:
                    tgt = None
            if isinstance(tgt, FunctionInfo) and tgt.module.name.startswith("xgi"):
                return self.engine.return_kind(tgt, args, kws, self.depth + 1)
        return NotImplemented


class KindEngine:
    def __init__(self, repo):
        self.repo = repo
        self.memo = {}
        self.results = {}

    def analyze(self, fn: FunctionInfo, param_kinds=None, depth=0):
        key = (fn.fq, tuple(sorted((param_kinds or {}).items(), key=lambda kv: kv[0])))
        if key in self.results:
            return self.results[key]
        self.results[key] = KResult()
        ka = KindAnalysis(self.repo, fn, param_kinds, self, depth)
        r = ka.run()
        self.results[key] = r
        return r

    def return_kind(self, fn, args, kws, depth):
        params = fn.all_params
        pk = {}
        for i, k in enumerate(args):
            if i < len(params) and k is not None and k[0] in ("net", "view", "map", "seq", "set", "id", "pos", "idpos"):
                pk[params[i]] = k
        for n, k in kws.items():
            if n in params and k is not None:
                pk[n] = k
        r = self.analyze(fn, pk, depth)
        out = None
        for i, k in enumerate(r.returns):
            out = k if i == 0 else join(out, k)
        return out
