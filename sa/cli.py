"""Command line driver: ./check <ID> [--tier quick|thorough] [--repo DIR] [--only QUALNAME]

exit 0  the decided clause holds on everything analysed (KNOWN-FINDING lines may be printed)
exit 1  VIOLATION property=<id> replay=<path>
exit 2  ANALYSIS-ERROR: the analysis could not be carried out (never a verdict about xgi)
"""
from __future__ import annotations

import argparse
import importlib
import os
import sys
import time
import traceback

from . import report
from .model import AnalysisError, Repo

RULE_MODULES = {
    "C01": "sa.rules.c01_incidence",
    "C02": "sa.rules.c02_diincidence",
    "C03": "sa.rules.c03_simplicial",
    "C04": "sa.rules.c04_uid",
    "C05": "sa.rules.c05_edits",
    "C06": "sa.rules.c06_views",
    "C07": "sa.rules.c07_copies",
    "C08": "sa.rules.c08_purity",
    "C09": "sa.rules.c09_labels",
    "C10": "sa.rules.c10_convert",
    "C11": "sa.rules.c11_readwrite",
    "C12": "sa.rules.c12_matrices",
    "C13": "sa.rules.c13_boundary",
    "C16": "sa.rules.c16_generators",
    "C17": "sa.rules.c17_seed",
    "C18": "sa.rules.c18_frozen",
    "C19": "sa.rules.c19_derived",
    "C20": "sa.rules.c20_drawing",
}


class Ctx:
    def __init__(self, repo, tier, only, seed):
        self.repo = repo
        self.tier = tier
        self.only = only
        self.seed = seed
        self.thorough = tier == "thorough"


def run_check(prop, repo_root, tier="quick", only=None, seed=0, quiet=False, evidence_path=None, write=True):
    """Returns (exit_code, result, violations, known_seen, lines)."""
    t0 = time.time()
    lines = []
    repo = Repo(repo_root)
    mod = importlib.import_module(RULE_MODULES[prop])
    ctx = Ctx(repo, tier, only, seed)
    result = mod.run(ctx)
    known = report.load_known()
    violations, known_seen = [], []
    for f in result.findings:
        k = report.match_known(f, known)
        if k is not None:
            known_seen.append({"key": list(f.key()), "what": k.get("what", f.message)})
            lines.append(f"KNOWN-FINDING: property={prop} {f.rule} {f.function} `{f.statement}` {k.get('what', f.message)}")
        else:
            violations.append(f)
    # floors: a rule that stopped matching is an analysis error, never a silent pass
    floor_errors = [(n, c, fl) for (n, c, fl) in result.floors if c < fl]
    status = "ok"
    code = 0
    if violations:
        code = 1
        status = "violation"
        for f in violations:
            rp = report.write_replay(f, repo.root) if write else "<not-written>"
            lines.append(f"{f.file}:{f.line}:{f.col}: [{f.rule}] {f.function}: {f.message}")
            if f.path:
                lines.append("    witness: " + " -> ".join(str(p) for p in f.path))
            lines.append(f"VIOLATION property={prop} replay={rp}")
        for r in getattr(result, "refusals", None) or []:
            lines.append(f"NOTE property={prop} not analysed: {r}")
    elif getattr(result, "refusals", None):
        code = 2
        status = "analysis-error"
        for r in result.refusals:
            lines.append(f"ANALYSIS-ERROR property={prop} {r}")
    elif floor_errors and not only:
        code = 2
        status = "analysis-error"
        for n, c, fl in floor_errors:
            lines.append(f"ANALYSIS-ERROR property={prop} instance count for {n} fell to {c}, below its floor {fl}: the rule no longer matches the code it was confirmed on")
    wall = time.time() - t0
    if write:
        report.write_evidence(result, tier, seed, wall, violations, known_seen, repo, status, evidence_path)
    summary = (
        f"[{prop}] tier={tier} files={len(repo.modules)} rules={len(result.rules)} instances={result.evaluations} "
        f"distinct={len(result.instances)} obligations={result.obligations} discharged={result.discharged} "
        f"violations={len(violations)} known={len(known_seen)} wall={wall:.2f}s"
    )
    lines.append(summary)
    return code, result, violations, known_seen, lines


def main(argv=None):
    ap = argparse.ArgumentParser(prog="check")
    ap.add_argument("prop")
    ap.add_argument("--tier", default=os.environ.get("VERIF_TIER", "quick"), choices=["quick", "thorough"])
    ap.add_argument("--repo", default="/repo")
    ap.add_argument("--only", default=None)
    ap.add_argument("--replay", default=None, help="replay file: re-run the rule on the function it names")
    ap.add_argument("--no-selftest", action="store_true")
    args = ap.parse_args(argv)
    prop = args.prop.upper()
    try:
        seed = int(os.environ.get("VERIF_SEED", "0"))
    except ValueError:
        seed = 0
    if prop not in RULE_MODULES:
        print(f"ANALYSIS-ERROR property={prop} is not claimed by this framework (see MANIFEST.json not_applicable)")
        return 2
    only = args.only
    if args.replay:
        import json

        try:
            only = json.load(open(args.replay))["function"].split(":")[-1]
        except Exception as e:
            print(f"ANALYSIS-ERROR cannot read replay file: {e}")
            return 2
    try:
        code, result, violations, known_seen, lines = run_check(prop, args.repo, args.tier, only, seed)
        for ln in lines:
            print(ln)
        if args.tier == "thorough" and not args.no_selftest and not only:
            from .selftest import driver

            st_code, st_lines = driver.run_selftest(prop, args.repo, seed)
            for ln in st_lines:
                print(ln)
            if code == 0 and st_code != 0:
                code = 2
        return code
    except AnalysisError as e:
        print(f"ANALYSIS-ERROR property={prop} {e}")
        return 2
    except Exception:
        tb = traceback.format_exc()
        print(f"ANALYSIS-ERROR property={prop} internal error in the checker (not a verdict about xgi):")
        print(tb)
        return 2


if __name__ == "__main__":
    sys.exit(main())
