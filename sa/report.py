"""Findings, known-findings matching, evidence files and exit codes shared by all checks."""
from __future__ import annotations

import ast
import hashlib
import json
import os
import time
from dataclasses import dataclass, field, asdict

from .model import norm_stmt

VERIF = os.path.dirname(os.path.dirname(os.path.abspath(__file__)))
EVIDENCE_DIR = os.path.join(VERIF, "evidence")
REPLAY_DIR = os.path.join(EVIDENCE_DIR, "replay")
KNOWN_FILE = os.path.join(VERIF, "known_findings.json")


@dataclass
class Finding:
    prop: str
    rule: str
    function: str  # qualified: module:qualname
    file: str
    line: int
    statement: str  # normalised statement text
    message: str
    role: str = ""
    path: list = field(default_factory=list)  # witness: call chain or CFG path description
    col: int = 0

    def key(self):
        return (self.prop, self.rule, self.function, self.statement, self.role)

    def key_id(self):
        return hashlib.sha1("|".join(self.key()).encode()).hexdigest()[:12]


def mk_finding(prop, rule, fn, node, message, role="", path=None):
    """fn: FunctionInfo or None; node: ast node locating the construct."""
    if fn is not None:
        function = fn.fq
        file = fn.file
    else:
        function = "<module>"
        file = "?"
    line = getattr(node, "lineno", 0) if node is not None else 0
    col = getattr(node, "col_offset", 0) if node is not None else 0
    st = norm_stmt(node) if node is not None else ""
    return Finding(prop, rule, function, file, line, st, message, role, list(path or []), col)


class Result:
    """What a rule module returns to the CLI."""

    def __init__(self, prop):
        self.prop = prop
        self.findings: list[Finding] = []
        self.info: list[dict] = []  # information-only diagnostics (never violations)
        self.counters: dict = {}
        self.samples: list = []
        self.rules: list[str] = []
        self.obligations = 0
        self.discharged = 0
        self.assumptions: list[str] = []
        self.floors: list[tuple] = []  # (name, count, floor)
        self.explanation = ""
        self.extra: dict = {}
        self.evaluations = 0
        self.instances: set = set()
        self.refusals: list[str] = []  # parts of the analysis that could not be carried out (exit 2 unless a violation was found elsewhere)

    def inst(self, rule, construct, ok=True, sample=None):
        """Record one rule instance: `rule` applied to `construct` (a short string naming a
        function, statement, call site or path). ok = the obligation it opened was discharged."""
        self.evaluations += 1
        self.instances.add((rule, construct))
        self.obligations += 1
        if ok:
            self.discharged += 1
        self.counters[rule] = self.counters.get(rule, 0) + 1
        if sample is not None:
            self.sample(sample)
        elif len(self.samples) < 12 and all(not (isinstance(x, dict) and x.get("rule") == rule) for x in self.samples):
            self.samples.append({"rule": rule, "construct": construct, "holds": bool(ok)})

    def count(self, name, n=1):
        self.counters[name] = self.counters.get(name, 0) + n

    def floor(self, name, count, floor):
        self.floors.append((name, count, floor))
        self.counters[name] = count

    def add(self, finding: Finding):
        # de-duplicate by key
        if all(f.key() != finding.key() for f in self.findings):
            self.findings.append(finding)

    def oblige(self, ok: bool, n=1):
        self.obligations += n
        if ok:
            self.discharged += n

    def sample(self, s, limit=12):
        if len(self.samples) < limit:
            self.samples.append(s)


def load_known():
    if not os.path.exists(KNOWN_FILE):
        return {"known": [], "fixed": []}
    with open(KNOWN_FILE) as f:
        return json.load(f)


def match_known(finding: Finding, known):
    for k in known.get("known", []):
        if (
            k.get("property") == finding.prop
            and k.get("rule") == finding.rule
            and k.get("function") == finding.function
            and k.get("statement") == finding.statement
            and k.get("role", "") == finding.role
        ):
            return k
    return None


def write_replay(finding: Finding, repo_root):
    os.makedirs(REPLAY_DIR, exist_ok=True)
    path = os.path.join(REPLAY_DIR, f"{finding.prop}_{finding.rule}_{finding.key_id()}.json")
    data = asdict(finding)
    data["repo"] = repo_root
    data["rerun"] = f"./check {finding.prop} --only {finding.function.split(':')[-1]}"
    with open(path, "w") as f:
        json.dump(data, f, indent=1)
    return path


def write_evidence(result: Result, tier, seed, wall_s, violations, known_seen, repo, status, evidence_path=None):
    os.makedirs(EVIDENCE_DIR, exist_ok=True)
    cov = {
        "explanation": result.explanation,
        "evaluations": int(result.evaluations),
        "distinct_nontrivial": len(result.instances),
        "rule": result.extra.get(
            "rule_text",
            "each evaluation is one rule instance (a construct of the current source tree the rule was applied to); "
            "distinct = distinct (rule, construct) pairs; non-trivial = the construct matched the rule's precondition",
        ),
        "samples": result.samples or ["<none>"],
        "obligations": int(result.obligations),
        "discharged": int(result.discharged),
        "rules_applied": result.rules,
        "counters": result.counters,
        "floors": [{"name": n, "count": c, "floor": f} for n, c, f in result.floors],
        "information": result.info[:60],
        "known_findings_seen": known_seen,
        "violations_detail": [asdict(f) for f in violations][:40],
        "analysed_tree": repo.root,
        "tree_digest": repo.digest(),
        "files_parsed": len(repo.modules),
        "status": status,
        "exhaustive": True,
    }
    cov.update({k: v for k, v in result.extra.items() if k not in ("rule_text", "distinct_nontrivial")})
    ev = {
        "property_id": result.prop,
        "tier": tier,
        "seed": int(seed),
        "level": "other",
        "coverage": cov,
        "assumptions": result.assumptions
        + [
            "CPython 3.12 ast of the files under <repo>/xgi is the program that runs; no exec/eval/monkey-patching rebinds analysed functions",
            "third-party callees behave as listed in sa/thirdparty.py and do not mutate xgi objects handed to them",
            "asynchronous exceptions, MemoryError and user-defined __hash__/__eq__/__iter__ that raise or lie are out of scope",
        ],
        "wall_s": round(wall_s, 3),
        "violations": len(violations),
    }
    path = evidence_path or os.path.join(EVIDENCE_DIR, f"{result.prop}.json")
    with open(path, "w") as f:
        json.dump(ev, f, indent=1, default=str)
    return path
