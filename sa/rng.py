"""Random-number-family analysis.

Families: PY (the global generator of the `random` module), NPG (numpy's legacy global generator),
GEN:<var> (a generator object bound to a local), ARPACK (start vectors of eigsh/eigs/svds/lobpcg),
UNSEEDED (a generator constructed without a seed). For every function we compute the draws that are
*free*, i.e. not covered by a seeding from the function's own ``seed`` parameter that dominates them,
transitively through resolved callees. A public function with a ``seed`` parameter is deterministic
in its seed iff it has no free draw.
"""
from __future__ import annotations

import ast
from dataclasses import dataclass, field

from . import thirdparty as TP
from .cfg import CFG, ENTRY, EXIT, own_statements
from .model import CORE_CLASSES, ClassInfo, External, FunctionInfo, ModuleInfo, Repo


@dataclass(frozen=True)
class Draw:
    family: str
    fn: str  # qualified function performing the draw
    line: int
    text: str
    via: tuple = ()  # call chain from the analysed function

    def describe(self):
        chain = " -> ".join(f"{c[0]}:{c[1]}" for c in self.via)
        return f"{self.family} draw `{self.text}` at {self.fn}:{self.line}" + (f" via {chain}" if chain else "")


@dataclass
class RngSummary:
    free: set = field(default_factory=set)  # Draw not covered by own seeding
    covered: set = field(default_factory=set)  # Draw covered by own seed parameter (needs the caller to pass a seed)
    seed_param: str | None = None
    guards: list = field(default_factory=list)  # (if-node, ok: bool, text)
    seeds: list = field(default_factory=list)  # (family, stmt)
    draw_sites: int = 0
    notes: list = field(default_factory=list)
    seeds_on_exit: set = field(default_factory=set)  # families seeded from the seed parameter on every path to the exit


def _unparse(n, k=80):
    try:
        return " ".join(ast.unparse(n).split())[:k]
    except Exception:
        return type(n).__name__


class RngAnalysis:
    def __init__(self, repo: Repo):
        self.repo = repo
        self.memo = {}
        self.in_progress = set()
        self.method_index = {}
        for cname in CORE_CLASSES + ("IDView", "NodeView", "EdgeView", "DiNodeView", "DiEdgeView"):
            ci = repo.find_class(cname)
            if ci is None:
                continue
            for m, f in repo.all_methods(ci).items():
                self.method_index.setdefault(m, set()).add(f)

    # ------------------------------------------------------------------
    def summarize(self, fn: FunctionInfo) -> RngSummary:
        if fn.fq in self.memo:
            return self.memo[fn.fq]
        if fn.fq in self.in_progress:
            return RngSummary()
        self.in_progress.add(fn.fq)
        try:
            s = self._analyze(fn)
        finally:
            self.in_progress.discard(fn.fq)
        self.memo[fn.fq] = s
        return s

    # ------------------------------------------------------------------
    def _seed_tainted(self, fn: FunctionInfo, seedname):
        """Names whose value derives from the seed parameter (flow-insensitive closure)."""
        tainted = {seedname}
        changed = True
        stmts = own_statements(fn.node)
        while changed:
            changed = False
            for st in stmts:
                if isinstance(st, ast.Assign):
                    names = {n.id for n in ast.walk(st.value) if isinstance(n, ast.Name)}
                    if names & tainted:
                        for t in st.targets:
                            for n in ast.walk(t):
                                if isinstance(n, ast.Name) and n.id not in tainted:
                                    tainted.add(n.id)
                                    changed = True
        return tainted

    def _mentions(self, expr, names):
        return any(isinstance(n, ast.Name) and n.id in names for n in ast.walk(expr))

    def _analyze(self, fn: FunctionInfo) -> RngSummary:
        summ = RngSummary()
        params = fn.all_params
        seedname = "seed" if "seed" in params else None
        summ.seed_param = seedname
        tainted = self._seed_tainted(fn, seedname) if seedname else set()
        cfg = CFG(fn.node)
        stmts = own_statements(fn.node)
        gens = {}  # local name -> seeded? (generator objects)
        # pass 1: generator objects and seeding statements
        seeding = {}  # family -> list of stmt nodes (statement or guarding If) that seed it
        parent_if = {}
        for st in stmts:
            if isinstance(st, ast.If):
                for sub in st.body:
                    parent_if[sub] = (st, "T")
                for sub in st.orelse:
                    parent_if[sub] = (st, "F")
        gen_defs = {}  # local name -> [(assignment, kind)]; kind: seeded | unseeded | module:NPG | module:PY | seedobj | other
        for st in stmts:
            if isinstance(st, ast.Assign):
                kind = self._gen_kind(fn, st.value, tainted, seedname)
                for t in st.targets:
                    if isinstance(t, ast.Name):
                        gen_defs.setdefault(t.id, []).append((st, kind))
        gen_defs = {k: v for k, v in gen_defs.items() if any(kd != "other" for _, kd in v)}
        for k, v in gen_defs.items():
            gens[k] = all(kd in ("seeded", "seedobj") for _, kd in v)
        self._gen_ctxs = getattr(self, '_gen_ctxs', {})
        self._gen_ctxs[fn.fq] = (fn, cfg, gen_defs, seedname)
        for st in stmts:
            if isinstance(st, ast.Expr) and isinstance(st.value, ast.Call):
                tgt = self._resolve(fn, st.value.func)
                fam = None
                if isinstance(tgt, External) and tgt.path == "random.seed":
                    fam = "PY"
                elif isinstance(tgt, External) and tgt.path == "numpy.random.seed":
                    fam = "NPG"
                if fam and seedname and st.value.args and self._mentions(st.value.args[0], tainted) or (fam and seedname and any(kw.value is not None and self._mentions(kw.value, tainted) for kw in st.value.keywords)):
                    anchor = st
                    g = parent_if.get(st)
                    if g is not None and self._mentions(g[0].test, {seedname}):
                        ifn, branch = g
                        ok = self._guard_ok(ifn.test, seedname, branch)
                        summ.guards.append((ifn, ok, _unparse(ifn.test)))
                    seeding.setdefault(fam, []).append(anchor)
                    summ.seeds.append((fam, st))
                elif isinstance(tgt, FunctionInfo) and tgt.fq != fn.fq and seedname:
                    # a seeding helper: `_seed(seed)` whose every path seeds the family from its own seed parameter
                    cs = self.summarize(tgt)
                    if cs.seeds_on_exit and cs.seed_param:
                        pos = tgt.all_params.index(cs.seed_param) - (1 if tgt.cls is not None else 0)
                        if self._call_passes_seed(st.value, cs.seed_param, pos, tainted):
                            for fam2 in cs.seeds_on_exit:
                                seeding.setdefault(fam2, []).append(st)
                                summ.seeds.append((fam2, st))
                            summ.guards.extend(cs.guards)
        # pass 2: draws
        for st in stmts:
            for call in self._calls_of(st):
                for d, covered_by_kw in self._draws_of_call(fn, call, tainted, gens, st):
                    summ.draw_sites += 1
                    if covered_by_kw:
                        summ.covered.add(d)
                        continue
                    fam = d.family
                    anchors = seeding.get(fam, [])
                    if anchors and self._seeded_before(cfg, st, anchors, seedname):
                        summ.covered.add(d)
                    else:
                        if anchors:
                            summ.notes.append(f"{fam} is seeded in {fn.qualname} but the seeding does not dominate the draw at line {d.line}")
                        summ.free.add(d)
        for fam, anchors in seeding.items():
            if self._seeded_before(cfg, EXIT, anchors, seedname):
                summ.seeds_on_exit.add(fam)
        return summ

    def _seeded_before(self, cfg, node, anchors, seedname):
        """Every path from the entry to `node` on which nothing says `seed is None` passes a seeding statement.
        (Edges that imply seed is None - the else edge of `if seed is not None`, the true edge of `if seed is None`,
        also written `not (seed is None)` - are the paths on which there is nothing to seed from.)"""
        def edge_ok(a, b, lab):
            return not (isinstance(a, ast.If) and seedname and lab in ("T", "F") and self._none_test(a.test, seedname) == lab)

        return node not in cfg.reachable(ENTRY, avoid=lambda n: n is not node and any(n is x for x in anchors), edge_ok=edge_ok)

    def _guard_ok(self, test, seedname, branch):
        """`seed is not None` guarding the true branch (or `seed is None` guarding the else branch)."""
        nt = self._none_test(test, seedname)
        if nt is not None:
            return (nt == "F" and branch == "T") or (nt == "T" and branch == "F")
        if isinstance(test, ast.Compare) and len(test.ops) == 1 and isinstance(test.left, ast.Name) and test.left.id == seedname:
            c = test.comparators[0]
            if isinstance(c, ast.Constant) and c.value is None:
                if isinstance(test.ops[0], (ast.IsNot, ast.NotEq)) and branch == "T":
                    return True
                if isinstance(test.ops[0], (ast.Is, ast.Eq)) and branch == "F":
                    return True
        return False

    def _calls_of(self, st):
        out = []
        skip = {"body", "orelse", "finalbody", "handlers", "cases"}

        def rec(n):
            for name, val in ast.iter_fields(n):
                if isinstance(n, ast.stmt) and name in skip:
                    continue
                vals = val if isinstance(val, list) else [val]
                for v in vals:
                    if isinstance(v, ast.AST):
                        if isinstance(v, ast.Call):
                            out.append(v)
                        rec(v)

        rec(st)
        return out

    def _resolve(self, fn, func):
        try:
            return self.repo.resolve_dotted(fn, fn.module, func)
        except Exception:
            return None

    def _call_passes_seed(self, call: ast.Call, kw, pos, tainted):
        for k in call.keywords:
            if k.arg == kw and self._mentions(k.value, tainted):
                return True
            if k.arg is None and self._mentions(k.value, tainted):
                return True
        if pos is not None and len(call.args) > pos and self._mentions(call.args[pos], tainted):
            return True
        return False

    def _gen_kind(self, fn, value, tainted, seedname):
        """What a local name bound to `value` is, as a source of random numbers."""
        if isinstance(value, ast.Call):
            tgt = self._resolve(fn, value.func)
            if isinstance(tgt, External) and tgt.path in TP.GENERATOR_CTORS:
                return "seeded" if self._call_passes_seed(value, TP.GENERATOR_CTORS[tgt.path], 0, tainted) else "unseeded"
            return "other"
        if isinstance(value, (ast.Name, ast.Attribute)):
            if isinstance(value, ast.Name) and seedname and value.id == seedname:
                return "seedobj"
            tgt = self._resolve(fn, value)
            path = getattr(tgt, "path", None) if isinstance(tgt, External) else None
            if path and path.startswith("random.") and path.count(".") == 1 and path.split(".")[1] not in TP.PY_RANDOM_NON_DRAW and path != "random.seed":
                return "fn:PY"
            if path and path.startswith("numpy.random.") and path.count(".") == 2 and path.split(".")[2] not in TP.NP_RANDOM_NON_DRAW and path.split(".")[2] not in ("seed", "mtrand"):
                return "fn:NPG"
            if path is None and isinstance(tgt, ModuleInfo):
                path = tgt.name
            if path in ("numpy.random", "numpy.random.mtrand", "numpy.random.mtrand._rand"):
                return "module:NPG"
            if path == "random":
                return "module:PY"
            return "other"
        if isinstance(value, ast.IfExp):
            a, b = self._gen_kind(fn, value.body, tainted, seedname), self._gen_kind(fn, value.orelse, tainted, seedname)
            none_side = self._none_test(value.test, seedname)  # 'T': body taken when seed is None; 'F': orelse taken then
            good = ("seeded", "seedobj")
            if none_side == "T" and b in good and a != "other":
                return "seeded"
            if none_side == "F" and a in good and b != "other":
                return "seeded"
            if a in good and b in good:
                return "seeded"
            for k in (a, b):
                if k not in good and k != "other":
                    return k
            return "other"
        return "other"

    @staticmethod
    def _none_test(test, seedname):
        """'T' when the test being true means `seed is None`, 'F' when it being false means that, else None."""
        if isinstance(test, ast.UnaryOp) and isinstance(test.op, ast.Not):
            inner = RngAnalysis._none_test(test.operand, seedname)
            return {"T": "F", "F": "T"}.get(inner)
        if isinstance(test, ast.Compare) and len(test.ops) == 1 and isinstance(test.left, ast.Name) and test.left.id == seedname and isinstance(test.comparators[0], ast.Constant) and test.comparators[0].value is None:
            if isinstance(test.ops[0], (ast.Is, ast.Eq)):
                return "T"
            if isinstance(test.ops[0], (ast.IsNot, ast.NotEq)):
                return "F"
        return None

    def _harmful_defs(self, name, st, ctx):
        """Bindings of generator name `name` that are not derived from the seed and can reach statement `st` along a path
        on which nothing says `seed is None` (the guard that legitimately selects the unseeded source)."""
        fn, cfg, gen_defs, seedname = ctx
        defs = gen_defs.get(name, [])
        def_nodes = [d for d, _ in defs]

        def edge_ok(a, b, lab):
            if isinstance(a, ast.If) and seedname and lab in ("T", "F") and self._none_test(a.test, seedname) == lab:
                return False
            return True

        live = cfg.reachable(ENTRY, edge_ok=edge_ok)
        out = []
        for d, kind in defs:
            if kind in ("seeded", "seedobj"):
                continue
            if d not in live:
                continue
            if d is st or st in cfg.reachable(d, avoid=lambda n: any(n is x for x in def_nodes) and n is not st, edge_ok=edge_ok):
                out.append((d, kind))
        return out

    def _draws_of_call(self, fn, call, tainted, gens, st=None):
        """Yields (Draw, covered_by_keyword)."""
        f = call.func
        out = []
        site = (fn.qualname, call.lineno)
        # a local alias of a draw function: draw = random.random; draw()
        if isinstance(f, ast.Name) and f.id in gens:
            ctx = getattr(self, '_gen_ctxs', {}).get(fn.fq)
            kinds = {kd for _, kd in (ctx[2].get(f.id, []) if ctx else [])}
            fams = sorted(kd.split(":")[1] for kd in kinds if kd.startswith("fn:"))
            if fams:
                return [(Draw(fam, fn.fq, call.lineno, _unparse(call)), False) for fam in fams]
        # generator object methods: rng.choice(...)
        if isinstance(f, ast.Attribute) and isinstance(f.value, ast.Name) and f.value.id in gens:
            name = f.value.id
            ctx = getattr(self, '_gen_ctxs', {}).get(fn.fq)
            harmful = self._harmful_defs(name, st, ctx) if st is not None and ctx is not None else [(None, "unseeded")] * (0 if gens[name] else 1)
            if not harmful:
                out.append((Draw("GEN", fn.fq, call.lineno, _unparse(call)), True))
                return out
            for d, kind in harmful:
                where = f" (bound at line {d.lineno}: `{_unparse(d, 60)}`; the bindings derived from the seed do not cover every seed that is not None)" if d is not None else ""
                if kind.startswith("module:"):
                    out.append((Draw(kind.split(":")[1], fn.fq, call.lineno, _unparse(call) + where), False))
                else:
                    out.append((Draw("UNSEEDED", fn.fq, call.lineno, _unparse(call) + where), False))
            return out
        # inline default_rng(seed).random(...)
        if isinstance(f, ast.Attribute) and isinstance(f.value, ast.Call):
            t2 = self._resolve(fn, f.value.func)
            if isinstance(t2, External) and t2.path in TP.GENERATOR_CTORS:
                seeded = self._call_passes_seed(f.value, TP.GENERATOR_CTORS[t2.path], 0, tainted)
                out.append((Draw("GEN" if seeded else "UNSEEDED", fn.fq, call.lineno, _unparse(call)), seeded))
                return out
        tgt = self._resolve(fn, f)
        if isinstance(tgt, External):
            p = tgt.path
            if p.startswith("random.") and p.count(".") == 1 and p.split(".")[1] not in TP.PY_RANDOM_NON_DRAW:
                out.append((Draw("PY", fn.fq, call.lineno, _unparse(call)), False))
            elif p.startswith("numpy.random.") and p.split(".")[2] not in TP.NP_RANDOM_NON_DRAW:
                out.append((Draw("NPG", fn.fq, call.lineno, _unparse(call)), False))
            else:
                ext = TP.ext_stochastic(p)
                if ext is not None:
                    kw, fam = ext
                    covered = self._call_passes_seed(call, kw, TP.EXT_SEED_POS.get(p.split(".")[-1]), tainted)
                    out.append((Draw(fam, fn.fq, call.lineno, _unparse(call)), covered))
            return out
        callees = []
        if isinstance(tgt, FunctionInfo):
            callees = [tgt]
        elif isinstance(tgt, ClassInfo):
            init = self.repo.find_method(tgt, "__init__")
            callees = [init] if init is not None else []
        elif tgt is None and isinstance(f, ast.Attribute):
            # method call on an object: resolve by name over the core and view classes
            callees = sorted(self.method_index.get(f.attr, ()), key=lambda x: x.fq)
        for c in callees:
            cs = self.summarize(c)
            for d in cs.free:
                out.append((Draw(d.family, d.fn, d.line, d.text, (site,) + d.via), False))
            if cs.covered:
                passes = False
                if cs.seed_param:
                    # is the callee's seed parameter given a seed-derived value?
                    names = c.all_params
                    pos = names.index(cs.seed_param) if cs.seed_param in names else None
                    if c.cls is not None and pos is not None and isinstance(f, ast.Attribute):
                        pos -= 1
                    a = c.node.args
                    npos = len(a.posonlyargs) + len(a.args)
                    if pos is not None and pos >= npos - (1 if (c.cls is not None and isinstance(f, ast.Attribute)) else 0):
                        pos = None
                    passes = self._call_passes_seed(call, cs.seed_param, pos, tainted)
                for d in cs.covered:
                    fam = d.family if d.family != "GEN" else ("GEN" if passes else "UNSEEDED")
                    out.append((Draw(fam, d.fn, d.line, d.text, (site,) + d.via), passes))
        return out
