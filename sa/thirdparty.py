"""Explicit tables of third-party facts the analyses rely on (the trusted base; printed in the evidence).

Nothing here is derived from /repo; these are documented behaviours of the standard library, numpy,
scipy and networkx at the versions pinned in /venv.
"""
import re

# ---------------------------------------------------------------- random number generation
# attributes of the `random` module that do NOT draw from the global generator
PY_RANDOM_NON_DRAW = {"seed", "getstate", "setstate", "Random", "SystemRandom"}
# attributes of `numpy.random` that do NOT draw from the legacy global generator
NP_RANDOM_NON_DRAW = {"seed", "get_state", "set_state", "default_rng", "RandomState", "Generator", "SeedSequence", "PCG64", "MT19937", "BitGenerator", "Philox", "SFC64"}
# constructors of generator objects: (path) -> keyword/position of the seed
GENERATOR_CTORS = {"numpy.random.default_rng": "seed", "numpy.random.RandomState": "seed", "random.Random": "x", "numpy.random.Generator": "bit_generator"}

# third-party stochastic callables: name -> (keyword that carries the seed / start vector, family drawn from when it is absent)
#   networkx @np_random_state functions fall back to numpy's global RandomState, @py_random_state ones to `random`.
EXT_STOCHASTIC = {
    "networkx.spring_layout": ("seed", "NPG"),
    "networkx.fruchterman_reingold_layout": ("seed", "NPG"),
    "networkx.random_layout": ("seed", "NPG"),
    "networkx.arf_layout": ("seed", "NPG"),
    "networkx.forceatlas2_layout": ("seed", "NPG"),
    "networkx.fast_gnp_random_graph": ("seed", "PY"),
    "networkx.gnp_random_graph": ("seed", "PY"),
    "networkx.erdos_renyi_graph": ("seed", "PY"),
    "networkx.binomial_graph": ("seed", "PY"),
    "networkx.gnm_random_graph": ("seed", "PY"),
    "networkx.dense_gnm_random_graph": ("seed", "PY"),
    "networkx.watts_strogatz_graph": ("seed", "PY"),
    "networkx.newman_watts_strogatz_graph": ("seed", "PY"),
    "networkx.connected_watts_strogatz_graph": ("seed", "PY"),
    "networkx.random_regular_graph": ("seed", "PY"),
    "networkx.barabasi_albert_graph": ("seed", "PY"),
    "networkx.powerlaw_cluster_graph": ("seed", "PY"),
    "networkx.random_geometric_graph": ("seed", "PY"),
    "networkx.configuration_model": ("seed", "PY"),
    "networkx.stochastic_block_model": ("seed", "PY"),
    "networkx.double_edge_swap": ("seed", "PY"),
    "networkx.random_reference": ("seed", "PY"),
    # ARPACK / LOBPCG start vectors: without v0/X the start vector comes from a generator no seed reaches
    "scipy.sparse.linalg.eigsh": ("v0", "ARPACK"),
    "scipy.sparse.linalg.eigs": ("v0", "ARPACK"),
    "scipy.sparse.linalg.svds": ("v0", "ARPACK"),
    "scipy.sparse.linalg.lobpcg": ("X", "ARPACK"),
}
# position of the seed parameter where the signature puts it early enough to be passed positionally (networkx 3.x:
# fast_gnp_random_graph(n, p, seed=None, directed=False) and its siblings)
EXT_SEED_POS = {"fast_gnp_random_graph": 2, "gnp_random_graph": 2, "erdos_renyi_graph": 2, "binomial_graph": 2, "gnm_random_graph": 2, "dense_gnm_random_graph": 2, "random_regular_graph": 2, "barabasi_albert_graph": 2, "watts_strogatz_graph": 3, "newman_watts_strogatz_graph": 3}
# sources of run-to-run variation that no seed parameter can reach: (no seed keyword, family ENTROPY)
for _p in ("os.urandom", "secrets.randbelow", "secrets.randbits", "secrets.choice", "secrets.token_bytes", "secrets.token_hex", "secrets.token_urlsafe",
           "uuid.uuid1", "uuid.uuid4", "time.time", "time.time_ns", "time.perf_counter", "time.perf_counter_ns", "time.monotonic", "time.monotonic_ns",
           "time.process_time", "datetime.datetime.now", "datetime.datetime.utcnow", "datetime.datetime.today", "datetime.date.today", "random.SystemRandom", "os.getpid"):
    EXT_STOCHASTIC[_p] = (None, "ENTROPY")
EXT_STOCHASTIC_NAME = re.compile(r"^networkx\.(.*\.)?(\w*random\w*|gn[pm]_\w*)$")
# deterministic third-party callables that merely look stochastic
EXT_DETERMINISTIC = {"networkx.kamada_kawai_layout", "networkx.spectral_layout", "networkx.circular_layout", "networkx.shell_layout", "networkx.bipartite_layout", "networkx.planar_layout"}


def ext_stochastic(path):
    if path in EXT_DETERMINISTIC:
        return None
    if path in EXT_STOCHASTIC:
        return EXT_STOCHASTIC[path]
    # networkx re-exports: networkx.generators.random_graphs.fast_gnp_random_graph, nx.drawing.layout.spring_layout ...
    tail = path.split(".")[-1]
    if path.startswith("networkx."):
        k = "networkx." + tail
        if k in EXT_DETERMINISTIC:
            return None
        if k in EXT_STOCHASTIC:
            return EXT_STOCHASTIC[k]
        if EXT_STOCHASTIC_NAME.match(k):
            return ("seed", "PY")
    if path.startswith("scipy.sparse.linalg.") or path.startswith("scipy.sparse.linalg"):
        k = "scipy.sparse.linalg." + tail
        if k in EXT_STOCHASTIC:
            return EXT_STOCHASTIC[k]
    return None


# ---------------------------------------------------------------- arrays
# numpy.loadtxt squeezes single rows/columns unless ndmin is given (documented behaviour)
RANK_MAY_DROP = {"numpy.loadtxt": "ndmin", "numpy.genfromtxt": None}
RANK_FORCERS = {"numpy.atleast_2d"}
