"""Sibling comparison of the sparse and the dense branch of a matrix builder as symbolic linear forms.

A builder with a `sparse` flag computes the same matrix twice, once with scipy.sparse and once with NumPy.  Under a fixed
valuation of its boolean flags the function is a straight line of assignments; each matrix-valued expression is
evaluated to a *linear form*: a sum of opaque matrix atoms (the result of a call that does not depend on `sparse`, with
container conversions such as np.diag / diags_array / csr_array / toarray treated as the identity) with coefficients that
are Laurent polynomials in the numeric parameters (`order`).  The two branches agree iff, for every valuation of the
other flags, the returned forms are equal.  Anything outside this fragment (loops, unknown operators) makes the function
not evaluable - no verdict, never a report.
"""
from __future__ import annotations

import ast
from fractions import Fraction

from .paths import eval3

IDENTITY_WRAPPERS = {"diag", "diags", "diags_array", "csr_array", "csr_matrix", "csc_array", "coo_array", "lil_array", "array", "asarray", "toarray", "todense", "tocsr", "tocsc", "asformat", "copy", "ravel"}


class NotEvaluable(Exception):
    pass


def _scalar(c=0, sym=None):
    """Laurent polynomial in one symbol: {power: Fraction}"""
    return {0: Fraction(c)} if sym is None else {1: Fraction(1)}


def _smul(a, b):
    out = {}
    for p, x in a.items():
        for q, y in b.items():
            out[p + q] = out.get(p + q, 0) + x * y
    return {k: v for k, v in out.items() if v != 0}


def _sadd(a, b, sign=1):
    out = dict(a)
    for q, y in b.items():
        out[q] = out.get(q, 0) + sign * y
    return {k: v for k, v in out.items() if v != 0}


def _sinv(a):
    if len(a) != 1:
        raise NotEvaluable("division by a sum")
    (p, x), = a.items()
    return {-p: 1 / x}


class Form:
    """kind 'S' (scalar: poly) or 'M' (matrix: {atom: poly})"""

    def __init__(self, kind, val):
        self.kind, self.val = kind, val

    def key(self):
        if self.kind == "S":
            return ("S", tuple(sorted(self.val.items())))
        return ("M", tuple(sorted((a, tuple(sorted(p.items()))) for a, p in self.val.items() if p)))


def evaluate(fn_node, valuation, scalar_params, flag="sparse"):
    """Returns the list of Forms returned by fn_node under `valuation` (a dict name -> bool), following only the branches
    the valuation selects.  Raises NotEvaluable outside the fragment."""
    env = {}
    for p in scalar_params:
        env[p] = Form("S", {1: Fraction(1)}) if True else None
    # one symbol only is supported exactly; several numeric parameters share the symbol only if a single one is used
    used_scalars = [p for p in scalar_params if any(isinstance(x, ast.Name) and x.id == p for x in ast.walk(fn_node))]
    if len(used_scalars) > 1:
        raise NotEvaluable("several numeric parameters")
    returns = []

    def atom_of(call):
        parts = [ast.unparse(call.func)]
        for a in call.args:
            parts.append(" ".join(ast.unparse(a).split()))
        for k in sorted(call.keywords, key=lambda k: k.arg or ""):
            if k.arg in (flag, "format", "dtype", "index"):
                continue
            parts.append(f"{k.arg}={' '.join(ast.unparse(k.value).split())}")
        return "|".join(parts)

    def ev(e):
        if isinstance(e, ast.Constant) and isinstance(e.value, (int, float)) and not isinstance(e.value, bool):
            return Form("S", {0: Fraction(e.value).limit_denominator(10**6)})
        if isinstance(e, ast.Name):
            if e.id in env:
                return env[e.id]
            raise NotEvaluable(f"unbound {e.id}")
        if isinstance(e, ast.IfExp):
            t = eval3(e.test, valuation, {})
            if t is None:
                raise NotEvaluable("undecided conditional expression")
            return ev(e.body if t else e.orelse)
        if isinstance(e, ast.UnaryOp) and isinstance(e.op, ast.USub):
            f = ev(e.operand)
            return mul(Form("S", {0: Fraction(-1)}), f)
        if isinstance(e, ast.BinOp):
            l, r = ev(e.left), ev(e.right)
            if isinstance(e.op, ast.Add):
                return add(l, r, 1)
            if isinstance(e.op, ast.Sub):
                return add(l, r, -1)
            if isinstance(e.op, ast.Mult):
                return mul(l, r)
            if isinstance(e.op, ast.Div):
                if r.kind != "S":
                    raise NotEvaluable("division by a matrix")
                return mul(Form("S", _sinv(r.val)), l)
            raise NotEvaluable("operator")
        if isinstance(e, ast.Call):
            nm = getattr(e.func, "attr", getattr(e.func, "id", None))
            if nm in IDENTITY_WRAPPERS:
                if isinstance(e.func, ast.Attribute) and not e.args and isinstance(e.func.value, (ast.Name, ast.Call, ast.Subscript, ast.BinOp)) and nm in ("toarray", "todense", "tocsr", "tocsc", "copy", "ravel", "asformat"):
                    return ev(e.func.value)
                if e.args:
                    return ev(e.args[0])
            if any(isinstance(x, ast.Name) and x.id in env and env[x.id].kind == "M" for a in e.args for x in ast.walk(a)):
                raise NotEvaluable("call on a computed matrix")
            return Form("M", {atom_of(e): {0: Fraction(1)}})
        if isinstance(e, ast.Subscript):
            base = ev(e.value)
            return base
        if isinstance(e, ast.Tuple) and e.elts:
            return ev(e.elts[0])
        raise NotEvaluable(type(e).__name__)

    def add(l, r, sign):
        if l.kind == "S" and r.kind == "S":
            return Form("S", _sadd(l.val, r.val, sign))
        if l.kind == "M" and r.kind == "M":
            out = {a: dict(p) for a, p in l.val.items()}
            for a, p in r.val.items():
                out[a] = _sadd(out.get(a, {}), p, sign)
            return Form("M", {a: p for a, p in out.items() if p})
        raise NotEvaluable("matrix plus scalar")

    def mul(l, r):
        if l.kind == "S" and r.kind == "S":
            return Form("S", _smul(l.val, r.val))
        if l.kind == "S" and r.kind == "M":
            return Form("M", {a: _smul(l.val, p) for a, p in r.val.items()})
        if l.kind == "M" and r.kind == "S":
            return mul(r, l)
        raise NotEvaluable("matrix product")

    def block(stmts):
        for st in stmts:
            if isinstance(st, ast.Expr) and isinstance(st.value, ast.Constant):
                continue
            if isinstance(st, ast.Assign):
                if len(st.targets) != 1:
                    raise NotEvaluable("multiple targets")
                t = st.targets[0]
                if isinstance(t, ast.Name):
                    env[t.id] = ev(st.value)
                elif isinstance(t, ast.Tuple) and t.elts and isinstance(t.elts[0], ast.Name):
                    env[t.elts[0].id] = ev(st.value)
                    for x in t.elts[1:]:
                        if isinstance(x, ast.Name):
                            env.pop(x.id, None)
                else:
                    raise NotEvaluable("assignment target")
                continue
            if isinstance(st, ast.AugAssign) and isinstance(st.target, ast.Name):
                cur = ev(st.target)
                r = ev(st.value)
                if isinstance(st.op, ast.Add):
                    env[st.target.id] = add(cur, r, 1)
                elif isinstance(st.op, ast.Sub):
                    env[st.target.id] = add(cur, r, -1)
                elif isinstance(st.op, ast.Mult):
                    env[st.target.id] = mul(cur, r)
                elif isinstance(st.op, ast.Div):
                    if r.kind != "S":
                        raise NotEvaluable("division by a matrix")
                    env[st.target.id] = mul(Form("S", _sinv(r.val)), cur)
                else:
                    raise NotEvaluable("augmented operator")
                continue
            if isinstance(st, ast.If):
                t = eval3(st.test, valuation, {})
                if t is None:
                    # a data-dependent guard (empty matrix ...): follow the fall-through path only if the body leaves
                    if any(isinstance(x, (ast.Return, ast.Raise)) for x in st.body) and not st.orelse:
                        continue
                    raise NotEvaluable("undecided branch")
                if block(st.body if t else st.orelse):
                    return True
                continue
            if isinstance(st, ast.Return):
                if st.value is None:
                    raise NotEvaluable("bare return")
                v = st.value
                if isinstance(v, ast.IfExp):
                    t = eval3(v.test, valuation, {})
                    if t is None:
                        raise NotEvaluable("undecided return")
                    v = v.body if t else v.orelse
                returns.append(ev(v))
                return True
            if isinstance(st, (ast.Import, ast.ImportFrom, ast.Pass)):
                continue
            raise NotEvaluable(type(st).__name__)
        return False

    block(fn_node.body)
    if not returns:
        raise NotEvaluable("no return")
    return returns
