"""Light path sensitivity on top of the statement CFG.

*Mode names* are locals/parameters that only ever hold booleans (assigned only True/False, or parameters
with a boolean default) - e.g. ``strong``, ``remove_empty``, ``in_place``, ``format1..4``. A *valuation*
fixes each of them; branch conditions are then evaluated in three-valued logic and infeasible edges are
pruned. *None-facts* (name -> is None?) additionally resolve ``x is None`` / ``x is not None`` / ``not x``
tests. Pruning only removes paths, so it can hide a violation but never invent one.
"""
from __future__ import annotations

import ast
import itertools

from .cfg import CFG, own_statements


def mode_names(fn_node, extra_consts=None):
    """Names that only hold booleans in this function."""
    a = fn_node.args
    pos = a.posonlyargs + a.args
    cand = set()
    for p, d in zip(pos[len(pos) - len(a.defaults):], a.defaults):
        if isinstance(d, ast.Constant) and isinstance(d.value, bool):
            cand.add(p.arg)
    for p, d in zip(a.kwonlyargs, a.kw_defaults):
        if d is not None and isinstance(d, ast.Constant) and isinstance(d.value, bool):
            cand.add(p.arg)
    assigned = {}
    for st in own_statements(fn_node):
        targets_values = []
        if isinstance(st, ast.Assign):
            for t in st.targets:
                if isinstance(t, ast.Name):
                    targets_values.append((t.id, st.value))
                elif isinstance(t, (ast.Tuple, ast.List)) and isinstance(st.value, (ast.Tuple, ast.List)) and len(t.elts) == len(st.value.elts):
                    for te, ve in zip(t.elts, st.value.elts):
                        if isinstance(te, ast.Name):
                            targets_values.append((te.id, ve))
                else:
                    for n in ast.walk(t):
                        if isinstance(n, ast.Name):
                            targets_values.append((n.id, None))
        elif isinstance(st, (ast.AugAssign, ast.AnnAssign)) and isinstance(st.target, ast.Name):
            targets_values.append((st.target.id, None))
        elif isinstance(st, (ast.For, ast.AsyncFor)):
            for n in ast.walk(st.target):
                if isinstance(n, ast.Name):
                    targets_values.append((n.id, None))
        elif isinstance(st, (ast.With, ast.AsyncWith)):
            for it in st.items:
                if it.optional_vars is not None:
                    for n in ast.walk(it.optional_vars):
                        if isinstance(n, ast.Name):
                            targets_values.append((n.id, None))
        for name, val in targets_values:
            ok = val is not None and isinstance(val, ast.Constant) and isinstance(val.value, bool)
            assigned.setdefault(name, []).append(ok)
    modes = set()
    for n in cand:
        if all(assigned.get(n, [])):
            modes.add(n)
    for n, oks in assigned.items():
        if oks and all(oks):
            modes.add(n)
    return modes


def eval3(test, valuation, none_facts):
    """Three-valued evaluation of a branch condition: True / False / None (unknown)."""
    if isinstance(test, ast.Constant):
        return bool(test.value)
    if isinstance(test, ast.Name):
        if test.id in valuation:
            return valuation[test.id]
        if test.id in none_facts and none_facts[test.id] is True:
            return False  # None is falsy
        return None
    if isinstance(test, ast.UnaryOp) and isinstance(test.op, ast.Not):
        v = eval3(test.operand, valuation, none_facts)
        return None if v is None else (not v)
    if isinstance(test, ast.BoolOp):
        vals = [eval3(v, valuation, none_facts) for v in test.values]
        if isinstance(test.op, ast.And):
            if any(v is False for v in vals):
                return False
            if all(v is True for v in vals):
                return True
            return None
        if any(v is True for v in vals):
            return True
        if all(v is False for v in vals):
            return False
        return None
    if isinstance(test, ast.Compare) and len(test.ops) == 1 and isinstance(test.left, ast.Name):
        c = test.comparators[0]
        if isinstance(c, ast.Constant) and c.value is None and test.left.id in none_facts:
            isnone = none_facts[test.left.id]
            if isinstance(test.ops[0], (ast.Is, ast.Eq)):
                return isnone
            if isinstance(test.ops[0], (ast.IsNot, ast.NotEq)):
                return not isnone
        if isinstance(c, ast.Constant) and isinstance(c.value, (str, bool)) and test.left.id in valuation and not isinstance(valuation[test.left.id], bool):
            if isinstance(test.ops[0], ast.Eq):
                return valuation[test.left.id] == c.value
            if isinstance(test.ops[0], ast.NotEq):
                return valuation[test.left.id] != c.value
    return None


def test_names(fn_node):
    names = set()
    for st in own_statements(fn_node):
        if isinstance(st, (ast.If, ast.While)):
            for n in ast.walk(st.test):
                if isinstance(n, ast.Name):
                    names.add(n.id)
        for n in ast.walk(st):
            if isinstance(n, ast.IfExp):
                for m in ast.walk(n.test):
                    if isinstance(m, ast.Name):
                        names.add(m.id)
    return names


def string_modes(fn_node):
    """Parameters compared with string literals in branch tests: name -> sorted literals."""
    a = fn_node.args
    params = {x.arg for x in a.posonlyargs + a.args + a.kwonlyargs}
    out = {}
    for st in own_statements(fn_node):
        if isinstance(st, (ast.If, ast.While)):
            for n in ast.walk(st.test):
                if isinstance(n, ast.Compare) and len(n.ops) == 1 and isinstance(n.ops[0], (ast.Eq, ast.NotEq)) and isinstance(n.left, ast.Name) and n.left.id in params:
                    c = n.comparators[0]
                    if isinstance(c, ast.Constant) and isinstance(c.value, str):
                        out.setdefault(n.left.id, set()).add(c.value)
    return {k: sorted(v) for k, v in out.items()}


def valuations(fn_node, limit=128, fixed=None, with_strings=False):
    modes = sorted(mode_names(fn_node) & test_names(fn_node))
    fixed = fixed or {}
    free = [m for m in modes if m not in fixed]
    if 2 ** len(free) > limit:
        free = free[: limit.bit_length() - 1]
    sm = string_modes(fn_node) if with_strings else {}
    snames = sorted(n for n in sm if n not in fixed)
    sdomains = [sm[n] + ["<other>"] for n in snames]
    for combo in itertools.product([False, True], repeat=len(free)):
        for scombo in itertools.product(*sdomains) if snames else [()]:
            v = dict(fixed)
            v.update(dict(zip(free, combo)))
            v.update(dict(zip(snames, scombo)))
            yield v


def edge_filter(valuation, none_facts=None):
    none_facts = none_facts or {}

    def ok(a, b, label):
        if label in ("T", "F") and isinstance(a, (ast.If, ast.While)):
            v = eval3(a.test, valuation, none_facts)
            if v is True and label == "F":
                return False
            if v is False and label == "T":
                return False
        return True

    return ok


def describe_valuation(v, none_facts=None):
    parts = [f"{k}={v[k]}" for k in sorted(v)]
    for k, isn in sorted((none_facts or {}).items()):
        parts.append(f"{k} is {'None' if isn else 'not None'}")
    return ", ".join(parts) if parts else "-"
