"""Flow-sensitive, interprocedural may-write / alias analysis over network objects.

Abstract heap: per network origin the regions NODE, EDGE (incidence tables and the sets
stored in them), NATTR, EATTR (attribute tables and the dicts stored in them), NETATTR, UID
(the automatic-ID counter) and SHADOW (instance attributes, e.g. the ``freeze`` shadows).

Abstract values (hashable tuples)
  ('net',  o, cls)     a network object of origin o (cls: core class name or None)
  ('obj',  o)          a parameter of unknown type (may be a network, a view, a stat, a table...)
  ('elem', o)          something reached from a parameter of unknown type by subscript/iteration
  ('tab',  o, R)       table R of network o            (R may be ID/BI/IDATTR/BIATTR for views of unknown kind)
  ('in',   o, R)       a container stored inside table R (member set, in/out dict, attribute dict, nested value)
  ('uid',  o)          the counter object
  ('view', o, kind)    a node/edge view of network o (kind 'node' | 'edge' | None)
  ('stat', o)          a stat object of network o
  ('cont', elems)      a fresh container whose elements have the abstract values `elems`
Origins: ('p', j) = j-th parameter of the function under analysis; ('new', line) = created locally.

Everything not representable is absent from the environment (scalar / unknown) and never reported.
"""
from __future__ import annotations

import ast
from dataclasses import dataclass, field

from .model import AnalysisError, ClassInfo, External, FunctionInfo, ModuleInfo, Repo, CORE_CLASSES, frozen_names_of

NODE, EDGE, NATTR, EATTR, NETATTR, UID, SHADOW, DIRECT, ELEM = "NODE", "EDGE", "NATTR", "EATTR", "NETATTR", "UID", "SHADOW", "DIRECT", "ELEM"
STRUCT_REGIONS = {NODE, EDGE}
ATTR_REGIONS = {"NATTR", "EATTR", "NETATTR"}
TABLE_ATTRS = {"_node": NODE, "_edge": EDGE, "_node_attr": NATTR, "_edge_attr": EATTR, "_net_attr": NETATTR}
VIEW_TABLE_ATTRS = {"_id_dict": "ID", "_bi_id_dict": "BI", "_id_attr": "IDATTR", "_bi_id_attr": "BIATTR", "_ids": "ID"}
VIEW_REGION = {
    ("node", "ID"): NODE, ("node", "BI"): EDGE, ("node", "IDATTR"): NATTR, ("node", "BIATTR"): EATTR,
    ("edge", "ID"): EDGE, ("edge", "BI"): NODE, ("edge", "IDATTR"): EATTR, ("edge", "BIATTR"): NATTR,
}
VIEW_KIND_OF_CLASS = {"NodeView": "node", "DiNodeView": "node", "EdgeView": "edge", "DiEdgeView": "edge", "IDView": None}
MUTATORS = {
    "add", "remove", "discard", "update", "clear", "pop", "popitem", "setdefault", "append", "extend", "insert",
    "sort", "reverse", "difference_update", "intersection_update", "symmetric_difference_update", "__setitem__", "__delitem__",
}
KEY_MUTATORS = {"clear", "pop", "popitem", "setdefault", "update", "__setitem__", "__delitem__"}
ELEM_ACCESSORS = {"get", "pop", "setdefault", "values", "items", "copy", "__getitem__", "popitem"}
FRESH_SET_METHODS = {"union", "intersection", "difference", "symmetric_difference", "keys", "issubset", "issuperset", "isdisjoint", "count", "index"}
FRESH_BUILTINS = {"set", "list", "dict", "frozenset", "tuple", "sorted", "reversed", "zip", "enumerate", "map", "filter", "iter", "chain", "defaultdict", "OrderedDict", "Counter"}
SCALAR_BUILTINS = {"len", "isinstance", "issubclass", "int", "float", "str", "bool", "sum", "min", "max", "any", "all", "abs", "round", "range", "type", "hash", "id", "print", "repr", "callable", "hasattr", "warn", "format"}


@dataclass(frozen=True)
class Write:
    origin: tuple
    region: str
    kind: str  # 'key' (key inserted/deleted/whole table cleared), 'inner' (mutation inside a stored container), 'rebind', 'next', 'shadow'
    fn: FunctionInfo
    line: int
    text: str
    chain: tuple = ()  # call sites from the analysed function down to fn

    def short(self):
        return f"{self.fn.qualname}@{self.fn.file}:{self.line} `{self.text}` [{self.region}/{self.kind}]"


@dataclass
class Summary:
    writes: set = field(default_factory=set)  # Write with origin ('p', j)
    returns: set = field(default_factory=set)  # abstract values (origins ('p', j) or ('new', ..))
    stores: set = field(default_factory=set)  # (dst_origin, region, src_value, line, fn) : src stored by reference into dst
    raises_always: bool = False
    calls: set = field(default_factory=set)  # resolved callee fq names
    unresolved: int = 0
    resolved: int = 0
    frozen_calls: set = field(default_factory=set)


def _unparse(node, n=90):
    try:
        return " ".join(ast.unparse(node).split())[:n]
    except Exception:
        return type(node).__name__


class Effects:
    """Whole-program effect analysis with memoised, context-keyed function summaries."""

    def __init__(self, repo: Repo, max_depth=8):
        self.repo = repo
        self.max_depth = max_depth
        self.memo: dict = {}
        self.in_progress: set = set()
        self.cycle_hit = False
        self.direct_writes: dict = {}  # fn.fq -> list[Write] (writes performed by fn's own statements)
        self.core = {n: repo.get_class(n) for n in CORE_CLASSES}
        self.view_classes = {n: repo.find_class(n) for n in VIEW_KIND_OF_CLASS}
        self.view_classes = {k: v for k, v in self.view_classes.items() if v is not None}
        self.stat_classes = [c for c in (repo.find_class(n) for n in ("IDStat", "MultiIDStat")) if c is not None]
        self._frozen = {}
        self._stat_effect = None
        self.escapes = []

    # ------------------------------------------------------------------ public API
    def frozen_names(self, clsname):
        if clsname not in self._frozen:
            names, _ = self.repo.frozen_names(self.core[clsname])
            self._frozen[clsname] = names
        return self._frozen[clsname]

    def summarize(self, fn: FunctionInfo, self_cls=None, consts=(), frozen=(), depth=0) -> Summary:
        """self_cls: concrete class name for param 0 when fn is a method of a core class (or view kind
        for view classes); consts: tuple of (param, value); frozen: tuple of (param index, class name)."""
        frozen = tuple(sorted(set((f[0], f[1], bool(f[2]) if len(f) > 2 else True) for f in frozen)))
        key = (fn.fq, self_cls, tuple(sorted(consts)), frozen)
        if key in self.memo:
            return self.memo[key]
        if key in self.in_progress or depth > self.max_depth:
            self.cycle_hit = True
            return Summary()
        self.in_progress.add(key)
        try:
            fa = _FunctionAnalysis(self, fn, self_cls, dict(consts), frozen, depth)
            summ = fa.run()
        finally:
            self.in_progress.discard(key)
        self.memo[key] = summ
        return summ

    def stat_effect(self):
        """Union of the writes any stat function may perform on its network argument (param 0)."""
        if self._stat_effect is None:
            self._stat_effect = set()  # guards recursion
            out = set()
            for modname in ("xgi.stats.nodestats", "xgi.stats.edgestats", "xgi.stats.dinodestats", "xgi.stats.diedgestats"):
                mi = self.repo.modules.get(modname)
                if mi is None:
                    continue
                for f in mi.functions.values():
                    if f.name.startswith("_") or not f.params:
                        continue
                    s = self.summarize(f, None, (), (), 1)
                    for w in s.writes:
                        if w.origin == ("p", 0):
                            out.add(w)
            self._stat_effect = out
        return self._stat_effect


class _Terminate(Exception):
    pass


class _FunctionAnalysis:
    def __init__(self, eng: Effects, fn: FunctionInfo, self_cls, consts, frozen, depth, closure_env=None):
        self.eng = eng
        self.repo = eng.repo
        self.fn = fn
        self.self_cls = self_cls
        self.consts = consts
        self.ptypes = {f[0]: f[1] for f in frozen}  # param index -> class name (known concrete class)
        self.frozen = {f[0]: f[1] for f in frozen if f[2]}  # param index -> class name, receiver is frozen
        self.depth = depth
        self.summ = Summary()
        self.closure_env = closure_env or {}
        self.origin_cls = {}  # origin -> directed? for networks created locally with a known class

    # ------------------------------------------------------------------ setup
    def run(self):
        env = dict(self.closure_env)
        a = self.fn.node.args
        params = [x.arg for x in a.posonlyargs + a.args + a.kwonlyargs]
        for j, p in enumerate(params):
            env[p] = frozenset([self._param_value(j, p)])
        if a.vararg:
            env[a.vararg.arg] = frozenset([("cont", frozenset([("obj", ("p", len(params)))]))])
        if a.kwarg:
            env[a.kwarg.arg] = frozenset([("cont", frozenset())])
        self.params = params
        try:
            self.exec_block(self.fn.node.body, env)
        except _Terminate:
            pass
        return self.summ

    def _param_value(self, j, name):
        if j == 0 and self.fn.cls is not None and not any(d in ("staticmethod", "classmethod") for d in self.fn.decorators()):
            cname = self.fn.cls.name
            if self.self_cls in CORE_CLASSES or cname in CORE_CLASSES:
                return ("net", ("p", 0), self.self_cls or cname)
            if cname in VIEW_KIND_OF_CLASS or self.self_cls in VIEW_KIND_OF_CLASS:
                return ("view", ("p", 0), VIEW_KIND_OF_CLASS.get(self.self_cls or cname))
            if cname in ("IDStat", "MultiIDStat") or any(c.name in ("IDStat",) for c in self.repo.mro(self.fn.cls)):
                return ("stat", ("p", 0))
        if j in self.ptypes:
            return ("net", ("p", j), self.ptypes[j])
        return ("obj", ("p", j))

    # ------------------------------------------------------------------ recording
    def write(self, origin, region, kind, node, chain=()):
        w = Write(origin, region, kind, self.fn, getattr(node, "lineno", 0), _unparse(node), tuple(chain))
        if not chain:
            self.eng.direct_writes.setdefault(self.fn.fq, set()).add(w)
        self.summ.writes.add(w)

    def write_value(self, val, node, keylevel, aug=False):
        """A mutation applied directly to abstract value val."""
        k = val[0]
        if k == "tab":
            self.write(val[1], val[2], "key" if keylevel else "inner", node)
        elif k == "in":
            self.write(val[1], val[2], "inner", node)
        elif k == "obj":
            self.write(val[1], DIRECT, "key" if keylevel else "inner", node)
        elif k == "elem":
            self.write(val[1], ELEM, "inner", node)
        elif k == "net":
            # H[attr] = v / del H[attr]
            self.write(val[1], NETATTR, "key", node)
        elif k == "uid":
            self.write(val[1], UID, "next", node)

    # ------------------------------------------------------------------ statements
    def exec_block(self, stmts, env):
        """Executes statements, mutating env. Returns True when control cannot fall through."""
        for st in stmts:
            if self.exec_stmt(st, env):
                return True
        return False

    def join(self, a, b):
        out = dict(a)
        for k, v in b.items():
            out[k] = out.get(k, frozenset()) | v
        return out

    def const_test(self, test):
        """Evaluate a branch condition under constant-propagated parameters: True/False/None."""
        if isinstance(test, ast.Name) and test.id in self.consts:
            return bool(self.consts[test.id])
        if isinstance(test, ast.UnaryOp) and isinstance(test.op, ast.Not):
            v = self.const_test(test.operand)
            return None if v is None else (not v)
        if isinstance(test, ast.Compare) and len(test.ops) == 1 and isinstance(test.left, ast.Name) and test.left.id in self.consts:
            c = test.comparators[0]
            if isinstance(c, ast.Constant):
                v = self.consts[test.left.id]
                op = test.ops[0]
                if isinstance(op, (ast.Is, ast.Eq)):
                    return v == c.value if not isinstance(op, ast.Is) else v is c.value
                if isinstance(op, (ast.IsNot, ast.NotEq)):
                    return v != c.value if not isinstance(op, ast.IsNot) else v is not c.value
        if isinstance(test, ast.BoolOp):
            vals = [self.const_test(v) for v in test.values]
            if isinstance(test.op, ast.And):
                if any(v is False for v in vals):
                    return False
                if all(v is True for v in vals):
                    return True
            else:
                if any(v is True for v in vals):
                    return True
                if all(v is False for v in vals):
                    return False
        return None

    def exec_stmt(self, st, env):
        if isinstance(st, ast.Expr):
            vals = self.eval(st.value, env)
            if isinstance(st.value, ast.Call) and self._last_call_raises:
                return True
            return False
        if isinstance(st, ast.Assign):
            val = self.eval(st.value, env)
            for t in st.targets:
                self.assign(t, val, env, st)
            return False
        if isinstance(st, ast.AnnAssign):
            if st.value is not None:
                self.assign(st.target, self.eval(st.value, env), env, st)
            return False
        if isinstance(st, ast.AugAssign):
            rhs = self.eval(st.value, env)
            if isinstance(st.target, ast.Name):
                setop = isinstance(st.op, (ast.BitOr, ast.BitAnd, ast.BitXor))
                if isinstance(st.op, (ast.BitOr, ast.Add)):
                    # x |= y / x += y on a local set or list adds the ELEMENTS of y (the keys, if y is a dict)
                    self._extend_local_container(st.target, set(self.elements(rhs)), env)
                for v in env.get(st.target.id, ()):  # in-place operators mutate sets/lists/dicts
                    # `x -= y` / `x += y` on a parameter of unknown type is arithmetic unless x is
                    # known to be a stored container
                    if v[0] in ("tab", "in") or (v[0] in ("obj", "elem") and setop):
                        self.write_value(v, st, keylevel=False)
            elif isinstance(st.target, ast.Subscript):
                for v in self.eval(st.target.value, env):
                    self.write_value(v, st, keylevel=(v[0] == "tab"))
                self.eval(st.target.slice, env)
            elif isinstance(st.target, ast.Attribute):
                for v in self.eval(st.target.value, env):
                    self._attr_store(v, st.target.attr, rhs, st)
            return False
        if isinstance(st, ast.Delete):
            for t in st.targets:
                if isinstance(t, ast.Subscript):
                    for v in self.eval(t.value, env):
                        self.write_value(v, st, keylevel=True)
                    self.eval(t.slice, env)
                elif isinstance(t, ast.Name):
                    env.pop(t.id, None)
                elif isinstance(t, ast.Attribute):
                    for v in self.eval(t.value, env):
                        self._attr_store(v, t.attr, frozenset(), st)
            return False
        if isinstance(st, ast.Return):
            if st.value is not None:
                self.summ.returns |= self.eval(st.value, env)
            return True
        if isinstance(st, ast.Raise):
            if st.exc is not None:
                self.eval(st.exc, env)
            return True
        if isinstance(st, ast.If):
            self.eval(st.test, env)
            ct = self.const_test(st.test)
            if ct is True:
                return self.exec_block(st.body, env)
            if ct is False:
                return self.exec_block(st.orelse, env)
            e1, e2 = dict(env), dict(env)
            t1 = self.exec_block(st.body, e1)
            t2 = self.exec_block(st.orelse, e2)
            env.clear()
            if t1 and t2:
                env.update(self.join(e1, e2))
                return True
            if t1:
                env.update(e2)
            elif t2:
                env.update(e1)
            else:
                env.update(self.join(e1, e2))
            return False
        if isinstance(st, (ast.For, ast.AsyncFor)):
            itv = self.eval(st.iter, env)
            elems = self.elements(itv)
            base = dict(env)
            for _ in range(2):
                self.bind_loop_target(st.target, st.iter, elems, env, st)
                body_env = dict(env)
                self.exec_block(st.body, body_env)
                merged = self.join(env, body_env)
                env.clear()
                env.update(merged)
            self.exec_block(st.orelse, env)
            merged = self.join(base, env)
            env.clear()
            env.update(merged)
            return False
        if isinstance(st, ast.While):
            self.eval(st.test, env)
            base = dict(env)
            infinite = isinstance(st.test, ast.Constant) and st.test.value is True
            for _ in range(2):
                body_env = dict(env)
                self.exec_block(st.body, body_env)
                merged = self.join(env, body_env)
                env.clear()
                env.update(merged)
            self.exec_block(st.orelse, env)
            merged = self.join(base, env)
            env.clear()
            env.update(merged)
            if infinite and not any(isinstance(n, ast.Break) for n in ast.walk(st)):
                return True
            return False
        if isinstance(st, (ast.With, ast.AsyncWith)):
            for item in st.items:
                v = self.eval(item.context_expr, env)
                if item.optional_vars is not None:
                    self.assign(item.optional_vars, v, env, st)
            return self.exec_block(st.body, env)
        if isinstance(st, ast.Try):
            start = dict(env)
            t_body = self.exec_block(st.body, env)
            after_body = dict(env)
            all_term = t_body
            handler_envs = []
            for h in st.handlers:
                he = self.join(start, after_body)
                if h.name:
                    he.pop(h.name, None)
                th = self.exec_block(h.body, he)
                if not th:
                    handler_envs.append(he)
            if not t_body:
                te = self.exec_block(st.orelse, env)
                if te:
                    t_body = True
            result = None
            if not t_body:
                result = dict(env)
            for he in handler_envs:
                result = he if result is None else self.join(result, he)
            terminated = result is None
            if result is None:
                result = self.join(start, after_body)
            env.clear()
            env.update(result)
            if st.finalbody:
                tf = self.exec_block(st.finalbody, env)
                if tf:
                    return True
            return terminated
        if isinstance(st, (ast.FunctionDef, ast.AsyncFunctionDef, ast.ClassDef)):
            return False
        if isinstance(st, (ast.Import, ast.ImportFrom, ast.Pass, ast.Global, ast.Nonlocal)):
            return False
        if isinstance(st, (ast.Break, ast.Continue)):
            return True
        if isinstance(st, ast.Assert):
            self.eval(st.test, env)
            return False
        if isinstance(st, ast.Match):
            self.eval(st.subject, env)
            for c in st.cases:
                e = dict(env)
                self.exec_block(c.body, e)
                merged = self.join(env, e)
                env.clear()
                env.update(merged)
            return False
        return False

    def bind_loop_target(self, target, iter_node, elems, env, st):
        """Loop / comprehension target. `for k, v in X.items()` and `for i, v in enumerate(X)` bind the first name to a
        key / counter (never an alias of stored data) and the second to the values; `zip(A, B, ...)` binds positionally.
        Anything else: every component may be any element."""
        if isinstance(target, (ast.Tuple, ast.List)) and not any(isinstance(e, ast.Starred) for e in target.elts) and isinstance(iter_node, ast.Call):
            f = iter_node.func
            if len(target.elts) == 2 and isinstance(f, ast.Attribute) and f.attr == "items" and not iter_node.args:
                self.assign(target.elts[0], frozenset(), env, st)
                self.assign(target.elts[1], elems, env, st)
                return
            if len(target.elts) == 2 and isinstance(f, ast.Name) and f.id == "enumerate" and iter_node.args:
                self.assign(target.elts[0], frozenset(), env, st)
                self.assign(target.elts[1], self.elements(self.eval(iter_node.args[0], env)), env, st)
                return
            if isinstance(f, ast.Name) and f.id == "zip" and len(iter_node.args) == len(target.elts) and not iter_node.keywords and not any(isinstance(a, ast.Starred) for a in iter_node.args):
                for t, a in zip(target.elts, iter_node.args):
                    self.assign(t, self.elements(self.eval(a, env)), env, st)
                return
        self.assign(target, elems, env, st, destructure=True)

    # ------------------------------------------------------------------ assignment
    def assign(self, target, val, env, st, destructure=False):
        if isinstance(target, ast.Name):
            if val:
                env[target.id] = frozenset(val)
            else:
                env.pop(target.id, None)
        elif isinstance(target, (ast.Tuple, ast.List)):
            # destructuring: every component may be any element of the value
            elems = frozenset()
            for v in val:
                if v[0] == "cont":
                    elems |= v[1]
                elif v[0] in ("in", "elem", "obj"):
                    # the value may itself be a component of an (id, value) pair produced by
                    # .items()/zip()/enumerate(), or a container that is being unpacked
                    elems |= {v if v[0] != "obj" else ("elem", v[1])}
                    elems |= self.elements(frozenset([v]))
            for e in target.elts:
                if isinstance(e, ast.Starred):
                    self.assign(e.value, frozenset([("cont", elems)]), env, st)
                else:
                    self.assign(e, elems, env, st)
        elif isinstance(target, ast.Subscript):
            bases = self.eval(target.value, env)
            self.eval(target.slice, env)
            if any(b[0] == "cont" for b in bases):
                ps = self._pseudo(target)
                if ps is not None:
                    env[ps] = frozenset(v for v in val if self._is_aliasing(v) or v[0] in ("cont", "view", "stat")) or frozenset([("cont", frozenset())])
                else:
                    self._extend_local_container(target.value, val, env)
            for b in bases:
                self.write_value(b, st, keylevel=(b[0] in ("tab", "obj", "net")))
                if b[0] in ("tab", "in", "net", "obj", "elem"):
                    region = b[2] if b[0] in ("tab", "in") else (NETATTR if b[0] == "net" else DIRECT)
                    for v in val:
                        if self._is_aliasing(v):
                            self.summ.stores.add((b[1], region, v, getattr(st, "lineno", 0), self.fn.fq))
        elif isinstance(target, ast.Attribute):
            for b in self.eval(target.value, env):
                self._attr_store(b, target.attr, val, st)
        elif isinstance(target, ast.Starred):
            self.assign(target.value, val, env, st)

    def _root_name(self, e):
        """Name at the root of a chain of subscripts / attributes / accessor calls (d["k"].setdefault(..) -> d)."""
        while True:
            if isinstance(e, ast.Name):
                return e.id
            if isinstance(e, (ast.Subscript, ast.Attribute, ast.Starred)):
                e = e.value
            elif isinstance(e, ast.Call) and isinstance(e.func, ast.Attribute):
                e = e.func.value
            else:
                return None

    def _extend_local_container(self, recv_expr, vals, env):
        """A local (fresh) container reachable from a name receives `vals`: from now on its elements may alias them.
        Nested containers are flattened into the root (over-approximation)."""
        name = self._root_name(recv_expr)
        if name is None or name not in env:
            return
        ps = self._pseudo(recv_expr)
        if ps is not None and any(x[0] == "cont" for x in env.get(name, ())):
            if ps not in env:
                env[ps] = frozenset([("cont", frozenset())])
            name = ps
        extra = set()
        for v in vals:
            if self._is_aliasing(v) or v[0] in ("cont", "view", "stat"):
                extra.add(v)
                if v[0] == "cont":
                    extra |= {e for e in v[1] if self._is_aliasing(e) or e[0] in ("cont", "view", "stat")}
                else:
                    extra.add(("cont", frozenset([v])))
        if not extra:
            return
        new, changed = set(), False
        for v in env[name]:
            if v[0] == "cont":
                new.add(("cont", frozenset(v[1] | extra)))
                changed = True
            else:
                new.add(v)
        if changed:
            env[name] = frozenset(new)

    def _is_aliasing(self, v):
        return v[0] in ("tab", "in", "obj", "elem", "net", "uid") or (v[0] == "cont" and any(self._is_aliasing(e) for e in v[1]))

    def _attr_store(self, base, attr, val, st):
        k = base[0]
        if k in ("net", "obj"):
            if attr in TABLE_ATTRS:
                self.write(base[1], TABLE_ATTRS[attr], "rebind", st)
                for v in val:
                    if self._is_aliasing(v):
                        self.summ.stores.add((base[1], TABLE_ATTRS[attr], v, getattr(st, "lineno", 0), self.fn.fq))
            elif attr == "_edge_uid":
                self.write(base[1], UID, "rebind", st)
                for v in val:
                    if v[0] == "uid":
                        self.summ.stores.add((base[1], UID, v, getattr(st, "lineno", 0), self.fn.fq))
            elif attr in ("_nodeview", "_edgeview"):
                self.write(base[1], SHADOW, "view", st)
            else:
                self.write(base[1], SHADOW, "shadow:" + attr, st)
        # attributes of views / stats / fresh objects are not network state

    # ------------------------------------------------------------------ expressions
    _last_call_raises = False

    def elements(self, vals):
        out = set()
        for v in vals:
            k = v[0]
            if k == "cont":
                out |= set(v[1])
            elif k == "in":
                # iterating a member set / in-out dict yields IDs or the keys "in"/"out";
                # iterating an attribute value may yield nested containers
                if v[2] in ATTR_REGIONS:
                    out.add(deeper(v))
            elif k == "tab":
                pass  # iterating a table yields its keys (IDs)
            elif k in ("obj", "elem"):
                out.add(("elem", v[1]))
            elif k == "view":
                pass
        return frozenset(out)

    def directed_of(self, origin):
        """True / False / None (unknown): does the network of this origin store in/out dicts?"""
        if origin == ("p", 0) and self.self_cls in DIRECTED_OF_CLASS:
            return DIRECTED_OF_CLASS[self.self_cls]
        if origin[0] == "p" and origin[1] in self.ptypes:
            return DIRECTED_OF_CLASS.get(self.ptypes[origin[1]])
        return self.origin_cls.get(origin)

    def values_of_in(self, v):
        """Abstract values stored inside container value v (what .values()/.copy()/subscript expose)."""
        o, reg, d = v[1], v[2], v[3]
        if reg in ATTR_REGIONS or reg in ("IDATTR", "BIATTR"):
            return {deeper(v)}
        if d >= 2:
            return set()  # a tail/head or in/out membership set: its elements are IDs
        directed = self.directed_of(o)
        if directed is False:
            return set()  # a member / membership set: its elements are IDs
        return {deeper(v)}

    def view_region(self, kind, reg):
        if kind is None:
            return reg
        return VIEW_REGION.get((kind, reg), reg)

    def eval(self, node, env) -> frozenset:
        self._last_call_raises = False
        if node is None:
            return frozenset()
        m = getattr(self, "ev_" + type(node).__name__, None)
        if m is None:
            for ch in ast.iter_child_nodes(node):
                if isinstance(ch, ast.expr):
                    self.eval(ch, env)
            return frozenset()
        return m(node, env)

    def ev_Name(self, node, env):
        v = env.get(node.id, frozenset())
        # a local record with constant keys (data["nodes"], data["metadata"], ...): used as a whole it holds all of them
        pref = node.id + "["
        extra = set()
        for k, pv in env.items():
            if k.startswith(pref):
                for x in pv:
                    if self._is_aliasing(x) or x[0] in ("cont", "view", "stat"):
                        extra.add(x)
        if extra and any(x[0] == "cont" for x in v):
            v = frozenset(("cont", frozenset(x[1] | extra)) if x[0] == "cont" else x for x in v)
        return v

    @staticmethod
    def _pseudo(expr):
        """data["key"] with a constant key on a plain name -> the pseudo-variable that holds that slot."""
        if isinstance(expr, ast.Subscript) and isinstance(expr.value, ast.Name) and isinstance(expr.slice, ast.Constant) and isinstance(expr.slice.value, (str, int)):
            return f"{expr.value.id}[{expr.slice.value!r}]"
        return None

    def ev_Constant(self, node, env):
        return frozenset()

    def ev_Attribute(self, node, env):
        base = self.eval(node.value, env)
        out = set()
        for b in base:
            out |= self.attr_of(b, node.attr, node, env)
        return frozenset(out)

    def attr_of(self, b, attr, node, env):
        k = b[0]
        out = set()
        if k in ("net", "obj"):
            o = b[1]
            if attr in TABLE_ATTRS:
                out.add(("tab", o, TABLE_ATTRS[attr]))
            elif attr == "_edge_uid":
                out.add(("uid", o))
            elif attr in ("nodes", "_nodeview"):
                out.add(("view", o, "node"))
            elif attr in ("edges", "_edgeview"):
                out.add(("view", o, "edge"))
            elif attr in ("__class__",):
                out.add(("classof", o, b[2] if k == "net" else None))
            elif k == "obj" and attr in ("_net", "net"):
                out.add(("obj", o))
            elif k == "obj" and attr == "view":
                out.add(("view", o, None))
            elif k == "obj" and attr in VIEW_TABLE_ATTRS:
                out.add(("tab", o, VIEW_TABLE_ATTRS[attr]))
            else:
                # property of a core class?
                prop = self._find_property(b, attr)
                if prop:
                    for f, ctx in prop:
                        out |= self.apply_call(f, ctx, [frozenset([b])], {}, node, env)
        elif k == "view":
            o, kind = b[1], b[2]
            if attr in ("_net",):
                out.add(("net", o, None))
            elif attr in VIEW_TABLE_ATTRS:
                out.add(("tab", o, self.view_region(kind, VIEW_TABLE_ATTRS[attr])))
            elif attr == "ids":
                out.add(("cont", frozenset()))
            elif self._view_method(kind, attr):
                pass  # bound method; handled at the call
            else:
                out.add(("stat", o))
        elif k == "stat":
            if attr == "net":
                out.add(("net", b[1], None))
            elif attr == "view":
                out.add(("view", b[1], None))
            elif attr == "stats":
                out.add(("cont", frozenset([("stat", b[1])])))
        elif k == "classof":
            pass
        elif k in ("tab", "in", "cont") and attr in MUTATORS:
            out.add(("bound", b, attr))  # f = H._node.clear; f()
        return out

    def _find_property(self, b, attr):
        res = []
        classes = [b[2]] if b[0] == "net" and b[2] else list(CORE_CLASSES)
        for cn in classes:
            f = self.repo.find_method(self.eng.core[cn], attr)
            if f is not None and f.is_property():
                res.append((f, cn))
        return res

    def _view_method(self, kind, name):
        out = []
        for cname, ci in self.eng.view_classes.items():
            k = VIEW_KIND_OF_CLASS[cname]
            if cname == "IDView":
                continue
            if kind is not None and k != kind:
                continue
            f = self.repo.find_method(ci, name)
            if f is not None:
                out.append((f, cname))
        # de-duplicate inherited IDView methods: keep one context per kind
        seen, res = set(), []
        for f, cname in out:
            kk = (f.fq, VIEW_KIND_OF_CLASS[cname])
            if kk not in seen:
                seen.add(kk)
                res.append((f, cname))
        return res

    def ev_Subscript(self, node, env):
        if isinstance(node.slice, ast.Constant) and isinstance(node.slice.value, str):
            # vars(H)["_node"] / H.__dict__["_node"]: the attribute itself
            refl = None
            if isinstance(node.value, ast.Call) and isinstance(node.value.func, ast.Name) and node.value.func.id == "vars" and node.value.args:
                refl = node.value.args[0]
            elif isinstance(node.value, ast.Attribute) and node.value.attr == "__dict__":
                refl = node.value.value
            if refl is not None:
                out = set()
                for b in self.eval(refl, env):
                    out |= self.attr_of(b, node.slice.value, node, env)
                if out:
                    return frozenset(out)
        ps = self._pseudo(node)
        if ps is not None and ps in env and any(x[0] == "cont" for x in env.get(node.value.id, ())):
            return env[ps]
        base = self.eval(node.value, env)
        self.eval(node.slice, env)
        out = set()
        for b in base:
            k = b[0]
            if k == "tab":
                out.add(("in", b[1], b[2], 1))
            elif k == "in":
                out.add(deeper(b))
            elif k == "cont":
                if isinstance(node.slice, ast.Slice):
                    out.add(b)
                else:
                    out |= set(b[1])
            elif k == "net":
                out.add(("in", b[1], NETATTR, 1))
            elif k in ("obj", "elem"):
                out.add(("elem", b[1]))
            elif k == "view":
                kind = b[2]
                out.add(("in", b[1], self.view_region(kind, "IDATTR"), 1))
        return frozenset(out)

    def _seq(self, elts, env):
        elems = set()
        for e in elts:
            if isinstance(e, ast.Starred):
                elems |= self.elements(self.eval(e.value, env))
            else:
                elems |= {v for v in self.eval(e, env) if self._is_aliasing(v) or v[0] in ("view", "stat", "cont")}
        return frozenset([("cont", frozenset(elems))])

    def ev_Tuple(self, node, env):
        return self._seq(node.elts, env)

    ev_List = ev_Tuple
    ev_Set = ev_Tuple

    def ev_Dict(self, node, env):
        elems = set()
        for k, v in zip(node.keys, node.values):
            if k is not None:
                self.eval(k, env)
                elems |= {x for x in self.eval(v, env) if self._is_aliasing(x) or x[0] == "cont"}
            else:
                elems |= self.elements(self.eval(v, env))
        return frozenset([("cont", frozenset(elems))])

    def _comp(self, node, env, elt_nodes):
        e = dict(env)
        for g in node.generators:
            it = self.eval(g.iter, e)
            self.bind_loop_target(g.target, g.iter, self.elements(it), e, node)
            for c in g.ifs:
                self.eval(c, e)
        elems = set()
        for en in elt_nodes:
            elems |= {v for v in self.eval(en, e) if self._is_aliasing(v) or v[0] in ("cont", "view", "stat")}
        return frozenset([("cont", frozenset(elems))])

    def ev_ListComp(self, node, env):
        return self._comp(node, env, [node.elt])

    ev_SetComp = ev_ListComp
    ev_GeneratorExp = ev_ListComp

    def ev_DictComp(self, node, env):
        return self._comp(node, env, [node.key, node.value])

    def ev_BinOp(self, node, env):
        l = self.eval(node.left, env)
        r = self.eval(node.right, env)
        if isinstance(node.op, ast.LShift):
            out = set()
            for b in l:
                if b[0] in ("net", "obj"):
                    for cn in ([b[2]] if b[0] == "net" and b[2] else ["Hypergraph"]):
                        f = self.repo.find_method(self.eng.core.get(cn, self.eng.core["Hypergraph"]), "__lshift__")
                        if f is not None:
                            out |= self.apply_call(f, cn, [frozenset([b]), r], {}, node, env)
            return frozenset(out)
        if isinstance(node.op, (ast.BitOr, ast.BitAnd, ast.Sub, ast.BitXor, ast.Add, ast.Mult)):
            elems = set()
            for v in l | r:
                if v[0] == "cont":
                    elems |= set(v[1])
            if any(v[0] in ("tab", "in", "cont", "obj", "elem") for v in l | r):
                return frozenset([("cont", frozenset(elems))])
        return frozenset()

    def ev_BoolOp(self, node, env):
        out = frozenset()
        for v in node.values:
            out |= self.eval(v, env)
        return out

    def ev_IfExp(self, node, env):
        self.eval(node.test, env)
        ct = self.const_test(node.test)
        if ct is True:
            return self.eval(node.body, env)
        if ct is False:
            return self.eval(node.orelse, env)
        return self.eval(node.body, env) | self.eval(node.orelse, env)

    def ev_NamedExpr(self, node, env):
        v = self.eval(node.value, env)
        self.assign(node.target, v, env, node)
        return v

    def ev_Starred(self, node, env):
        return self.eval(node.value, env)

    def ev_Await(self, node, env):
        return self.eval(node.value, env)

    def ev_Lambda(self, node, env):
        return frozenset([("lambda", id(node))])

    def ev_JoinedStr(self, node, env):
        for v in node.values:
            if isinstance(v, ast.FormattedValue):
                self.eval(v.value, env)
        return frozenset()

    def ev_Compare(self, node, env):
        self.eval(node.left, env)
        for c in node.comparators:
            self.eval(c, env)
        return frozenset()

    def ev_UnaryOp(self, node, env):
        self.eval(node.operand, env)
        return frozenset()

    # ------------------------------------------------------------------ calls
    def ev_Call(self, node, env):
        argvals = []
        for a in node.args:
            if isinstance(a, ast.Starred):
                argvals.append(("*", self.eval(a.value, env)))
            else:
                argvals.append(self.eval(a, env))
        kwvals = {}
        for kw in node.keywords:
            v = self.eval(kw.value, env)
            if kw.arg is None:
                kwvals.setdefault("**", frozenset())
                kwvals["**"] |= v
            else:
                kwvals[kw.arg] = v
        raises = False
        out = set()
        f = node.func
        if isinstance(f, ast.Name):
            out |= self.call_name(f.id, node, argvals, kwvals, env)
        elif isinstance(f, ast.Attribute):
            r, raises = self.call_attr(f, node, argvals, kwvals, env)
            out |= r
            if f.attr in ("add", "append", "extend", "update", "insert", "setdefault", "appendleft", "__setitem__"):
                vals = set()
                for a in argvals:
                    av = frozenset(a[1] if isinstance(a, tuple) and a and a[0] == "*" else a)
                    if f.attr == "extend":
                        vals |= set(self.elements(av))
                    elif f.attr == "update":
                        # dict.update shares the argument's values, set.update its elements; the receiver's type is
                        # not tracked in general, so both - unless the receiver is a local that is only ever bound to
                        # a set (set(), {..}, a set comprehension): set.update(d) iterates d, it never takes its values
                        vals |= set(self.elements(av))
                        if not (isinstance(f.value, ast.Name) and f.value.id in self._set_typed_locals()):
                            for c in self._shallow_copy(av):
                                vals |= set(c[1]) if c[0] == "cont" else {c}
                    else:
                        vals |= set(av)
                for v in kwvals.values():
                    vals |= set(v)
                if vals:
                    self._extend_local_container(f.value, vals, env)
        else:
            fv = self.eval(f, env)
            out |= self._call_values(fv, node, argvals, kwvals, env)
        self._last_call_raises = raises
        for v in out:
            if v[0] == "net" and v[1][0] == "new" and v[2] in DIRECTED_OF_CLASS:
                prev = self.origin_cls.get(v[1], DIRECTED_OF_CLASS[v[2]])
                self.origin_cls[v[1]] = prev if prev == DIRECTED_OF_CLASS[v[2]] else None
        return frozenset(out)

    def _call_values(self, fvals, node, argvals, kwvals, env):
        out = set()
        for v in fvals:
            if v[0] == "classof":
                cn = v[2] or (self.self_cls if self.self_cls in CORE_CLASSES else None)
                out.add(("net", ("new", node.lineno, node.col_offset), cn))
            elif v[0] == "stat":
                out.add(v)
            elif v[0] == "bound":
                r = self.container_method(v[1], v[2], node, self._plain_args(argvals))
                if r:
                    out |= set(r)
        return out

    def _plain_args(self, argvals):
        out = []
        for a in argvals:
            if isinstance(a, tuple) and a and a[0] == "*":
                # f(*xs): any following positional parameter may receive any element of xs
                el = frozenset(self.elements(a[1]))
                out.extend([el] * 4)
            else:
                out.append(a)
        return out

    def call_name(self, name, node, argvals, kwvals, env):
        args = self._plain_args(argvals)
        out = set()
        if name in env:  # a local callable (lambda, class object, stat...)
            return self._call_values(env[name], node, argvals, kwvals, env)
        target = self.repo.resolve_name(self.fn, self.fn.module, name)
        if isinstance(target, FunctionInfo):
            self.summ.resolved += 1
            if target.parent is not None:  # nested function: analyse inline with the closure environment
                return self.apply_nested(target, args, kwvals, node, env)
            return self.apply_call(target, None, args, kwvals, node, env)
        if isinstance(target, ClassInfo):
            self.summ.resolved += 1
            return self.construct(target, args, kwvals, node, env)
        if isinstance(target, External):
            return self.external_call(target.path, args, kwvals, node, env)
        # builtins
        if name == "next":
            for v in (args[0] if args else ()):
                if v[0] == "uid":
                    self.write(v[1], UID, "next", node)
                elif v[0] in ("obj", "elem"):
                    pass
            return self.elements(args[0]) if args else frozenset()
        if name in ("deepcopy",):
            return frozenset([("cont", frozenset())])
        if name == "copy":
            return self._shallow_copy(args[0] if args else frozenset())
        if name in ("dict", "OrderedDict") and args:
            # dict(mapping) shares the mapping's values
            out = set(self._shallow_copy(args[0]))
            return frozenset(out) if out else frozenset([("cont", frozenset())])
        if name in ("map", "filter") and node.args:
            # the callable is applied to every element (its side effects happen; a lazy map that is never consumed is
            # over-approximated as consumed)
            elem_args = [frozenset(self.elements(a)) for a in args[1:]]
            f0 = node.args[0]
            res = set()
            if isinstance(f0, ast.Lambda):
                e2 = dict(env)
                for p, v in zip([a.arg for a in f0.args.args], elem_args):
                    e2[p] = v
                res |= set(self.eval(f0.body, e2))
            elif isinstance(f0, ast.Name) and f0.id not in env:
                tgt = self.repo.resolve_name(self.fn, self.fn.module, f0.id)
                if isinstance(tgt, FunctionInfo):
                    res |= set(self.apply_call(tgt, None, elem_args, {}, node, env))
            elems = set(res) if name == "map" else set()
            for a in args[1:]:
                elems |= self._iter_elems_for_copy(a)
            return frozenset([("cont", frozenset(x for x in elems if self._is_aliasing(x) or x[0] in ("cont", "view", "stat")))])
        if name == "vars" and args:
            return frozenset(("vars", v[1], v[2] if len(v) > 2 else None) for v in args[0] if v[0] in ("net", "obj"))
        if name in FRESH_BUILTINS:
            elems = set()
            for a in args:
                elems |= self._iter_elems_for_copy(a)
            return frozenset([("cont", frozenset(elems))])
        if name == "getattr" and len(node.args) >= 2:
            if isinstance(node.args[1], ast.Constant) and isinstance(node.args[1].value, str):
                res = set()
                for b in args[0]:
                    res |= self.attr_of(b, node.args[1].value, node, env)
                return frozenset(res)
            names = self._const_strings(node.args[1])
            if names:
                # getattr(net, name) with `name` ranging over a literal tuple of attribute names
                res = set()
                for an in names:
                    for b in args[0]:
                        res |= self.attr_of(b, an, node, env)
                return frozenset(res)
            res = set()
            for b in args[0]:
                if b[0] in ("view", "net", "obj", "stat"):
                    res.add(("stat", b[1]))
            return frozenset(res)
        if name == "setattr" and args:
            for b in args[0]:
                if b[0] in ("net", "obj"):
                    ans = [node.args[1].value] if isinstance(node.args[1], ast.Constant) else (self._const_strings(node.args[1]) or ["?"])
                    for an in ans:
                        self._attr_store(b, str(an), args[2] if len(args) > 2 else frozenset(), node)
            return frozenset()
        if name in SCALAR_BUILTINS:
            return frozenset()
        self.summ.unresolved += 1
        return frozenset()

    def _set_typed_locals(self):
        """Local names every binding of which is a set construction."""
        if not hasattr(self, "_set_locals_cache"):
            binds = {}
            for st in ast.walk(self.fn.node):
                if isinstance(st, ast.Assign):
                    for t in st.targets:
                        if isinstance(t, ast.Name):
                            v = st.value
                            is_set = isinstance(v, (ast.Set, ast.SetComp)) or (isinstance(v, ast.Call) and getattr(v.func, "id", None) in ("set", "frozenset"))
                            binds.setdefault(t.id, []).append(is_set)
                elif isinstance(st, (ast.For, ast.AugAssign, ast.With, ast.comprehension, ast.NamedExpr)):
                    tgt = getattr(st, "target", None)
                    for x in ast.walk(tgt) if tgt is not None else ():
                        if isinstance(x, ast.Name):
                            binds.setdefault(x.id, []).append(isinstance(st, ast.AugAssign) and isinstance(st.op, (ast.BitOr, ast.BitAnd, ast.Sub)))
            params = set(self.fn.all_params)
            self._set_locals_cache = {k for k, v in binds.items() if v and all(v) and k not in params}
        return self._set_locals_cache

    def _const_strings(self, e):
        """String values a name can hold when it is a loop variable over, or bound to elements of, a literal
        tuple / list / set of string constants (possibly bound to a local or module-level name first)."""
        if not isinstance(e, ast.Name):
            return []

        def lits(x, depth=0):
            if isinstance(x, (ast.Tuple, ast.List, ast.Set)) and x.elts and all(isinstance(c, ast.Constant) and isinstance(c.value, str) for c in x.elts):
                return [c.value for c in x.elts]
            if isinstance(x, ast.Name) and depth < 2:
                for st in ast.walk(self.fn.node):
                    if isinstance(st, ast.Assign) and len(st.targets) == 1 and isinstance(st.targets[0], ast.Name) and st.targets[0].id == x.id:
                        r = lits(st.value, depth + 1)
                        if r:
                            return r
                mv = self.fn.module.assigns.get(x.id) if hasattr(self.fn.module, "assigns") else None
                if mv is not None:
                    return lits(mv, depth + 1)
            return []

        out = []
        for st in ast.walk(self.fn.node):
            if isinstance(st, (ast.For, ast.comprehension)) and isinstance(st.target, ast.Name) and st.target.id == e.id:
                out += lits(st.iter)
            if isinstance(st, ast.Assign) and len(st.targets) == 1 and isinstance(st.targets[0], ast.Name) and st.targets[0].id == e.id and isinstance(st.value, ast.Constant) and isinstance(st.value.value, str):
                out.append(st.value.value)
        return out

    def _iter_elems_for_copy(self, vals):
        """Elements of a shallow copy/iteration of vals (set(x), list(x), zip(x, ...), sorted(x))."""
        out = set()
        for v in vals:
            k = v[0]
            if k == "cont":
                out |= set(v[1])
            elif k == "in":
                # iterating a stored set yields IDs; iterating a stored dict yields keys -> scalars,
                # but list(d.values()) goes through the method path. Be conservative for nested dicts.
                pass
            elif k in ("obj", "elem"):
                out.add(("elem", v[1]))
        return out

    def _shallow_copy(self, vals):
        out = set()
        for v in vals:
            k = v[0]
            if k == "tab":
                out.add(("cont", frozenset([("in", v[1], v[2], 1)])))
            elif k == "in":
                out.add(("cont", frozenset(self.values_of_in(v))))
            elif k == "cont":
                out.add(v)
            elif k in ("obj", "elem"):
                out.add(("cont", frozenset([("elem", v[1])])))
            elif k == "uid":
                pass  # a copied counter is a fresh counter
            elif k == "net":
                out.add(("net", ("new", 0, 0), v[2]))
        return frozenset(out)

    def construct(self, ci: ClassInfo, args, kwvals, node, env):
        if ci.name in CORE_CLASSES:
            new = ("net", ("new", node.lineno, node.col_offset), ci.name)
            # the constructor reads incoming_data through to_<class>(data, create_using=self)
            init = self.repo.find_method(ci, "__init__")
            if init is not None and (args or kwvals):
                self.apply_call(init, ci.name, [frozenset([new])] + list(args), kwvals, node, env)
            return frozenset([new])
        if ci.name in VIEW_KIND_OF_CLASS:
            out = set()
            for v in (args[0] if args else ()):
                if v[0] in ("net", "obj"):
                    out.add(("view", v[1], VIEW_KIND_OF_CLASS[ci.name]))
            if not out:
                out.add(("view", ("new", node.lineno, node.col_offset), VIEW_KIND_OF_CLASS[ci.name]))
            return frozenset(out)
        if any(c.name == "IDStat" for c in self.repo.mro(ci)):
            out = set()
            for v in (args[0] if args else ()):
                if v[0] in ("net", "obj"):
                    out.add(("stat", v[1]))
            return frozenset(out)
        if any(c.name == "dict" or b == "dict" for c in self.repo.mro(ci) for b in c.base_exprs):
            return frozenset([("cont", frozenset())])
        return frozenset()

    def external_call(self, path, args, kwvals, node, env):
        base = path.split(".")[-1]
        if path in ("copy.deepcopy",):
            return frozenset([("cont", frozenset())])
        if path in ("copy.copy",):
            return self._shallow_copy(args[0] if args else frozenset())
        if path.startswith("itertools.") or path.startswith("collections."):
            elems = set()
            for a in args:
                elems |= self._iter_elems_for_copy(a)
                for v in a:
                    if v[0] == "cont":
                        for e in v[1]:
                            if e[0] == "cont":
                                elems |= set(e[1])
            return frozenset([("cont", frozenset(elems))])
        if path.startswith("functools.reduce") or base == "reduce":
            elems = set()
            for a in args[1:2]:
                elems |= self._iter_elems_for_copy(a)
            return frozenset(elems)
        return frozenset()

    def bind(self, callee: FunctionInfo, args, kwvals):
        a = callee.node.args
        names = [x.arg for x in a.posonlyargs + a.args + a.kwonlyargs]
        npos = len(a.posonlyargs) + len(a.args)
        bound = {}
        extra = frozenset()
        for i, v in enumerate(args):
            if i < npos:
                bound[i] = bound.get(i, frozenset()) | v
            else:
                extra |= v
        for k, v in kwvals.items():
            if k == "**":
                continue
            if k in names:
                j = names.index(k)
                bound[j] = bound.get(j, frozenset()) | v
        if a.vararg and extra:
            bound[len(names)] = extra
        return bound, names

    def const_args(self, callee, node_call, names):
        """Literal bool/None/str arguments (and locals known constant) passed at a call site."""
        consts = {}
        if not isinstance(node_call, ast.Call):
            return ()
        a = callee.node.args
        npos = len(a.posonlyargs) + len(a.args)
        offset = 0
        if callee.cls is not None and isinstance(node_call.func, ast.Attribute):
            offset = 1
        for i, arg in enumerate(node_call.args):
            j = i + offset
            if j < npos and j < len(names):
                c = self._const_of(arg)
                if c is not _NOCONST:
                    consts[names[j]] = c
        for kw in node_call.keywords:
            if kw.arg in names:
                c = self._const_of(kw.value)
                if c is not _NOCONST:
                    consts[kw.arg] = c
        # defaults for flag parameters that were not passed
        defaults = {}
        pos = a.posonlyargs + a.args
        for p, d in zip(pos[len(pos) - len(a.defaults):], a.defaults):
            defaults[p.arg] = d
        for p, d in zip(a.kwonlyargs, a.kw_defaults):
            if d is not None:
                defaults[p.arg] = d
        passed = set(consts)
        for i, arg in enumerate(node_call.args):
            j = i + offset
            if j < len(names):
                passed.add(names[j])
        for kw in node_call.keywords:
            if kw.arg:
                passed.add(kw.arg)
        has_star = any(isinstance(x, ast.Starred) for x in node_call.args) or any(k.arg is None for k in node_call.keywords)
        if not has_star:
            for p, d in defaults.items():
                if p not in passed and isinstance(d, ast.Constant) and isinstance(d.value, bool):
                    consts[p] = d.value
        return tuple(sorted(consts.items(), key=lambda kv: kv[0]))

    def _const_of(self, arg):
        if isinstance(arg, ast.Constant) and (isinstance(arg.value, (bool, str)) or arg.value is None):
            return arg.value
        if isinstance(arg, ast.Name) and arg.id in self.consts:
            return self.consts[arg.id]
        return _NOCONST

    def apply_nested(self, target, args, kwvals, node, env):
        fa = _FunctionAnalysis(self.eng, target, None, {}, {}, self.depth + 1, closure_env=dict(env))
        if self.depth + 1 > self.eng.max_depth:
            return frozenset()
        # parameters of the nested function are bound to the argument values directly
        a = target.node.args
        names = [x.arg for x in a.posonlyargs + a.args + a.kwonlyargs]
        cenv = dict(env)
        for i, nme in enumerate(names):
            cenv[nme] = args[i] if i < len(args) else kwvals.get(nme, frozenset())
        fa.params = names
        fa.fn = target
        try:
            fa.exec_block(target.node.body, cenv)
        except _Terminate:
            pass
        for w in fa.summ.writes:
            self.summ.writes.add(Write(w.origin, w.region, w.kind, w.fn, w.line, w.text, ((self.fn.qualname, node.lineno),) + w.chain))
        self.summ.stores |= fa.summ.stores
        return frozenset(fa.summ.returns)

    def apply_call(self, callee: FunctionInfo, self_ctx, args, kwvals, node, env):
        """Apply the summary of callee at this call site. args[0] is the receiver for methods."""
        bound, names = self.bind(callee, args, kwvals)
        consts = self.const_args(callee, node, names) if isinstance(node, ast.Call) else ()
        frozen = []
        for j, vals in bound.items():
            if j == 0 and callee.cls is not None and callee.cls.name in CORE_CLASSES:
                # receiver: class comes through self_ctx; only the frozen flag is needed
                for v in vals:
                    if v[0] in ("net", "obj") and v[1][0] == "p" and v[1][1] in self.frozen:
                        frozen.append((j, self_ctx or self.frozen[v[1][1]], True))
                continue
            classes = {v[2] for v in vals if v[0] == "net" and v[2]}
            generic = any(v[0] in ("obj",) or (v[0] == "net" and not v[2]) for v in vals)
            isfrozen = any(v[0] in ("net", "obj") and v[1][0] == "p" and v[1][1] in self.frozen for v in vals)
            if len(classes) == 1 and not generic:
                frozen.append((j, next(iter(classes)), isfrozen))
            elif isfrozen:
                for v in vals:
                    if v[0] in ("net", "obj") and v[1][0] == "p" and v[1][1] in self.frozen:
                        frozen.append((j, self.frozen[v[1][1]], True))
        if self_ctx is None and callee.cls is not None and callee.cls.name in CORE_CLASSES:
            self_ctx = callee.cls.name
        summ = self.eng.summarize(callee, self_ctx, consts, tuple(frozen), self.depth + 1)
        self.summ.calls.add(callee.fq)
        site = (self.fn.qualname, getattr(node, "lineno", 0))
        for w in summ.writes:
            if w.origin[0] != "p":
                continue
            j = w.origin[1]
            for v in bound.get(j, ()):
                self._transfer_write(w, v, node, site)
        # stores: src param stored by reference into dst param
        for (dst, region, src, line, fq) in summ.stores:
            if dst[0] != "p":
                continue
            for dv in bound.get(dst[1], ()):
                for sv in self.subst(frozenset([src]), bound, node):
                    if dv[0] in ("net", "obj") and self._is_aliasing(sv):
                        self.summ.stores.add((dv[1], region, sv, getattr(node, "lineno", 0), fq))
        return self.subst(summ.returns, bound, node)

    def _transfer_write(self, w: Write, v, node, site):
        k = v[0]
        chain = (site,) + w.chain
        def rec(origin, region, kind):
            self.summ.writes.add(Write(origin, region, kind, w.fn, w.line, w.text, chain))
        if k in ("net", "obj"):
            if w.region == DIRECT:
                rec(v[1], NETATTR if k == "net" else DIRECT, w.kind)
            elif w.region == ELEM:
                rec(v[1], NETATTR if k == "net" else ELEM, "inner")
            elif w.region in ("ID", "BI", "IDATTR", "BIATTR"):
                if k == "obj":
                    rec(v[1], w.region, w.kind)
            else:
                rec(v[1], w.region, w.kind)
        elif k == "view":
            reg = w.region
            if reg in ("ID", "BI", "IDATTR", "BIATTR"):
                reg = self.view_region(v[2], reg)
                if reg in ("ID", "BI"):
                    for r in (NODE, EDGE):
                        rec(v[1], r, w.kind)
                    return
                if reg in ("IDATTR", "BIATTR"):
                    for r in (NATTR, EATTR):
                        rec(v[1], r, w.kind)
                    return
            if reg in (DIRECT, ELEM):
                if reg == ELEM:
                    rec(v[1], self.view_region(v[2], "IDATTR") if v[2] else NATTR, "inner")
                return
            rec(v[1], reg, w.kind)
        elif k == "stat":
            if w.region not in (DIRECT, ELEM, "ID", "BI", "IDATTR", "BIATTR"):
                rec(v[1], w.region, w.kind)
        elif k == "tab":
            if w.region == DIRECT:
                rec(v[1], v[2], w.kind)
            elif w.region == ELEM:
                rec(v[1], v[2], "inner")
        elif k == "in":
            if w.region in (DIRECT, ELEM):
                rec(v[1], v[2], "inner")
        elif k == "elem":
            if w.region in (DIRECT, ELEM):
                rec(v[1], ELEM, "inner")
        elif k == "cont":
            if w.region == ELEM:
                for e in v[1]:
                    if e[0] in ("in", "tab"):
                        rec(e[1], e[2], "inner")
                    elif e[0] in ("elem", "obj"):
                        rec(e[1], ELEM, "inner")
                    elif e[0] == "net":
                        rec(e[1], NETATTR, "inner")
        elif k == "uid":
            pass

    def subst(self, vals, bound, node):
        """Instantiate callee-relative abstract values at a call site."""
        out = set()
        for v in vals:
            k = v[0]
            if k == "cont":
                out.add(("cont", frozenset(self.subst(v[1], bound, node))))
                continue
            if k in ("lambda", "classof"):
                continue
            o = v[1] if len(v) > 1 else None
            if not (isinstance(o, tuple) and o and o[0] == "p"):
                if isinstance(o, tuple) and o and o[0] == "new":
                    # fresh per call site
                    o2 = ("new", getattr(node, "lineno", 0), getattr(node, "col_offset", 0))
                    out.add((k, o2) + tuple(v[2:]))
                else:
                    out.add(v)
                continue
            for a in bound.get(o[1], ()):
                out |= self._subst_one(v, a)
        return frozenset(out)

    def _subst_one(self, tmpl, a):
        k = tmpl[0]
        ak = a[0]
        out = set()
        if ak == "cont":
            if k == "obj":
                out.add(a)
            elif k == "elem":
                out |= set(a[1])
                for e in a[1]:
                    if e[0] == "cont":
                        out |= set(e[1])
            return out
        ao = a[1]
        if k == "obj":
            out.add(a)
        elif k == "elem":
            if ak == "net":
                out.add(("in", ao, NETATTR, 1))
            elif ak == "tab":
                out.add(("in", ao, a[2], 1))
            elif ak == "in":
                out |= set(self.values_of_in(a))
            elif ak == "view":
                out.add(("in", ao, self.view_region(a[2], "IDATTR") if a[2] else NATTR, 1))
            elif ak in ("obj", "elem"):
                out.add(("elem", ao))
        elif k == "net":
            if ak in ("net", "obj", "view", "stat"):
                out.add(("net", ao, tmpl[2] if ak != "net" else (a[2] or tmpl[2])) if ak != "obj" else ("obj", ao))
        elif k in ("tab", "in"):
            reg = tmpl[2]
            if ak == "view" and reg in ("ID", "BI", "IDATTR", "BIATTR"):
                reg = self.view_region(a[2], reg)
            if ak in ("net", "obj", "view", "stat"):
                out.add((k, ao, reg) + tuple(tmpl[3:]))
            elif ak == "tab" and reg in (DIRECT, ELEM):
                out.add(("in", ao, a[2], 1))
            elif ak == "in" and reg in (DIRECT, ELEM):
                out |= set(self.values_of_in(a))
        elif k == "uid":
            if ak in ("net", "obj", "view", "stat"):
                out.add(("uid", ao))
        elif k == "view":
            if ak in ("net", "obj", "view", "stat"):
                out.add(("view", ao, tmpl[2] if tmpl[2] else (a[2] if ak == "view" else None)))
        elif k == "stat":
            if ak in ("net", "obj", "view", "stat"):
                out.add(("stat", ao))
        return out

    # ------------------------------------------------------------------ attribute calls
    def call_attr(self, f: ast.Attribute, node, argvals, kwvals, env):
        args = self._plain_args(argvals)
        m = f.attr
        out = set()
        raises = False
        if isinstance(f.value, ast.Name) and f.value.id in ("dict", "set", "list", "defaultdict") and f.value.id not in env and m in MUTATORS and args:
            # dict.clear(x) / set.add(s, v): the method applied to its first argument
            for b in args[0]:
                r = self.container_method(b, m, node, args[1:])
                if r:
                    out |= set(r)
            return frozenset(out), False
        # module-qualified function?  (np.x, nx.x, xgi.x, convert.x, random.x ...)
        if isinstance(f.value, (ast.Name, ast.Attribute)):
            root = f.value
            while isinstance(root, ast.Attribute):
                root = root.value
            if isinstance(root, ast.Name) and root.id not in env:
                target = self.repo.resolve_dotted(self.fn, self.fn.module, f)
                if isinstance(target, FunctionInfo):
                    self.summ.resolved += 1
                    if target.cls is not None:
                        # Class.method(obj, ...) e.g. NodeView.from_view(view)
                        is_cm = any(d == "classmethod" for d in target.decorators())
                        if is_cm:
                            return self.apply_call(target, None, [frozenset()] + args, kwvals, node, env), False
                        return self.apply_call(target, None, args, kwvals, node, env), False
                    return self.apply_call(target, None, args, kwvals, node, env), False
                if isinstance(target, ClassInfo):
                    self.summ.resolved += 1
                    return self.construct(target, args, kwvals, node, env), False
                if isinstance(target, External):
                    return self.external_call(target.path, args, kwvals, node, env), False
                base_res = self.repo.resolve_dotted(self.fn, self.fn.module, f.value)
                if isinstance(base_res, (External, ModuleInfo)):
                    return frozenset(), False
        recv = self.eval(f.value, env)
        if not recv:
            return frozenset(), False
        if m == "__class__":
            out = set()
            for b in recv:
                if b[0] in ("net", "obj"):
                    cn = b[2] if b[0] == "net" else None
                    out.add(("net", ("new", node.lineno, node.col_offset), cn))
            return frozenset(out), False
        all_raise = True
        for b in recv:
            r, rz = self.method_on(b, m, f, node, args, kwvals, env)
            out |= r
            all_raise = all_raise and rz
        return frozenset(out), (all_raise and bool(recv))

    def method_on(self, b, m, f, node, args, kwvals, env):
        """Call method m on abstract receiver b. Returns (values, definitely_raises)."""
        k = b[0]
        out = set()
        if k == "classof":
            # self.__class__.from_view(...) etc.
            for cname, ci in self.eng.view_classes.items():
                fm = self.repo.find_method(ci, m)
                if fm is not None:
                    return self.apply_call(fm, cname, [frozenset()] + args, kwvals, node, env), False
            return frozenset(), False
        if k == "net" or k == "obj":
            o = b[1]
            cls_names = [b[2]] if (k == "net" and b[2]) else list(CORE_CLASSES)
            frozen_cls = self.frozen.get(o[1]) if o[0] == "p" else None
            if frozen_cls:
                cls_names = [frozen_cls]
                if m in self.eng.frozen_names(frozen_cls):
                    self.summ.frozen_calls.add((m, getattr(node, "lineno", 0)))
                    return frozenset(), True
            found = False
            seen = set()
            for cn in cls_names:
                fm = self.repo.find_method(self.eng.core[cn], m)
                if fm is not None and not fm.is_property():
                    found = True
                    kk = (fm.fq, cn)
                    if kk in seen:
                        continue
                    seen.add(kk)
                    self.summ.resolved += 1
                    out |= self.apply_call(fm, cn, [frozenset([b])] + args, kwvals, node, env)
            if k == "obj":
                # the parameter may also be a view, a stat or a plain container
                for fm, cname in self._view_method(None, m):
                    found = True
                    out |= self.apply_call(fm, cname, [frozenset([b])] + args, kwvals, node, env)
                for sc in self.eng.stat_classes:
                    fm = sc.methods.get(m)
                    if fm is not None:
                        found = True
                        out |= self.apply_call(fm, None, [frozenset([b])] + args, kwvals, node, env)
                c = self.container_method(b, m, node, args)
                if c is not None:
                    found = True
                    out |= c
            if not found:
                if k == "net" or m not in MUTATORS:
                    # H.<stat>() through __getattr__
                    self._apply_stat_effect(o, node)
                    out.add(("cont", frozenset()))
            return frozenset(out), False
        if k == "view":
            o, kind = b[1], b[2]
            ms = self._view_method(kind, m)
            if ms:
                for fm, cname in ms:
                    self.summ.resolved += 1
                    out |= self.apply_call(fm, cname, [frozenset([b])] + args, kwvals, node, env)
                return frozenset(out), False
            if m in ("items", "values", "get"):
                reg = self.view_region(kind, "IDATTR") if kind else NATTR
                if m == "get":
                    return frozenset([("in", o, reg, 1)]), False
                return frozenset([("cont", frozenset([("in", o, reg, 1)]))]), False
            if m in ("keys", "isdisjoint", "__len__", "__iter__", "__contains__"):
                return frozenset([("cont", frozenset())]), False
            # stat called directly: H.nodes.degree(order=2)
            self._apply_stat_effect(o, node)
            return frozenset([("stat", o)]), False
        if k == "stat":
            self._apply_stat_effect(b[1], node)
            if m in ("__call__",):
                return frozenset([b]), False
            return frozenset([("cont", frozenset())]), False
        c = self.container_method(b, m, node, args)
        if c is not None:
            return c, False
        return frozenset(), False

    def _apply_stat_effect(self, origin, node):
        site = (self.fn.qualname, getattr(node, "lineno", 0))
        for w in self.eng.stat_effect():
            self.summ.writes.add(Write(origin, w.region, w.kind, w.fn, w.line, w.text, (site,) + w.chain))

    def container_method(self, b, m, node, args):
        """Semantics of dict/set/list methods on table / inner / fresh-container values."""
        k = b[0]
        if k not in ("tab", "in", "cont", "obj", "elem", "uid"):
            return None
        if k == "uid":
            return frozenset()
        out = set()
        if m in MUTATORS:
            if k in ("tab", "in", "obj", "elem"):
                self.write_value(b, node, keylevel=(k in ("tab", "obj") and m in KEY_MUTATORS))
                # values stored by reference through add/update/append/setdefault
                if k in ("tab", "in") and m in ("add", "update", "append", "extend", "setdefault", "insert", "__setitem__"):
                    for a in args:
                        for v in a:
                            if self._is_aliasing(v):
                                self.summ.stores.add((b[1], b[2], v, getattr(node, "lineno", 0), self.fn.fq))
            elif k == "cont":
                # mutation of a fresh container: may add aliasing elements
                if m in ("add", "append", "extend", "update", "insert", "setdefault"):
                    pass
            if m in ("pop", "setdefault", "popitem"):
                out |= self.elements(frozenset([b])) if k != "tab" else {("in", b[1], b[2], 1)}
            return frozenset(out)
        if m in ("values", "items"):
            if k == "tab":
                return frozenset([("cont", frozenset([("in", b[1], b[2], 1)]))])
            if k == "in":
                return frozenset([("cont", frozenset(self.values_of_in(b)))])
            if k == "cont":
                return frozenset([b])
            return frozenset([("cont", frozenset([("elem", b[1])]))])
        if m == "get" or m == "__getitem__":
            if k == "tab":
                return frozenset([("in", b[1], b[2], 1)])
            if k == "in":
                return frozenset(self.values_of_in(b))
            if k == "cont":
                return frozenset(b[1])
            return frozenset([("elem", b[1])])
        if m == "copy":
            return self._shallow_copy(frozenset([b]))
        if m in FRESH_SET_METHODS:
            elems = set(b[1]) if k == "cont" else set()
            return frozenset([("cont", frozenset(elems))])
        if m in ("keys", "__len__", "__contains__", "__iter__"):
            return frozenset([("cont", frozenset())])
        return None if k in ("obj", "elem") else frozenset()


def deeper(v):
    return ("in", v[1], v[2], min(v[3] + 1, 3))


DIRECTED_OF_CLASS = {
    "Hypergraph": False, "SimplicialComplex": False, "DiHypergraph": True,
    "NodeView": False, "EdgeView": False, "DiNodeView": True, "DiEdgeView": True,
}


class _NoConst:
    pass


_NOCONST = _NoConst()
