"""Statement-level control-flow graph for one function, with reachability and dominance queries.

Nodes are the statements of the function (compound statements are represented by their header:
the test of an if/while, the iterator of a for, the `try`/`with` entry) plus ENTRY, EXIT (normal
return or fall-through) and RAISE (explicit raise that leaves the function). Edges out of an
``if``/``while`` header are labelled 'T'/'F'; the edge that enters a loop body is 'T' and the one
that leaves the loop is 'F'. Statements inside a ``try`` body get an extra 'X' edge to every
handler of that try (any of them may raise).
"""
from __future__ import annotations

import ast

ENTRY, EXIT, RAISE = "ENTRY", "EXIT", "RAISE"


class CFG:
    def __init__(self, fn_node):
        self.fn = fn_node
        self.succ: dict = {ENTRY: set(), EXIT: set(), RAISE: set()}
        self.label: dict = {}
        self.nodes: list = []
        self.parent_loop: dict = {}
        self._build()

    # ------------------------------------------------------------------ construction
    def _add_node(self, st):
        if st not in self.succ:
            self.succ[st] = set()
            self.nodes.append(st)

    def _edge(self, a, b, label=None):
        self.succ.setdefault(a, set()).add(b)
        if label is not None:
            self.label[(a, b)] = label

    def _build(self):
        # frontier: list of (node, label) whose next statement is the one being added
        frontier = self._block(self.fn.body, [(ENTRY, None)], loop=None, handlers=[])
        for n, lab in frontier:
            self._edge(n, EXIT, lab)

    def _connect(self, frontier, st):
        for n, lab in frontier:
            self._edge(n, st, lab)

    def _block(self, stmts, frontier, loop, handlers):
        for st in stmts:
            if not frontier:
                break  # unreachable code
            frontier = self._stmt(st, frontier, loop, handlers)
        return frontier

    def _stmt(self, st, frontier, loop, handlers):
        self._add_node(st)
        self._connect(frontier, st)
        for h in handlers:
            self._edge(st, h, "X")
        if isinstance(st, ast.If):
            f1 = self._block(st.body, [(st, "T")], loop, handlers)
            f2 = self._block(st.orelse, [(st, "F")], loop, handlers) if st.orelse else [(st, "F")]
            return f1 + f2
        if isinstance(st, (ast.For, ast.AsyncFor, ast.While)):
            info = {"breaks": [], "header": st}
            body_f = self._block(st.body, [(st, "T")], info, handlers)
            for n, lab in body_f:
                self._edge(n, st, lab)  # back edge
            infinite = isinstance(st, ast.While) and isinstance(st.test, ast.Constant) and st.test.value is True
            out = [] if infinite else [(st, "F")]
            if st.orelse and out:
                out = self._block(st.orelse, out, loop, handlers)
            return out + info["breaks"]
        if isinstance(st, (ast.With, ast.AsyncWith)):
            return self._block(st.body, [(st, None)], loop, handlers)
        if isinstance(st, ast.Try):
            hnodes = []
            for h in st.handlers:
                self._add_node(h)
                hnodes.append(h)
            body_f = self._block(st.body, [(st, None)], loop, handlers + hnodes)
            if st.orelse:
                body_f = self._block(st.orelse, body_f, loop, handlers)
            out = list(body_f)
            for h in st.handlers:
                out += self._block(h.body, [(h, None)], loop, handlers)
            if st.finalbody:
                out = self._block(st.finalbody, out, loop, handlers)
            return out
        if isinstance(st, ast.Return):
            self._edge(st, EXIT)
            return []
        if isinstance(st, ast.Raise):
            if handlers:
                for h in handlers:
                    self._edge(st, h, "X")
            else:
                self._edge(st, RAISE)
            return []
        if isinstance(st, ast.Break):
            if loop is not None:
                loop["breaks"].append((st, None))
            return []
        if isinstance(st, ast.Continue):
            if loop is not None:
                self._edge(st, loop["header"])
            return []
        if isinstance(st, ast.Match):
            out = []
            for c in st.cases:
                out += self._block(c.body, [(st, None)], loop, handlers)
            return out + [(st, None)]
        return [(st, None)]

    # ------------------------------------------------------------------ queries
    def reachable(self, src, avoid=None, edge_ok=None, include_src=False):
        """Nodes reachable from src by paths whose intermediate nodes do not satisfy `avoid`."""
        seen = set()
        stack = [src]
        first = True
        while stack:
            n = stack.pop()
            for m in self.succ.get(n, ()):
                if edge_ok is not None and not edge_ok(n, m, self.label.get((n, m))):
                    continue
                if m in seen:
                    continue
                seen.add(m)
                if avoid is not None and m not in (EXIT, RAISE) and avoid(m):
                    continue
                stack.append(m)
        if include_src:
            seen.add(src)
        return seen

    def all_paths_pass(self, src, dst, pred, edge_ok=None):
        """True iff every path src ->* dst contains (strictly between or at dst excluded) a node satisfying pred."""
        return dst not in self.reachable(src, avoid=pred, edge_ok=edge_ok)

    def preds(self):
        p = {n: set() for n in self.succ}
        for a, bs in self.succ.items():
            for b in bs:
                p.setdefault(b, set()).add(a)
        return p

    def dominators(self):
        nodes = [ENTRY] + self.nodes + [EXIT, RAISE]
        allset = set(nodes)
        dom = {n: set(allset) for n in nodes}
        dom[ENTRY] = {ENTRY}
        preds = self.preds()
        changed = True
        while changed:
            changed = False
            for n in nodes:
                if n == ENTRY:
                    continue
                ps = [dom[p] for p in preds.get(n, ()) if p in dom]
                new = set.intersection(*ps) if ps else set()
                new = new | {n}
                if new != dom[n]:
                    dom[n] = new
                    changed = True
        return dom

    def dominated_by(self, node, pred):
        """True iff every path ENTRY ->* node passes through a node (other than node) satisfying pred."""
        return node not in self.reachable(ENTRY, avoid=lambda n: n is not node and pred(n))

    def stmts(self):
        return list(self.nodes)


def own_statements(fn_node):
    """All statements of a function, excluding those of nested function/class definitions."""
    out = []

    def rec(stmts):
        for st in stmts:
            out.append(st)
            if isinstance(st, (ast.FunctionDef, ast.AsyncFunctionDef, ast.ClassDef)):
                continue
            for field in ("body", "orelse", "finalbody"):
                sub = getattr(st, field, None)
                if isinstance(sub, list):
                    rec(sub)
            if isinstance(st, ast.Try):
                for h in st.handlers:
                    rec(h.body)
            if isinstance(st, ast.Match):
                for c in st.cases:
                    rec(c.body)

    rec(fn_node.body)
    return out


def own_nodes(st):
    """All expression nodes belonging to statement header st (not to nested statements)."""
    out = []
    skip_fields = {"body", "orelse", "finalbody", "handlers", "cases"}

    def rec(n):
        for name, val in ast.iter_fields(n):
            if isinstance(n, ast.stmt) and name in skip_fields:
                continue
            if isinstance(val, ast.AST):
                out.append(val)
                if not isinstance(val, (ast.Lambda,)):
                    rec(val)
            elif isinstance(val, list):
                for v in val:
                    if isinstance(v, ast.AST):
                        out.append(v)
                        rec(v)

    rec(st)
    return out
