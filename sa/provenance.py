"""Small symbolic provenance evaluator: which expressions over a function's parameters can a value be?

`resolve(fn_node, expr)` expands local names by their assignments (flow-insensitively, with the tests of the enclosing
`if`s as guards), calls of nested / same-module helper functions by their return expressions with the parameters
substituted, and reads of a memo table `C[k]` by the values stored into `C`. The result is a list of alternatives
`Alt(expr, guards)`: `expr` an AST over the outermost function's parameters and loop variables, `guards` a list of
(test AST, truth value) that hold when the alternative is taken.

`memo_tables(fn_node)` finds the memoisation idiom - a table that outlives one call of a function F (closure variable of an
enclosing function, module global or attribute), written `C[k] = v` and read back `C[k]` in F - and reports the parameters of
F that the stored value depends on but the key does not.
"""
from __future__ import annotations

import ast
import copy
from dataclasses import dataclass, field

FUNC = (ast.FunctionDef, ast.AsyncFunctionDef)


@dataclass
class Alt:
    expr: ast.AST
    guards: list = field(default_factory=list)

    def text(self):
        return " ".join(ast.unparse(self.expr).split())


def _own_stmts_with_guards(fn_node):
    """[(stmt, guards)] for statements of fn_node (nested defs excluded), guards = enclosing if-tests."""
    out = []

    def rec(stmts, guards):
        for st in stmts:
            out.append((st, guards))
            if isinstance(st, FUNC + (ast.ClassDef,)):
                continue
            if isinstance(st, ast.If):
                rec(st.body, guards + [(st.test, True)])
                rec(st.orelse, guards + [(st.test, False)])
                continue
            for f in ("body", "orelse", "finalbody"):
                sub = getattr(st, f, None)
                if isinstance(sub, list):
                    rec(sub, guards)
            for h in getattr(st, "handlers", []) or []:
                rec(h.body, guards)

    rec(fn_node.body, [])
    return out


def _params(fn_node):
    a = fn_node.args
    return [x.arg for x in a.posonlyargs + a.args + a.kwonlyargs]


class _Subst(ast.NodeTransformer):
    def __init__(self, mapping):
        self.mapping = mapping

    def visit_Name(self, node):
        if isinstance(node.ctx, ast.Load) and node.id in self.mapping:
            return copy.deepcopy(self.mapping[node.id])
        return node


def subst(expr, mapping):
    return _Subst(mapping).visit(copy.deepcopy(expr)) if mapping else expr


class Resolver:
    def __init__(self, outer_fn, module_functions=None, limit=64):
        self.outer = outer_fn
        self.module_functions = module_functions or {}
        self.limit = limit

    def nested_defs(self, fn_node):
        return {s.name: s for s, _ in _own_stmts_with_guards(fn_node) if isinstance(s, FUNC)}

    def resolve(self, fn_node, expr, mapping=None, depth=0, scopes=None):
        """Alternatives for expr evaluated inside fn_node; mapping: parameter name -> expression (already in outer terms)."""
        mapping = mapping or {}
        scopes = scopes or [fn_node]
        if depth > 6:
            return [Alt(subst(expr, mapping))]
        stmts = _own_stmts_with_guards(fn_node)
        if isinstance(expr, ast.Name):
            if expr.id in mapping:
                return [Alt(copy.deepcopy(mapping[expr.id]))]
            # n, attr = helper(...): the i-th component of what the helper returns
            for s, g in stmts:
                if isinstance(s, ast.Assign) and len(s.targets) == 1 and isinstance(s.targets[0], ast.Tuple) and isinstance(s.value, ast.Call) and isinstance(s.value.func, ast.Name) and not s.value.keywords:
                    names = [t.id if isinstance(t, ast.Name) else None for t in s.targets[0].elts]
                    if expr.id in names and expr.id not in _params(fn_node):
                        pos = names.index(expr.id)
                        callee = None
                        for sc in reversed(scopes):
                            callee = self.nested_defs(sc).get(s.value.func.id) or callee
                        callee = callee or self.module_functions.get(s.value.func.id)
                        if callee is not None:
                            out = []
                            arg_alts = [self.resolve(fn_node, a, mapping, depth + 1, scopes) for a in s.value.args]
                            combos = [[]]
                            for alts in arg_alts:
                                combos = [c + [a] for c in combos for a in alts][: self.limit]
                            for combo in combos:
                                m2 = {p: a.expr for p, a in zip(_params(callee), combo)}
                                for rs, rg in _own_stmts_with_guards(callee):
                                    if isinstance(rs, ast.Return) and isinstance(rs.value, ast.Tuple) and pos < len(rs.value.elts):
                                        for r in self.resolve(callee, rs.value.elts[pos], m2, depth + 1, scopes + [callee]):
                                            out.append(Alt(r.expr, [(subst(t, m2), b) for t, b in rg] + r.guards))
                            if out:
                                return out[: self.limit]
            out = []
            for s, g in stmts:
                if isinstance(s, ast.Assign) and len(s.targets) == 1 and isinstance(s.targets[0], ast.Tuple) and not isinstance(s.value, ast.Call) and expr.id not in _params(fn_node):
                    names = [t.id if isinstance(t, ast.Name) else None for t in s.targets[0].elts]
                    if expr.id in names:
                        pos = names.index(expr.id)
                        for a in self.resolve(fn_node, s.value, mapping, depth + 1, scopes):
                            if isinstance(a.expr, ast.Tuple) and pos < len(a.expr.elts):
                                out.append(Alt(a.expr.elts[pos], [(subst(t, mapping), b) for t, b in g] + a.guards))
            if out:
                return out[: self.limit]
            defs = [(s, g) for s, g in stmts if isinstance(s, ast.Assign) and any(isinstance(t, ast.Name) and t.id == expr.id for t in s.targets)]
            if defs and expr.id not in _params(fn_node):
                out = []
                for s, g in defs:
                    for a in self.resolve(fn_node, s.value, mapping, depth + 1, scopes):
                        out.append(Alt(a.expr, [(subst(t, mapping), b) for t, b in g] + a.guards))
                return out[: self.limit]
            return [Alt(expr)]
        if isinstance(expr, ast.Tuple) and depth > 0:
            # keep the tuple shape; resolve the components (first alternative combination only keeps this small)
            combos = [[]]
            for e in expr.elts:
                alts = self.resolve(fn_node, e, mapping, depth + 1, scopes)
                combos = [c + [a] for c in combos for a in alts][: self.limit]
            return [Alt(ast.Tuple(elts=[a.expr for a in c], ctx=ast.Load()), [g for a in c for g in a.guards]) for c in combos]
        if isinstance(expr, ast.IfExp):
            out = []
            for a in self.resolve(fn_node, expr.body, mapping, depth + 1, scopes):
                out.append(Alt(a.expr, [(subst(expr.test, mapping), True)] + a.guards))
            for a in self.resolve(fn_node, expr.orelse, mapping, depth + 1, scopes):
                out.append(Alt(a.expr, [(subst(expr.test, mapping), False)] + a.guards))
            return out
        if isinstance(expr, ast.Call) and isinstance(expr.func, ast.Name) and expr.func.id not in mapping:
            # f = partial(g, a, k=v); f(x)  ==  g(a, x, k=v)
            for sc in reversed(scopes):
                pd = [s for s, _ in _own_stmts_with_guards(sc) if isinstance(s, ast.Assign) and any(isinstance(t, ast.Name) and t.id == expr.func.id for t in s.targets)]
                if len(pd) == 1 and isinstance(pd[0].value, ast.Call) and getattr(pd[0].value.func, "id", getattr(pd[0].value.func, "attr", None)) == "partial" and pd[0].value.args and isinstance(pd[0].value.args[0], ast.Name):
                    pc = pd[0].value
                    bound = self.resolve(sc, ast.Call(func=pc.args[0], args=list(pc.args[1:]) + [ast.Name(id=f"__late{i}", ctx=ast.Load()) for i in range(len(expr.args))], keywords=list(pc.keywords) + [ast.keyword(arg=k.arg, value=ast.Name(id=f"__latek{i}", ctx=ast.Load())) for i, k in enumerate(expr.keywords)]), {} if sc is not fn_node else mapping, depth + 1, scopes[: scopes.index(sc) + 1])
                    late = {f"__late{i}": a for i, a in enumerate(expr.args)}
                    late.update({f"__latek{i}": k.value for i, k in enumerate(expr.keywords)})
                    out = []
                    for b in bound:
                        for a in self.resolve(fn_node, subst(b.expr, late), mapping, depth + 1, scopes):
                            out.append(Alt(a.expr, [(subst(t, late), br) for t, br in b.guards] + a.guards))
                    return out[: self.limit]
                if pd:
                    break
        if isinstance(expr, ast.Call) and isinstance(expr.func, ast.Name) and expr.keywords and all(k.arg is not None for k in expr.keywords):
            # keywords naming parameters of a resolvable helper: rewrite positionally
            callee = None
            for sc in reversed(scopes):
                callee = self.nested_defs(sc).get(expr.func.id) or callee
            callee = callee or self.module_functions.get(expr.func.id)
            if callee is not None and expr.func.id not in mapping:
                ps = _params(callee)
                rest = ps[len(expr.args):]
                kw = {k.arg: k.value for k in expr.keywords}
                if set(kw) <= set(rest) and not any(isinstance(a, ast.Starred) for a in expr.args):
                    need = rest[: max(rest.index(k) for k in kw) + 1]
                    dflt = dict(zip(reversed(ps[: len(callee.args.posonlyargs) + len(callee.args.args)]), reversed(callee.args.defaults)))
                    dflt.update({a.arg: d for a, d in zip(callee.args.kwonlyargs, callee.args.kw_defaults) if d is not None})
                    if all(p in kw or p in dflt for p in need):
                        expr = ast.Call(func=expr.func, args=list(expr.args) + [kw[p] if p in kw else dflt[p] for p in need], keywords=[])
        if isinstance(expr, ast.Call) and isinstance(expr.func, ast.Name) and not expr.keywords:
            callee = None
            for sc in reversed(scopes):
                callee = self.nested_defs(sc).get(expr.func.id) or callee
            callee = callee or self.module_functions.get(expr.func.id)
            if callee is not None and expr.func.id not in mapping and len(expr.args) <= len(_params(callee)):
                # resolve the arguments in the caller, then the callee's returns under each binding
                arg_alts = [self.resolve(fn_node, a, mapping, depth + 1, scopes) for a in expr.args]
                out = []
                combos = [[]]
                for alts in arg_alts:
                    combos = [c + [a] for c in combos for a in alts][: self.limit]
                for combo in combos:
                    m2 = {p: a.expr for p, a in zip(_params(callee), combo)}
                    g0 = [g for a in combo for g in a.guards]
                    for s, g in _own_stmts_with_guards(callee):
                        if isinstance(s, ast.Return) and s.value is not None:
                            for r in self.resolve(callee, s.value, m2, depth + 1, scopes + [callee]):
                                out.append(Alt(r.expr, g0 + [(subst(t, m2), b) for t, b in g] + r.guards))
                return out[: self.limit]
            # a cast-like call of a parameter: resolve the single argument
            if len(expr.args) == 1:
                out = []
                f = subst(expr.func, mapping)
                for a in self.resolve(fn_node, expr.args[0], mapping, depth + 1, scopes):
                    out.append(Alt(ast.Call(func=f, args=[a.expr], keywords=[]), a.guards))
                return out
        if isinstance(expr, ast.Subscript) and isinstance(expr.value, ast.Name) and expr.value.id not in mapping and isinstance(expr.slice, ast.Constant):
            # record read R["k"] where R is bound to dict literals (possibly one per branch)
            for sc in reversed(scopes):
                lits = [(s, g) for s, g in _own_stmts_with_guards(sc) if isinstance(s, ast.Assign) and any(isinstance(t, ast.Name) and t.id == expr.value.id for t in s.targets) and isinstance(s.value, ast.Dict)]
                if lits:
                    out = []
                    for s, g in lits:
                        for k, v in zip(s.value.keys, s.value.values):
                            if isinstance(k, ast.Constant) and k.value == expr.slice.value:
                                for a in self.resolve(sc, v, mapping if sc is fn_node else {}, depth + 1, scopes):
                                    out.append(Alt(a.expr, [(t, b) for t, b in g] + a.guards))
                    if out:
                        return out
        if isinstance(expr, ast.Subscript) and isinstance(expr.value, ast.Name) and expr.value.id not in mapping:
            # memo read C[k]: the values stored into C in this function
            stores = [(s, g) for s, g in stmts if isinstance(s, ast.Assign) and any(isinstance(t, ast.Subscript) and isinstance(t.value, ast.Name) and t.value.id == expr.value.id for t in s.targets)]
            if stores:
                out = []
                for s, g in stores:
                    for a in self.resolve(fn_node, s.value, mapping, depth + 1, scopes):
                        out.append(Alt(a.expr, a.guards))
                return out
        return [Alt(subst(expr, mapping))]


def memo_tables(fn_node, enclosing_names=()):
    """[(table name, store stmt, missing params)] for memo tables of fn_node whose key omits parameters the value needs."""
    params = set(_params(fn_node)) - {"self", "cls"}
    stmts = _own_stmts_with_guards(fn_node)
    local_defs = {t.id for s, _ in stmts if isinstance(s, ast.Assign) for t in s.targets if isinstance(t, ast.Name)}

    def deps(e, seen=()):
        out = set()
        for n in ast.walk(e):
            if isinstance(n, ast.Name):
                if n.id in params:
                    out.add(n.id)
                elif n.id in local_defs and n.id not in seen:
                    for s, _ in stmts:
                        if isinstance(s, ast.Assign) and any(isinstance(t, ast.Name) and t.id == n.id for t in s.targets):
                            out |= deps(s.value, seen + (n.id,))
        return out

    found = []
    for s, _ in stmts:
        if not isinstance(s, ast.Assign):
            continue
        for t in s.targets:
            if not (isinstance(t, ast.Subscript) and isinstance(t.value, (ast.Name, ast.Attribute))):
                continue
            tab = ast.unparse(t.value)
            if isinstance(t.value, ast.Name) and (t.value.id in local_defs or t.value.id in params):
                continue  # a table created in this call does not outlive it
            # read back in the same function?
            reads = [n for st, _ in stmts for n in ast.walk(st) if isinstance(n, ast.Subscript) and isinstance(n.ctx, ast.Load) and ast.unparse(n.value) == tab and ast.unparse(n.slice) == ast.unparse(t.slice)]
            returned = any(isinstance(st, ast.Return) and st.value is not None and any(r in list(ast.walk(st.value)) for r in reads) for st, _ in stmts)
            if not returned:
                continue
            missing = deps(s.value) - deps(t.slice)
            found.append((tab, s, sorted(missing)))
    return found
