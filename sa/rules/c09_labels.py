"""C09 - Structural measures are invariant under relabelling and insertion order (addressing discipline only).

K1 / K2 / K5  over algorithms/*, linalg/*, stats/*stats.py, convert/graph.py, convert/line_graph.py: a label is never
              used as a position in a positional container, a position never as a label in a label-keyed map, a node
              label never as an edge key.
K-CANON       the Trie that backs the simpliciality measures canonicalises every word: insert and search iterate
              sorted(word) with the same key; if a flag lets callers skip the sort, every call site that sets it passes
              a value that is sorted by construction (sorted(...), or sub-sequences produced by combinations/_powerset of one).
K3            (information) order comparisons / sorts on labels.
"""
from __future__ import annotations

import ast

from ..cfg import own_statements
from ..model import AnalysisError
from ..report import Result, mk_finding
from .common import unparse
from .kind_rules import functions_of, run_kinds

PROP = "C09"


def run(ctx):
    repo = ctx.repo
    res = Result(PROP)
    res.rules = ["K1", "K2", "K5", "K-CANON", "K-ZIP", "K-FACEID", "K-PAIR", "K-ORD", "M-MAP", "K3(info)"]
    res.explanation = (
        "Abstract interpretation of every function of the structural-measure modules over ID / position kinds and the "
        "container shapes built from them (sa/kinds.py): each subscript is checked for a label used as a position or a "
        "position used as a label. Numerical invariance itself is not decided. The Trie canonical-order mechanism "
        "behind the simpliciality measures is checked structurally."
    )
    fns = functions_of(repo, ["xgi.algorithms", "xgi.linalg", "xgi.stats", "xgi.communities"], exact=("xgi.convert.graph", "xgi.convert.line_graph", "xgi.convert.encapsulation_dag", "xgi.utils.trie"))
    fns = [f for f in fns if not (f.cls is not None and f.cls.name in ("IDStat", "MultiIDStat"))]
    eng = run_kinds(ctx, res, PROP, fns, 120, 30, floor_functions=40)
    if not ctx.only:
        check_trie(repo, res)
        # row/column order convention of the matrix builders: callers that use a matrix without its index maps
        # (katz_centrality, the spectral functions) take row i to be the i-th ID of the view
        from . import c12_matrices

        n = 0
        for fn in fns:
            if fn.module.name.startswith("xgi.linalg") and fn.cls is None and "index" in fn.all_params:
                n += 1
                c12_matrices.check_map(repo, eng, res, fn, prop=PROP)
        res.floor("matrix builders with an index option", n, 11)
        check_zip_order(repo, res, fns)
        from .common import pattern_lint, raw_tuple_dedupe_sites

        pattern_lint(res, PROP, "K-FACEID", fns, raw_tuple_dedupe_sites,
                     "def _faces(members):\n    return {c for c in combinations(members, 2)}\n",
                     lambda nd: f"`{unparse(nd, 60)}` uses the tuples produced by a combinations-style enumeration as identities (set elements / dict keys) without making them canonical (frozenset, or sorted); when the enumerated members come from a set, the order inside a tuple is the hash order, so the same face reached twice can appear as (a, b) and (b, a) and is counted or kept twice - the result then depends on labels and insertion order",
                     "raw combination tuples used as identities")
        from .common import oriented_pairs_from_unordered

        pattern_lint(res, PROP, "K-PAIR", fns, oriented_pairs_from_unordered,
                     "def f(H, k):\n    members = H.edges.members(dtype=dict)\n    return [[k[a], k[b]] for e in H.edges for a, b in combinations(members[e], 2)]\n",
                     lambda nd: f"`{unparse(nd, 60)}` records the two elements of a pair drawn with combinations() from a member set in different positions; which of the two comes first is the hash order of the labels, so the recorded orientation (and every statistic of the two columns taken separately) changes under relabelling - enumerate both orientations (permutations) or combine the two symmetrically",
                     "oriented pairs drawn from unordered member sets")
        from .common import ORDER_POSITIVE, describe_order_mismatch, order_mismatch_nodes

        pattern_lint(res, PROP, "K-ORD", fns, order_mismatch_nodes, ORDER_POSITIVE, describe_order_mismatch,
                     "position maps numbering one sequence applied to a sequence listing another")
    return res


def _sorted_iter(fn, word):
    """The for-loops of fn that traverse `word`: returns list of (loop, how) with how in 'sorted' / 'raw' / ('flag', name, expr)."""
    out = []
    for st in own_statements(fn.node):
        if isinstance(st, ast.For):
            it = st.iter
            if isinstance(it, ast.Call) and getattr(it.func, "id", None) == "sorted" and it.args and isinstance(it.args[0], ast.Name) and it.args[0].id == word:
                key = next((unparse(k.value) for k in it.keywords if k.arg == "key"), None)
                out.append((st, "sorted", key))
            elif isinstance(it, ast.IfExp):
                out.append((st, "flag", unparse(it.test)))
            elif isinstance(it, ast.Name) and it.id == word and not any(isinstance(s, ast.Assign) and any(isinstance(t, ast.Name) and t.id == word for t in s.targets) and s.lineno < st.lineno for s in own_statements(fn.node)):
                out.append((st, "raw", None))
            elif isinstance(it, ast.Name):
                # word = sorted(word) earlier?
                defs = [s for s in own_statements(fn.node) if isinstance(s, ast.Assign) and any(isinstance(t, ast.Name) and t.id == it.id for t in s.targets)]
                if defs and all(isinstance(d.value, ast.Call) and getattr(d.value.func, "id", None) == "sorted" for d in defs) and all(not _under_if(fn, d) for d in defs):
                    out.append((st, "sorted", None))
                elif defs:
                    out.append((st, "flag", "conditional sort"))
    return out


def _under_if(fn, stmt):
    for s in ast.walk(fn.node):
        if isinstance(s, ast.If) and any(x is stmt for b in (s.body, s.orelse) for y in b for x in ast.walk(y)):
            return True
    return False


def check_trie(repo, res):
    mi = repo.modules.get("xgi.utils.trie")
    ci = mi.classes.get("Trie") if mi else None
    if ci is None:
        raise AnalysisError("xgi.utils.trie.Trie not found (anchor vanished)")
    flags = {}
    keys = set()
    for mname in ("insert", "search"):
        m = ci.methods.get(mname)
        if m is None:
            raise AnalysisError(f"Trie.{mname} not found (anchor vanished)")
        word = m.params[1]
        loops = _sorted_iter(m, word)
        if not loops:
            raise AnalysisError(f"Trie.{mname}: traversal of the word not found (extractor does not recognise the code)")
        for st, how, key in loops:
            if how == "sorted":
                keys.add(key)
                res.inst("K-CANON", f"Trie.{mname} traverses sorted({word})", True)
            elif how == "raw":
                res.inst("K-CANON", f"Trie.{mname} traverses the word as given", False)
                res.add(mk_finding(PROP, "K-CANON", m, st, f"Trie.{mname} traverses the word in the order it is given instead of a canonical (sorted) order; lookups then depend on set iteration order, i.e. on the labels", role=mname))
            else:
                flag_params = [p for p in m.params[2:] if p in (key or "") or True]
                flags[mname] = (m, [p for p in m.params[2:]])
                res.inst("K-CANON", f"Trie.{mname} sorts unless a flag says the word is already sorted", True)
    ok = len(keys) <= 1
    res.inst("K-CANON", "Trie.insert and Trie.search sort with the same key", ok)
    if not ok:
        res.add(mk_finding(PROP, "K-CANON", ci.methods["search"], ci.methods["search"].node, f"Trie.insert and Trie.search sort their words with different keys ({sorted(map(str, keys))}); a stored edge can then not be found", role="key"))
    if not flags:
        return
    # call sites that claim their word is already sorted
    for fn in repo.all_functions():
        for st in own_statements(fn.node):
            for c in ast.walk(st):
                if not (isinstance(c, ast.Call) and isinstance(c.func, ast.Attribute) and c.func.attr in flags):
                    continue
                m, fparams = flags[c.func.attr]
                claimed = [k for k in c.keywords if k.arg in fparams and not (isinstance(k.value, ast.Constant) and not k.value.value)]
                if len(c.args) > 1:
                    claimed.append(c.args[1])
                if not claimed:
                    continue
                arg = c.args[0] if c.args else None
                ok, why = provably_sorted(fn, arg, st)
                res.inst("K-CANON", f"{fn.qualname}:{c.lineno} passes a sorted word to Trie.{c.func.attr}", ok)
                if not ok:
                    res.add(mk_finding(PROP, "K-CANON", fn, st, f"{fn.qualname} tells Trie.{c.func.attr} that `{unparse(arg, 30)}` is already sorted, but {why}; the lookup then depends on set iteration order, i.e. on the node labels", role=c.func.attr))


def provably_sorted(fn, arg, at_stmt, depth=0):
    if arg is None or depth > 3:
        return False, "it cannot be traced"
    if isinstance(arg, ast.Call) and getattr(arg.func, "id", None) == "sorted":
        return True, ""
    if isinstance(arg, ast.Call) and getattr(arg.func, "id", None) in ("tuple", "list") and arg.args:
        return provably_sorted(fn, arg.args[0], at_stmt, depth + 1)
    if isinstance(arg, ast.Name):
        # loop variable over combinations/_powerset(<sorted>)
        for st in ast.walk(fn.node):
            if isinstance(st, (ast.For, ast.comprehension)) and isinstance(st.target, ast.Name) and st.target.id == arg.id:
                it = st.iter
                if isinstance(it, ast.Call) and getattr(it.func, "id", getattr(it.func, "attr", None)) in ("combinations", "_powerset", "powerset", "list", "chain") and it.args:
                    return provably_sorted(fn, it.args[0], at_stmt, depth + 1)
                if isinstance(it, ast.Name):
                    return provably_sorted(fn, it, at_stmt, depth + 1)
                return False, f"`{arg.id}` iterates `{unparse(it, 40)}`, which is not derived from a sorted sequence"
        defs = [s for s in own_statements(fn.node) if isinstance(s, ast.Assign) and any(isinstance(t, ast.Name) and t.id == arg.id for t in s.targets)]
        if defs:
            for d in defs:
                ok, why = provably_sorted(fn, d.value, at_stmt, depth + 1)
                if not ok:
                    return False, why
            return True, ""
        return False, f"`{arg.id}` is a parameter or set whose iteration order is not sorted"
    return False, f"`{unparse(arg, 40)}` is not derived from a sorted sequence"


def order_tag(fn, e, depth=0):
    """'view' (insertion order of the node/edge view), 'sorted', 'set' (hash order) or None (unknown) for an iterable."""
    if depth > 4:
        return None
    if isinstance(e, ast.Attribute) and e.attr in ("nodes", "edges") and isinstance(e.value, ast.Name):
        return "view"
    if isinstance(e, ast.Call):
        nm = getattr(e.func, "attr", getattr(e.func, "id", None))
        if nm == "sorted":
            return "sorted"
        if nm in ("set", "frozenset") and isinstance(e.func, ast.Name):
            return "set"
        if nm in ("list", "tuple", "enumerate", "iter") and isinstance(e.func, ast.Name) and e.args:
            return order_tag(fn, e.args[0], depth + 1)
        if nm in ("aslist", "asnumpy", "asdict", "aspandas", "values", "keys", "items") and isinstance(e.func, ast.Attribute):
            inner = e.func.value
            # H.nodes.degree.aslist(), H.nodes.attrs(...).asdict().values(): view order when rooted at a view
            for x in ast.walk(inner):
                if isinstance(x, ast.Attribute) and x.attr in ("nodes", "edges"):
                    return "view"
            return order_tag(fn, inner, depth + 1)
        if nm in ("filterby", "filterby_attr"):
            return order_tag(fn, e.func.value, depth + 1)
    if isinstance(e, ast.Name):
        defs = [st.value for st in own_statements(fn.node) if isinstance(st, ast.Assign) and len(st.targets) == 1 and isinstance(st.targets[0], ast.Name) and st.targets[0].id == e.id]
        tags = {order_tag(fn, d, depth + 1) for d in defs}
        if len(tags) == 1:
            return tags.pop()
        # x.sort() on a local list
        if any(isinstance(c, ast.Call) and isinstance(c.func, ast.Attribute) and c.func.attr == "sort" and isinstance(c.func.value, ast.Name) and c.func.value.id == e.id for c in ast.walk(fn.node)):
            return "sorted"
    return None


def check_zip_order(repo, res, fns):
    """K-ZIP: two sequences of per-node / per-edge data that are paired positionally come in the same order (pairing
    sorted labels with values listed in view order attaches every value to another label unless labels were inserted sorted)."""
    # the rule expects zero matches on a healthy tree: its recogniser must still see the embedded positive example
    class _Fn:
        node = ast.parse("def _ex(H):\n    order = sorted(H.nodes)\n    vals = H.nodes.degree.aslist()\n    return dict(zip(order, vals))\n").body[0]

    ex = next(c for c in ast.walk(_Fn.node) if isinstance(c, ast.Call) and getattr(c.func, "id", None) == "zip")
    if [order_tag(_Fn, a) for a in ex.args] != ["sorted", "view"]:
        raise AnalysisError("K-ZIP self-check: the embedded positive example is no longer recognised")
    n = 0
    for fn in fns:
        for c in ast.walk(fn.node):
            if isinstance(c, ast.Call) and isinstance(c.func, ast.Name) and c.func.id == "zip" and len(c.args) >= 2:
                tags = [order_tag(fn, a) for a in c.args]
                known = [t for t in tags if t is not None]
                if len(known) < 2:
                    continue
                n += 1
                ok = len(set(known)) == 1
                res.inst("K-ZIP", f"{fn.fq}:{c.lineno} zip({', '.join(unparse(a, 20) for a in c.args)}) pairs sequences of the same order ({known})", ok)
                if not ok:
                    res.add(mk_finding(PROP, "K-ZIP", fn, c, f"{fn.qualname}: `{unparse(c, 70)}` pairs sequences whose orders have different origins ({', '.join(f'{unparse(a, 20)}: {t}' for a, t in zip(c.args, tags) if t)}); each value is attached to the wrong label whenever the insertion order of the IDs differs from that order", role="zip"))
    res.inst("K-ZIP", f"{n} positional pairings with known order provenance examined (embedded positive example recognised)", True)
