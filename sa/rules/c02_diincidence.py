"""C02 - Directed incidence integrity (tail/head vs out/in) under every history.

Same rules as C01 on DiHypergraph with sides: the edge side ``_edge[e]['in']`` (tail) pairs with the node side
``_node[m]['out']`` and ``_edge[e]['out']`` (head) with ``_node[m]['in']``; every writer is held to that pairing
(R-INC per side), including strong node removal.
"""
from ..report import Result
from .incidence_rules import check_enc, check_fresh, check_share, run_class

PROP = "C02"


def run(ctx):
    res = Result(PROP)
    res.rules = ["R-ENC", "R-EXIT", "R-INC", "R-ATTR", "R-EXC", "R-ONCE", "R-SHARE", "U-OWN", "U-COPY", "U-FUNC", "U-PROV", "U-GUARD", "U-BUMP"]
    res.explanation = (
        "As C01, for every writer method of DiHypergraph: table writes become relational delta formulas for E.in/E.out "
        "and N.in/N.out; the invariant pairs E.in with N.out and E.out with N.in, so gains and losses of each pair must "
        "be truth-table equivalent at every normal exit and before every raise point (per valuation of strong, "
        "remove_empty, direction and the bulk-format flags)."
    )
    eng = run_class(ctx, res, PROP, "DiHypergraph", True, 10, skip=("__init__", "__setstate__"))
    if not ctx.only:
        check_enc(ctx, res, PROP, eng)
        check_share(ctx, res, PROP, "DiHypergraph")
        check_fresh(ctx, res, PROP, ("DiHypergraph",))
    return res
