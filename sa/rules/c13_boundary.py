"""C13 - Boundary operators form a chain complex (NARROW: parity of the sign function and face bookkeeping).

B-SIGN   the exponent of the sign stored for the i-th face of a simplex (general branch of boundary_matrix) has, as a function
         of the parities of (orientation of the simplex, order, i, orientation of the face), the textbook parity
         o_u + (order - i) + o_f up to a term that depends on the order alone - evaluated over the 16 abstract parity states
         on the expression extracted from the source (abstract interpretation in the parity domain, nothing is run).
B-ORDER  the reference orientation of a simplex is fixed before its faces are enumerated (the sort dominates _subfaces), and
         every sort of a simplex inside boundary_matrix (and the helpers it calls) uses one and the same key - two different
         orderings for different simplices make face signs inconsistent.
B-EDGE   in the order-1 branch the two entries have opposite parity and the positive one goes to the larger vertex.
B-FACE   each face is looked up by its member set (frozenset), all order+1 faces of combinations(simplex, size-1) are stored
         (no break/continue/conditional store in the face loop).
B-ADDR   (K1/K2/K5 of the kind engine over hodge_matrix.py) the row of a face and its orientation are looked up by the face's
         simplex ID, never by its position in the edge list.
B-HODGE  hodge_laplacian is B_k^T B_k + B_{k+1} B_{k+1}^T with both boundary matrices built from the same orientations.
The identity on concrete complexes, PSD-ness and kernel dimension are NOT decided.
"""
from __future__ import annotations

import ast
import itertools

from ..cfg import CFG, own_nodes, own_statements
from ..model import AnalysisError
from ..report import Result, mk_finding
from .common import unparse

PROP = "C13"


def run(ctx):
    repo = ctx.repo
    res = Result(PROP)
    res.rules = ["B-SIGN", "B-ORDER", "B-EDGE", "B-FACE", "B-HODGE", "B-ORIENT", "K1", "K2", "K5"]
    res.explanation = (
        "Narrow claim: the sign exponent of the boundary matrix is extracted from the source by def-use and evaluated in the "
        "parity domain (16 abstract states); the ordering that fixes the reference orientation must be unique and precede "
        "face enumeration; faces are looked up by member set and all stored; the Hodge Laplacian composes boundary matrices "
        "built from the same orientations. dd = 0 on concrete complexes is a consequence, not something this check runs."
    )
    mi = repo.modules.get("xgi.linalg.hodge_matrix")
    if mi is None or "boundary_matrix" not in mi.functions or "hodge_laplacian" not in mi.functions:
        raise AnalysisError("xgi.linalg.hodge_matrix.boundary_matrix / hodge_laplacian not found (anchor vanished)")
    bm = mi.functions["boundary_matrix"]
    check_order_keys(repo, res, mi, bm)
    check_general_branch(repo, res, bm)
    check_edge_branch(repo, res, bm)
    check_hodge(repo, res, mi.functions["hodge_laplacian"])
    check_subfaces_order(repo, res)
    check_orientation_map(repo, res, [bm, mi.functions["hodge_laplacian"]])
    # addressing: simplex IDs vs positions (an ID->row map or the orientations dict indexed with a position puts the
    # entries of a face into another simplex's row whenever IDs are not 0..m-1 in insertion order)
    from .kind_rules import functions_of, run_kinds

    run_kinds(ctx, res, PROP, functions_of(repo, [], exact=("xgi.linalg.hodge_matrix",)), 8, 3)
    return res


# ------------------------------------------------------------------------------------------
def sort_calls(fn_node):
    """(stmt, key-expression-or-None, kind) for every sort of a simplex: x.sort(key=..) / sorted(x, key=..)"""
    out = []
    for st in own_statements(fn_node):
        for c in own_nodes(st):
            if isinstance(c, ast.Call):
                if isinstance(c.func, ast.Attribute) and c.func.attr == "sort":
                    out.append((st, c, next((k.value for k in c.keywords if k.arg == "key"), None)))
                elif getattr(c.func, "id", None) == "sorted":
                    out.append((st, c, next((k.value for k in c.keywords if k.arg == "key"), None)))
    return out


def check_order_keys(repo, res, mi, bm):
    fns = [bm]
    for c in ast.walk(bm.node):
        if isinstance(c, ast.Call) and isinstance(c.func, ast.Name) and c.func.id in mi.functions and mi.functions[c.func.id] is not bm:
            fns.append(mi.functions[c.func.id])
    keys = {}
    n = 0
    in_try = False
    for fn in fns:
        for st, c, key in sort_calls(fn.node):
            n += 1
            keys.setdefault(unparse(key) if key is not None else "<natural order>", []).append((fn, st))
            for t in ast.walk(fn.node):
                if isinstance(t, ast.Try) and any(x is st for h in t.handlers for y in h.body for x in ast.walk(y)):
                    in_try = True
    if n == 0:
        raise AnalysisError("boundary_matrix: no sort establishing the reference orientation found (extractor does not recognise the code)")
    ok = len(keys) == 1 and not in_try
    res.inst("B-ORDER", f"all {n} sorts of a simplex use one key: {sorted(keys)}", ok)
    if not ok:
        fn, st = sorted(keys.items())[-1][1][0]
        why = "an ordering chosen in an exception handler" if in_try and len(keys) == 1 else f"different keys {sorted(keys)}"
        res.add(mk_finding(PROP, "B-ORDER", fn, st, f"boundary_matrix orders the vertices of different simplices with {why}; a face and its coface can then disagree on the reference orientation, so consecutive boundary matrices no longer compose to zero", role="key"))
    return keys


def check_general_branch(repo, res, bm):
    # locate the face loop: for count, subf in enumerate(<faces>)
    loops = [s for s in own_statements(bm.node) if isinstance(s, ast.For) and isinstance(s.iter, ast.Call) and getattr(s.iter.func, "id", None) == "enumerate" and isinstance(s.target, ast.Tuple)]
    if not loops:
        raise AnalysisError("boundary_matrix: face loop `for i, face in enumerate(faces)` not found (extractor does not recognise the code)")
    loop = loops[-1]
    ivar, fvar = loop.target.elts[0].id, loop.target.elts[1].id
    faces_name = loop.iter.args[0].id if isinstance(loop.iter.args[0], ast.Name) else None
    # faces come from _subfaces(u_simplex, all=False)
    fdefs = [s for s in own_statements(bm.node) if isinstance(s, ast.Assign) and isinstance(s.targets[0], ast.Name) and s.targets[0].id == faces_name]
    simplex_name = None
    for d in fdefs:
        if isinstance(d.value, ast.Call) and getattr(d.value.func, "attr", "") == "_subfaces" and d.value.args and isinstance(d.value.args[0], ast.Name):
            simplex_name = d.value.args[0].id
            sub_stmt = d
    if simplex_name is None:
        raise AnalysisError("boundary_matrix: faces are not obtained from _subfaces(<simplex>, all=False) (extractor does not recognise the code)")
    # B-ORDER: the sort of the simplex dominates the enumeration of its faces
    cfg = CFG(bm.node)

    def sorts_simplex(n):
        return isinstance(n, ast.AST) and any(
            (isinstance(c, ast.Call) and isinstance(c.func, ast.Attribute) and c.func.attr == "sort" and isinstance(c.func.value, ast.Name) and c.func.value.id == simplex_name)
            or (isinstance(n, ast.Assign) and isinstance(n.targets[0], ast.Name) and n.targets[0].id == simplex_name and isinstance(c, ast.Call) and (getattr(c.func, "id", None) == "sorted" or getattr(c.func, "id", "").startswith("_reference")))
            for c in own_nodes(n)
        )

    ok = cfg.dominated_by(sub_stmt, sorts_simplex)
    # and nothing re-sorts after enumeration
    later = [s for s in own_statements(loop) if sorts_simplex(s)]
    ok = ok and not later
    res.inst("B-ORDER", "the simplex is put in reference order before its faces are enumerated", ok)
    if not ok:
        res.add(mk_finding(PROP, "B-ORDER", bm, sub_stmt, "boundary_matrix enumerates the faces of a simplex before (or without) fixing its reference order; the i-th face is then not the one omitting vertex order-i", role="sort-first"))
    # the store
    store = None
    for s in own_statements(loop):
        if isinstance(s, ast.Assign) and isinstance(s.targets[0], ast.Subscript) and isinstance(s.targets[0].value, ast.Name) and isinstance(s.value, ast.BinOp) and isinstance(s.value.op, ast.Pow):
            store = s
    if store is None:
        raise AnalysisError("boundary_matrix: the store `B[row, col] = (-1) ** X` in the face loop was not found (extractor does not recognise the code)")
    base = store.value.left
    if not (isinstance(base, ast.UnaryOp) and isinstance(base.op, ast.USub) and isinstance(base.operand, ast.Constant) and base.operand.value == 1):
        raise AnalysisError("boundary_matrix: sign is not written as (-1) ** exponent (extractor does not recognise the code)")
    expo = store.value.right
    # B-FACE: unconditional store, no break/continue, row looked up through frozenset(face)
    cond = any(isinstance(s, (ast.Break, ast.Continue, ast.Return)) for s in own_statements(loop)) or store not in loop.body
    res.inst("B-FACE", "every face of the enumeration is stored (no break / continue / conditional store)", not cond)
    if cond:
        res.add(mk_finding(PROP, "B-FACE", bm, loop, "boundary_matrix does not store an entry for every one of the order+1 faces of a simplex (the face loop can skip or stop)", role="all-faces"))
    uses_frozenset = any(isinstance(c, ast.Call) and getattr(c.func, "id", None) == "frozenset" and c.args and isinstance(c.args[0], ast.Name) and c.args[0].id == fvar for s in own_statements(loop) for c in ast.walk(s))
    res.inst("B-FACE", "the row of a face is found through its member set (frozenset(face))", uses_frozenset)
    if not uses_frozenset:
        res.add(mk_finding(PROP, "B-FACE", bm, loop, "boundary_matrix does not look a face up by its member set; the entry can land in the row of another simplex", role="lookup"))
    ok = parity_check(bm, loop, expo, ivar)
    res.inst("B-SIGN", f"parity of the exponent `{unparse(expo, 60)}` matches o_u + (order - i) + o_f up to an order-only term (16 parity states)", ok[0], sample={"rule": "B-SIGN", "exponent": unparse(expo, 80), "resolved": ok[2], "states": 16})
    if not ok[0]:
        res.add(mk_finding(PROP, "B-SIGN", bm, store, f"boundary_matrix: the sign exponent `{ok[2]}` does not have the parity o_u + (order - i) + o_f (differs for parities {ok[1]}); faces get signs for which the product of consecutive boundary matrices is not zero", role="parity"))


def parity_check(bm, loop, expo, ivar):
    """Abstract interpretation in Z/2: substitute list-comprehension definitions, map orientations[...] lookups to o_u / o_f."""
    defs = {}
    for s in own_statements(bm.node):
        if isinstance(s, ast.Assign) and isinstance(s.targets[0], ast.Name) and isinstance(s.value, ast.ListComp):
            defs[s.targets[0].id] = s.value
    fvars = {loop.target.elts[1].id}
    # names bound in the loop body from the face (subface_ID = ...)
    face_ids = set()
    for s in own_statements(loop):
        if isinstance(s, ast.Assign) and isinstance(s.targets[0], ast.Name) and any(isinstance(x, ast.Name) and x.id in fvars for x in ast.walk(s.value)):
            face_ids.add(s.targets[0].id)

    local = {}
    for s in own_statements(bm.node):
        if isinstance(s, ast.Assign) and len(s.targets) == 1 and isinstance(s.targets[0], ast.Name):
            local.setdefault(s.targets[0].id, []).append(s.value)

    def is_bit(e):
        """An expression whose VALUE is 0 or 1 (so that its parity is its value): an orientation, a bool(), a comparison."""
        if isinstance(e, ast.Subscript) and isinstance(e.value, ast.Name) and e.value.id == "orientations":
            return True
        if isinstance(e, ast.Call) and getattr(e.func, "id", None) in ("bool", "int") and len(e.args) == 1:
            return is_bit(e.args[0]) or isinstance(e.args[0], (ast.BoolOp, ast.Compare))
        if isinstance(e, ast.BoolOp):
            return all(is_bit(v) for v in e.values)
        if isinstance(e, ast.Compare):
            return True
        if isinstance(e, ast.Constant) and e.value in (0, 1, True, False):
            return True
        if isinstance(e, ast.Name) and e.id in local and len(local[e.id]) == 1 and e.id not in ("order",):
            return is_bit(local[e.id][0])
        return False

    def ev(e, env, depth=0):
        if isinstance(e, ast.Constant) and isinstance(e.value, (int, bool)):
            return int(e.value) % 2
        if isinstance(e, ast.Name):
            if e.id in env:
                return env[e.id]
            if e.id in local and len(local[e.id]) == 1 and depth < 6:
                return ev(local[e.id][0], env, depth + 1)
            raise KeyError(e.id)
        if isinstance(e, ast.Call) and getattr(e.func, "id", None) in ("bool", "int") and len(e.args) == 1 and is_bit(e):
            return ev(e.args[0], env, depth + 1)
        if isinstance(e, ast.BoolOp) and is_bit(e):
            vals = [ev(v, env, depth + 1) for v in e.values]
            return max(vals) if isinstance(e.op, ast.Or) else min(vals)
        if isinstance(e, ast.Compare) and len(e.ops) == 1 and is_bit(e.left) and is_bit(e.comparators[0]) and isinstance(e.ops[0], (ast.Eq, ast.NotEq)):
            a, b = ev(e.left, env, depth + 1), ev(e.comparators[0], env, depth + 1)
            return int((a != b) if isinstance(e.ops[0], ast.NotEq) else (a == b))
        if isinstance(e, ast.IfExp) and is_bit(e.test):
            return ev(e.body, env, depth + 1) if ev(e.test, env, depth + 1) else ev(e.orelse, env, depth + 1)
        if isinstance(e, ast.BinOp):
            if isinstance(e.op, ast.Mod) and isinstance(e.right, ast.Constant) and e.right.value == 2:
                return ev(e.left, env)
            if isinstance(e.op, (ast.Add, ast.Sub)):
                return (ev(e.left, env) + ev(e.right, env)) % 2
            if isinstance(e.op, ast.Mult):
                return (ev(e.left, env) * ev(e.right, env)) % 2
            raise KeyError(type(e.op).__name__)
        if isinstance(e, ast.UnaryOp) and isinstance(e.op, ast.USub):
            return ev(e.operand, env)
        if isinstance(e, ast.Subscript):
            # orientations[X]
            if isinstance(e.value, ast.Name) and e.value.id == "orientations":
                k = e.slice
                if isinstance(k, ast.Name) and k.id in face_ids:
                    return env["o_f"]
                return env["o_u"]
            # precomputed list L[count] with L = [f(i) for i in range(order + 1)]
            if isinstance(e.value, ast.Name) and e.value.id in defs and isinstance(e.slice, ast.Name) and e.slice.id == ivar:
                comp = defs[e.value.id]
                g = comp.generators[0]
                if isinstance(g.target, ast.Name) and isinstance(g.iter, ast.Call) and getattr(g.iter.func, "id", None) == "range":
                    env2 = dict(env)
                    env2[g.target.id] = env[ivar]
                    return ev(comp.elt, env2)
            raise KeyError(unparse(e))
        raise KeyError(type(e).__name__)

    diffs = {}
    try:
        for o_u, order, i, o_f in itertools.product((0, 1), repeat=4):
            env = {"o_u": o_u, "order": order, ivar: i, "o_f": o_f}
            got = ev(expo, env)
            ref = (o_u + order - i + o_f) % 2
            diffs[(o_u, order, i, o_f)] = (got - ref) % 2
    except KeyError as e:
        raise AnalysisError(f"boundary_matrix: cannot evaluate the sign exponent in the parity domain (unrecognised term {e}); the extractor does not recognise the code")
    bad = []
    for order in (0, 1):
        vals = {d for (ou, od, i, of), d in diffs.items() if od == order}
        if len(vals) > 1:
            bad.append(f"order parity {order}")
    resolved = unparse(expo, 80)
    return (not bad), bad, resolved


def check_edge_branch(repo, res, bm):
    branch = None
    for s in own_statements(bm.node):
        if isinstance(s, ast.If) and isinstance(s.test, ast.Compare) and isinstance(s.test.left, ast.Name) and s.test.left.id == "order" and isinstance(s.test.comparators[0], ast.Constant) and s.test.comparators[0].value == 1 and any(isinstance(x, ast.For) for x in s.body):
            branch = s
    if branch is None:
        res.info.append({"B-EDGE": "no dedicated order == 1 branch; the general branch covers edges"})
        return
    wrapper = ast.FunctionDef(name="_", args=bm.node.args, body=branch.body, decorator_list=[], lineno=branch.lineno)
    stores = [s for s in own_statements(wrapper) if isinstance(s, ast.Assign) and isinstance(s.targets[0], ast.Subscript) and isinstance(s.targets[0].value, ast.Name)]
    defs = {s.targets[0].id: s.value for s in own_statements(wrapper) if isinstance(s, ast.Assign) and isinstance(s.targets[0], ast.Name)}

    def vertex_index(store):
        # B[simplices_d_dict[head_idx], col] -> head_idx = u_simplex[1]
        sl = store.targets[0].slice
        row = sl.elts[0] if isinstance(sl, ast.Tuple) else sl
        for x in ast.walk(row):
            if isinstance(x, ast.Name) and x.id in defs and isinstance(defs[x.id], ast.Subscript) and isinstance(defs[x.id].slice, ast.Constant):
                return defs[x.id].slice.value
            if isinstance(x, ast.Subscript) and isinstance(x.slice, ast.Constant) and isinstance(x.slice.value, int) and isinstance(x.value, ast.Name) and "simplex" in x.value.id:
                return x.slice.value
        return None

    def negated(v):
        n = 0
        while isinstance(v, ast.UnaryOp) and isinstance(v.op, ast.USub):
            n += 1
            v = v.operand
        return n % 2, v

    if len(stores) != 2:
        raise AnalysisError("boundary_matrix (order 1): expected exactly two stores per edge (extractor does not recognise the code)")
    info = []
    for s in stores:
        neg, core = negated(s.value)
        info.append((vertex_index(s), neg, unparse(core, 60)))
    ok = {i[0] for i in info} == {0, 1} and info[0][2] == info[1][2] and {(i[0], i[1]) for i in info} == {(1, 0), (0, 1)}
    res.inst("B-EDGE", f"order-1 column: +(-1)^o at the larger vertex, -(-1)^o at the smaller one ({info})", ok)
    if not ok:
        res.add(mk_finding(PROP, "B-EDGE", bm, stores[0], f"boundary_matrix (order 1): the two entries of an edge column are not +(-1)^o at the larger vertex of the sorted pair and -(-1)^o at the smaller one ({info}); inconsistent with the general face sign", role="edge"))


def check_hodge(repo, res, hl):
    calls = [c for c in ast.walk(hl.node) if isinstance(c, ast.Call) and getattr(c.func, "id", None) == "boundary_matrix"]
    if len(calls) < 2:
        raise AnalysisError("hodge_laplacian: calls of boundary_matrix not found (extractor does not recognise the code)")
    oparam = hl.params[2] if len(hl.params) > 2 else "orientations"
    oks = []
    orders = set()
    for c in calls:
        o = c.args[2] if len(c.args) > 2 else next((k.value for k in c.keywords if k.arg == "orientations"), None)
        oks.append(isinstance(o, ast.Name) and o.id == oparam)
        od = c.args[1] if len(c.args) > 1 else next((k.value for k in c.keywords if k.arg == "order"), None)
        orders.add(unparse(od))
    ok = all(oks) and {"order", "order + 1"} <= orders
    res.inst("B-HODGE", f"hodge_laplacian builds B_k and B_k+1 from the same orientations ({sorted(orders)})", ok)
    if not ok:
        res.add(mk_finding(PROP, "B-HODGE", hl, hl.node, f"hodge_laplacian does not build both boundary matrices (orders {sorted(orders)}) from the caller's orientations; the two halves of the Laplacian then belong to different chain complexes", role="orientations"))
    # L = B_k^T B_k + B_{k+1} B_{k+1}^T on every path to a return (symbolic matrix expressions, one walk per path)
    oname = hl.params[1] if len(hl.params) > 1 else "order"
    sname = hl.params[0]

    def order_of(e):
        t = unparse(e).replace(" ", "")
        if t == oname:
            return 0
        if t in (f"{oname}+1", f"1+{oname}"):
            return 1
        return None

    def mat(e, env):
        """symbolic value of a matrix expression: ('B', k) | ('T', v) | ('MM', a, b) | ('SUM', (terms...)) | ('LIT', text) | None"""
        if isinstance(e, ast.Name):
            return env.get(e.id)
        if isinstance(e, ast.Call):
            fname = getattr(e.func, "id", getattr(e.func, "attr", None))
            if fname == "boundary_matrix":
                od = e.args[1] if len(e.args) > 1 else next((k.value for k in e.keywords if k.arg == "order"), None)
                k = order_of(od) if od is not None else None
                return ("B", k if k is not None else (unparse(od) if od is not None else "default"))
            if fname == "transpose":
                inner = e.args[0] if e.args else (e.func.value if isinstance(e.func, ast.Attribute) else None)
                v = mat(inner, env) if inner is not None else None
                return ("T", v) if v is not None else None
            if fname in ("matmul", "dot") and len(e.args) == 2:
                a, b = mat(e.args[0], env), mat(e.args[1], env)
                return ("MM", a, b) if a is not None and b is not None else None
            if fname == "dot" and len(e.args) == 1 and isinstance(e.func, ast.Attribute):
                a, b = mat(e.func.value, env), mat(e.args[0], env)
                return ("MM", a, b) if a is not None and b is not None else None
            if fname == "add" and len(e.args) == 2:
                return msum(mat(e.args[0], env), mat(e.args[1], env))
            if fname in ("zeros", "empty", "csr_array", "csr_matrix", "array", "zeros_like") and e.args and isinstance(e.args[0], (ast.Tuple, ast.List)) and all(isinstance(x, ast.Constant) for x in e.args[0].elts):
                return ("LIT", unparse(e, 40))
            return None
        if isinstance(e, ast.Attribute) and e.attr == "T":
            v = mat(e.value, env)
            return ("T", v) if v is not None else None
        if isinstance(e, ast.BinOp) and isinstance(e.op, ast.MatMult):
            a, b = mat(e.left, env), mat(e.right, env)
            return ("MM", a, b) if a is not None and b is not None else None
        if isinstance(e, ast.BinOp) and isinstance(e.op, ast.Add):
            return msum(mat(e.left, env), mat(e.right, env))
        return None

    def msum(a, b):
        if a is None or b is None:
            return None
        ta = a[1] if a[0] == "SUM" else (a,)
        tb = b[1] if b[0] == "SUM" else (b,)
        return ("SUM", tuple(ta) + tuple(tb))

    DOWN = ("MM", ("T", ("B", 0)), ("B", 0))
    UP = ("MM", ("B", 1), ("T", ("B", 1)))

    def no_upper_simplices(test, taken):
        """is this branch the one where the complex has no (order+1)-simplices?  `order < <max order>` not taken, ..."""
        t = test
        if isinstance(t, ast.UnaryOp) and isinstance(t.op, ast.Not):
            return no_upper_simplices(t.operand, not taken)
        if isinstance(t, ast.BoolOp) and isinstance(t.op, ast.And) and not taken:
            # not (A and B): fine when the failure of either conjunct means there are no (order+1)-simplices
            return all(no_upper_simplices(v, False) for v in t.values)
        if unparse(t).replace(" ", "") in (f"{sname}.edges", f"{sname}.num_edges", f"len({sname}.edges)"):
            return not taken  # no simplices at all
        if isinstance(t, ast.Compare) and len(t.ops) == 1:
            l, r, op = unparse(t.left).replace(" ", ""), unparse(t.comparators[0]).replace(" ", ""), t.ops[0]
            def is_max(x):
                return "max" in x and oname in x or "max_edge_order" in x
            if l == oname and is_max(r) and isinstance(op, ast.Lt):
                return not taken
            if l == oname and is_max(r) and isinstance(op, ast.GtE):
                return taken
            if is_max(l) and r == oname and isinstance(op, ast.Gt):
                return not taken
            if is_max(l) and r == oname and isinstance(op, ast.LtE):
                return taken
            if l in (f"{oname}+1", f"1+{oname}") and is_max(r) and isinstance(op, ast.LtE):
                return not taken
        return False

    def node_emptiness(test, taken):
        """the branch on which the complex is known to have no nodes"""
        t = test
        if isinstance(t, ast.UnaryOp) and isinstance(t.op, ast.Not):
            inner = unparse(t.operand).replace(" ", "")
            if inner in (f"{sname}.nodes", f"{sname}.num_nodes", f"len({sname}.nodes)", f"len({sname})", sname):
                return taken
            return False
        if isinstance(t, ast.Compare) and len(t.ops) == 1 and isinstance(t.comparators[0], ast.Constant) and t.comparators[0].value == 0:
            l = unparse(t.left).replace(" ", "")
            if l in (f"{sname}.num_nodes", f"len({sname}.nodes)", f"len({sname})"):
                return taken if isinstance(t.ops[0], ast.Eq) else False
        if isinstance(t, ast.BoolOp) and isinstance(t.op, ast.And) and taken:
            return any(node_emptiness(v, True) for v in t.values)
        return False

    outcomes = []  # (return stmt, matrix value, guards)

    def walk(stmts, env, guards):
        """returns True when control falls through"""
        for k, st in enumerate(stmts):
            if isinstance(st, ast.If):
                fell = False
                for taken, body in ((True, st.body), (False, st.orelse)):
                    e2 = dict(env)
                    if walk(list(body) + list(stmts[k + 1:]), e2, guards + [(st.test, taken)]):
                        fell = True
                return fell
            if isinstance(st, ast.Return):
                v = st.value
                parts = [v.body, v.orelse] if isinstance(v, ast.IfExp) else [v]
                for part in parts:
                    m = part.elts[0] if isinstance(part, ast.Tuple) and part.elts else part
                    outcomes.append((st, mat(m, env) if m is not None else None, list(guards)))
                return False
            if isinstance(st, ast.Raise):
                return False
            if isinstance(st, ast.Assign) and len(st.targets) == 1:
                t = st.targets[0]
                if isinstance(t, ast.Name):
                    env[t.id] = mat(st.value, env)
                elif isinstance(t, ast.Tuple) and t.elts and isinstance(t.elts[0], ast.Name):
                    # B, rows, cols = boundary_matrix(..., True)
                    env[t.elts[0].id] = mat(st.value, env)
                    for x in t.elts[1:]:
                        if isinstance(x, ast.Name):
                            env[x.id] = None
                continue
            if isinstance(st, ast.AugAssign) and isinstance(st.target, ast.Name) and isinstance(st.op, ast.Add):
                env[st.target.id] = msum(env.get(st.target.id), mat(st.value, env))
                continue
            if isinstance(st, (ast.For, ast.While, ast.Try, ast.With)):
                raise AnalysisError(f"hodge_laplacian:{st.lineno}: statement kind {type(st).__name__} (extractor does not recognise the code)")
        return True

    walk(list(hl.node.body), {}, [])
    if not outcomes:
        raise AnalysisError("hodge_laplacian: no return found (extractor does not recognise the code)")
    bad = None
    shape_bad = None
    for st, v, guards in outcomes:
        if v is None:
            raise AnalysisError(f"hodge_laplacian:{st.lineno}: cannot express the returned matrix in terms of the boundary matrices (extractor does not recognise the code)")
        if v[0] == "LIT":
            if not any(node_emptiness(t, taken) for t, taken in guards):
                shape_bad = (st, v, guards)
            continue
        terms = list(v[1]) if v[0] == "SUM" else [v]
        up_optional = any(no_upper_simplices(t, taken) for t, taken in guards)
        extra = [t for t in terms if t not in (DOWN, UP)]
        if extra or terms.count(DOWN) != 1 or terms.count(UP) > 1 or (terms.count(UP) == 0 and not up_optional):
            bad = (st, terms)
    res.inst("B-HODGE", f"hodge_laplacian is B_k^T B_k + B_k+1 B_k+1^T on each of its {len(outcomes)} return path(s)", bad is None)
    if bad is not None:
        res.add(mk_finding(PROP, "B-HODGE", hl, bad[0], "hodge_laplacian is not composed as B_k^T B_k + B_{k+1} B_{k+1}^T on every path to a return (the upper term may only be left out where the complex has no (order+1)-simplices)", role="composition"))
    res.inst("B-HODGE", "hodge_laplacian: a matrix of literal shape is returned only where the complex has no nodes", shape_bad is None)
    if shape_bad is not None:
        st, v, guards = shape_bad
        gtxt = " and ".join(("" if taken else "not ") + f"({unparse(t, 40)})" for t, taken in guards) or "no condition"
        res.add(mk_finding(PROP, "B-HODGE", hl, st, f"hodge_laplacian returns `{v[1]}` under `{gtxt}`, which does not establish that the complex has no nodes; the order-0 Laplacian has one row and column per node whether or not there are simplices (its kernel counts the connected components)", role="shape"))


def check_subfaces_order(repo, res):
    ci = repo.get_class("SimplicialComplex")
    f = ci.methods.get("_subfaces")
    if f is None:
        raise AnalysisError("SimplicialComplex._subfaces not found (anchor vanished)")
    # all=False branch: combinations(simplex, size - 1) in lexicographic order: the i-th face omits vertex size-1-i
    ok = False
    sizes = {"size"}
    for st in own_statements(f.node):
        if isinstance(st, ast.Assign) and isinstance(st.targets[0], ast.Name) and isinstance(st.value, ast.Call) and getattr(st.value.func, "id", None) == "len":
            sizes.add(st.targets[0].id)
    for n in ast.walk(f.node):
        if isinstance(n, ast.Call) and getattr(n.func, "id", None) == "combinations" and len(n.args) == 2:
            r = n.args[1]
            size_minus_1 = isinstance(r, ast.BinOp) and isinstance(r.op, ast.Sub) and isinstance(r.right, ast.Constant) and r.right.value == 1 and ((isinstance(r.left, ast.Name) and r.left.id in sizes) or (isinstance(r.left, ast.Call) and getattr(r.left.func, "id", None) == "len"))
            if size_minus_1 and isinstance(n.args[0], ast.Name) and n.args[0].id == f.params[1]:
                ok = True
    # ... of the simplex AS GIVEN: the parameter is not rebound (sorted / set / reversed would move the vertices)
    pname = f.params[1]
    def moves_vertices(v):
        for c in ast.walk(v):
            if isinstance(c, ast.Call) and getattr(c.func, "id", getattr(c.func, "attr", None)) in ("sorted", "set", "frozenset", "reversed", "unique", "shuffle", "sample"):
                return True
            if isinstance(c, ast.Subscript) and isinstance(c.slice, ast.Slice) and c.slice.step is not None:
                return True
        return False

    rebinds = [st for st in ast.walk(f.node) if isinstance(st, (ast.Assign, ast.AugAssign)) and any(isinstance(t, ast.Name) and t.id == pname for tt in (st.targets if isinstance(st, ast.Assign) else [st.target]) for t in ast.walk(tt)) and moves_vertices(st.value)]
    rebinds += [c for c in ast.walk(f.node) if isinstance(c, ast.Call) and isinstance(c.func, ast.Attribute) and c.func.attr in ("sort", "reverse") and isinstance(c.func.value, ast.Name) and c.func.value.id == pname]
    if rebinds:
        ok = False
    res.inst("B-FACE", "_subfaces(all=False) yields combinations(simplex, size - 1) of the simplex in the given order", ok)
    if not ok:
        res.add(mk_finding(PROP, "B-FACE", f, f.node, "_subfaces(all=False) no longer yields the codimension-1 faces as combinations(simplex, size - 1) in the order of the (sorted) simplex; the sign function of boundary_matrix assumes the i-th face omits vertex order - i", role="_subfaces"))


def check_orientation_map(repo, res, fns):
    """B-ORIENT: B_k and B_{k+1} are built by separate calls of boundary_matrix and agree on the orientation of a shared
    simplex only because both read the same map: the caller's `orientations`, or the default that gives every simplex
    of the edge view orientation 0.  The map is keyed by simplex IDs; it is never rebuilt per order, merged with entries
    keyed by something else (node labels share the key space of integer simplex IDs), updated or stored into."""
    n = 0
    for fn in fns:
        if "orientations" not in fn.all_params:
            raise AnalysisError(f"{fn.qualname}: parameter `orientations` not found (anchor vanished)")

        def default_fill(v):
            if isinstance(v, ast.DictComp) and len(v.generators) == 1:
                g = v.generators[0]
                over_edges = any(isinstance(x, ast.Attribute) and x.attr == "edges" for x in ast.walk(g.iter))
                return over_edges and isinstance(g.target, ast.Name) and isinstance(v.key, ast.Name) and v.key.id == g.target.id and isinstance(v.value, ast.Constant)
            if isinstance(v, ast.Name) and v.id == "orientations":
                return True
            if isinstance(v, ast.IfExp):
                return default_fill(v.body) and default_fill(v.orelse)
            if isinstance(v, ast.Call) and getattr(v.func, "id", None) == "dict" and len(v.args) == 1 and not v.keywords:
                return default_fill(v.args[0])
            if isinstance(v, ast.Call) and isinstance(v.func, ast.Name) and v.func.id in fn.module.functions:
                # a helper of the module that builds the default: every return of it is the default fill
                h = fn.module.functions[v.func.id]
                rets = [x.value for x in ast.walk(h.node) if isinstance(x, ast.Return) and x.value is not None]
                return bool(rets) and all(default_fill(x) for x in rets)
            return False

        for st in ast.walk(fn.node):
            bad = None
            if isinstance(st, ast.Assign) and any(isinstance(t, ast.Name) and t.id == "orientations" for t in st.targets):
                n += 1
                if not default_fill(st.value):
                    bad = st
            elif isinstance(st, (ast.Assign, ast.AugAssign)) and any(isinstance(x, ast.Subscript) and isinstance(x.ctx, ast.Store) and isinstance(x.value, ast.Name) and x.value.id == "orientations" for t in (st.targets if isinstance(st, ast.Assign) else [st.target]) for x in ast.walk(t)):
                n += 1
                bad = st
            elif isinstance(st, ast.AugAssign) and isinstance(st.target, ast.Name) and st.target.id == "orientations":
                n += 1
                bad = st
            elif isinstance(st, ast.Expr) and isinstance(st.value, ast.Call) and isinstance(st.value.func, ast.Attribute) and isinstance(st.value.func.value, ast.Name) and st.value.func.value.id == "orientations" and st.value.func.attr in ("update", "setdefault", "pop", "clear", "__setitem__"):
                n += 1
                bad = st
            if bad is not None:
                res.inst("B-ORIENT", f"{fn.qualname}:{bad.lineno} orientation map left as given / default over the edge view", False)
                res.add(mk_finding(PROP, "B-ORIENT", fn, bad, f"{fn.qualname}: `{unparse(bad, 70)}` changes the orientation map for this call only (or adds keys that are not simplex IDs); the boundary matrices of neighbouring orders are built by separate calls and then disagree on the orientation of a simplex they share (a node label equal to a simplex ID overrides that simplex), so their product is no longer zero", role="orientations"))
    res.inst("B-ORIENT", f"{n} bindings / updates of the orientation map examined in boundary_matrix and hodge_laplacian", True)
    if n < 1:
        raise AnalysisError("boundary_matrix: the default fill of `orientations` was not found (extractor does not recognise the code)")
