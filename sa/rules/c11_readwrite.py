"""C11 - What is written to disk reads back as the same network (NARROW: structural conditions across the file boundary).

F-DELEG  each read_*/write_* pair goes through the paired converters (write_hif -> to_hif_dict -> json.dumps of exactly that
         value; read_hif -> json.loads -> from_hif_dict; likewise write_json/read_json), the collection writers and readers
         agree on their keys, and the converter pair itself agrees on keys / unconditionally-read keys (C10 T-KEYS, T-DEF).
F-FWD    every parameter of every reader/writer/parser is used, and a keyword forwarded under a parameter's own name carries
         that parameter (nodetype, edgetype, comments, delimiter, create_using, encoding, dual).
F-DELIM  the text formats join fields with the delimiter they were given and split on the delimiter they were given
         (no literal separator on either side).
F-2D     a matrix read from a text file keeps both dimensions in their orientation (loader called with ndmin=2; atleast_2d after a
         squeezing load turns single-column files into single rows) before it is handed to
         from_incidence_matrix, which destructures its shape.
F-ATOMIC in write_hif / write_json the serialisation happens before the target file is opened for writing.
F-MODE   the reader of a text format frames and decodes the file the way its writer frames and encodes it: both binary with
         a per-line encode / decode (a text-mode reader applies universal newlines and strips only one byte-order mark).
F-COLL   every branch of a JSON/HIF writer that serialises something also writes it: the serialised string reaches
         file.write(), each member of a collection is written by the member writer inside the loop that records its relative
         path, and a literal the reader dispatches on (data["type"] == "collection") is stored before the record is dumped.
F-CAST   in the text parsers the node handed to the network comes from the node column through `nodetype` (raw only when
         nodetype is None) and the edge ID from the edge column through `edgetype` - followed through local helpers.
F-MEMO   a conversion memo that outlives one call is keyed by everything the stored value depends on (a cache keyed by the
         label alone but filled with `totype(label)` returns the node cast for an edge ID).
Round-trip equality of values is NOT decided.
"""
from __future__ import annotations

import ast

from ..cfg import CFG, own_nodes, own_statements
from ..model import FunctionInfo, AnalysisError
from ..report import Result, mk_finding
from .common import unparse

PROP = "C11"
RW_MODULES = ["xgi.readwrite.hif", "xgi.readwrite.json", "xgi.readwrite.edgelist", "xgi.readwrite.bipartite", "xgi.readwrite.incidence"]


def run(ctx):
    repo = ctx.repo
    res = Result(PROP)
    res.rules = ["F-DELEG", "F-FWD", "F-DELIM", "F-2D", "F-ATOMIC", "F-CAST", "F-MEMO", "F-MODE", "F-COLL", "T-KEYS", "T-DEF", "T-ATTRS", "T-CAST"]
    res.explanation = (
        "Narrow claim: the writer and the reader of each file format live in different functions; the rules check that both "
        "sides go through the paired dict converters unchanged, forward every parameter, use the delimiter they were given, "
        "keep matrices two-dimensional, and serialise before truncating the target. Equality of the values read back is "
        "not decided."
    )
    fns = {}
    for mn in RW_MODULES:
        mi = repo.modules.get(mn)
        if mi is None:
            raise AnalysisError(f"{mn} not found (anchor vanished)")
        for f in mi.functions.values():
            fns[f.name] = f
    check_deleg(repo, res, fns)
    check_fwd(repo, res, fns)
    check_shared_forwarding(repo, res, fns)
    check_delim(repo, res, fns)
    check_2d(repo, res, fns)
    check_atomic(repo, res, fns)
    check_cast(repo, res, fns)
    check_mode(repo, res, fns)
    check_collections(repo, res, fns)
    from .common import dead_parameters

    nflow = 0
    for name, f in sorted(fns.items()):
        if name.startswith("_"):
            continue
        nflow += 1
        dead = dead_parameters(f.node)
        res.inst("F-FWD", f"{f.fq}: every parameter influences what is read / written", not dead)
        for p_ in dead:
            res.add(mk_finding(PROP, "F-FWD", f, f.node, f"{f.qualname}: the parameter `{p_}` cannot influence what is read or written (it is only checked, or stored in a name nothing reads)", role=f"dead:{p_}"))
    res.floor("readers/writers checked for dead parameters", nflow, 12)
    check_memo(repo, res, PROP, RW_MODULES)
    # the paired dict converters (shared with C10): a file round trip cannot succeed if they disagree
    from . import c10_convert

    sub = Result(PROP)
    c10_convert.check_hif(repo, sub)
    c10_convert.check_hdict(repo, sub)
    for f in sub.findings:
        f.prop = PROP
        res.add(f)
    res.evaluations += sub.evaluations
    res.obligations += sub.obligations
    res.discharged += sub.discharged
    res.instances |= sub.instances
    for k, v in sub.counters.items():
        res.counters[k] = res.counters.get(k, 0) + v
    return res


def calls_named(fn, name):
    return [c for c in ast.walk(fn.node) if isinstance(c, ast.Call) and (getattr(c.func, "id", None) == name or getattr(c.func, "attr", None) == name)]


def check_deleg(repo, res, fns):
    pairs = [("write_hif", "to_hif_dict", "read_hif", "from_hif_dict"), ("write_json", "to_hypergraph_dict", "read_json", "from_hypergraph_dict")]
    for wname, conv_w, rname, conv_r in pairs:
        w, r = fns.get(wname), fns.get(rname)
        if w is None or r is None:
            raise AnalysisError(f"{wname}/{rname} not found (anchor vanished)")
        # writer: data = conv(H); json.dumps(data...)
        ok = False
        for st in own_statements(w.node):
            if isinstance(st, ast.Assign) and isinstance(st.value, ast.Call) and getattr(st.value.func, "id", None) == conv_w and isinstance(st.targets[0], ast.Name):
                var = st.targets[0].id
                for d in calls_named(w, "dumps"):
                    if d.args and isinstance(d.args[0], ast.Name) and d.args[0].id == var:
                        # no mutation of `var` between
                        mutated = any(isinstance(n, ast.Subscript) and isinstance(n.ctx, (ast.Store, ast.Del)) and isinstance(n.value, ast.Name) and n.value.id == var for n in ast.walk(w.node)) or any(isinstance(c, ast.Call) and isinstance(c.func, ast.Attribute) and isinstance(c.func.value, ast.Name) and c.func.value.id == var and c.func.attr in ("pop", "update", "clear", "popitem", "setdefault") for c in ast.walk(w.node))
                        ok = not mutated
        for d in calls_named(w, "dumps"):
            # json.dumps(conv(H), ...) without a local in between
            if d.args and isinstance(d.args[0], ast.Call) and getattr(d.args[0].func, "id", getattr(d.args[0].func, "attr", None)) == conv_w:
                ok = True
        res.inst("F-DELEG", f"{wname} serialises exactly {conv_w}(H)", ok)
        if not ok:
            res.add(mk_finding(PROP, "F-DELEG", w, w.node, f"{wname} does not hand the unmodified result of {conv_w}(H) to json.dumps; keys added or dropped in between are invisible to the paired reader", role=conv_w))
        # reader: conv(json.loads(...), nodetype=..., edgetype=...)
        ok = False
        for c in calls_named(r, conv_r):
            a = c.args[0] if c.args else None
            if isinstance(a, ast.Name):
                defs = [s for s in own_statements(r.node) if isinstance(s, ast.Assign) and any(isinstance(t, ast.Name) and t.id == a.id for t in s.targets)]
                if defs and all(isinstance(d.value, ast.Call) and getattr(d.value.func, "attr", getattr(d.value.func, "id", None)) in ("loads", "load") for d in defs):
                    ok = True
        res.inst("F-DELEG", f"{rname} passes the parsed JSON to {conv_r}", ok)
        if not ok:
            res.add(mk_finding(PROP, "F-DELEG", r, r.node, f"{rname} does not pass the parsed JSON document unchanged to {conv_r}", role=conv_r))
    # collections
    for wname, rname in (("write_hif_collection", "read_hif_collection"), ("write_json", "read_json")):
        w, r = fns[wname], fns[rname]
        from .common import with_module_helpers

        helpers = [h for h in with_module_helpers(repo, w) if h is not w and h.name.startswith("_")]
        if helpers:
            # the collection bookkeeping was extracted into a private helper: analyse the helper as the writer body
            merged = ast.FunctionDef(name=w.name, args=w.node.args, body=list(w.node.body) + [s for h in helpers for s in h.node.body], decorator_list=[], lineno=w.node.lineno)
            ast.fix_missing_locations(merged)
            w = type(w)(w.module, w.name, w.qualname, merged, w.cls, w.parent)
        wkeys = {n.slice.value for n in ast.walk(w.node) if isinstance(n, ast.Subscript) and isinstance(n.slice, ast.Constant) and isinstance(n.slice.value, str) and isinstance(n.ctx, ast.Store)} | {k.value for d in ast.walk(w.node) if isinstance(d, ast.Dict) for k in d.keys if isinstance(k, ast.Constant)}
        wkeys |= {n.slice.value for n in ast.walk(w.node) if isinstance(n, ast.Subscript) and isinstance(n.slice, ast.Constant) and isinstance(n.slice.value, str) and isinstance(n.value, ast.Name) and n.value.id == "collection_data"}
        rkeys = {n.slice.value for n in ast.walk(r.node) if isinstance(n, ast.Subscript) and isinstance(n.slice, ast.Constant) and isinstance(n.slice.value, str)}
        ok = rkeys <= wkeys and {"datasets", "relative-path"} <= rkeys
        res.inst("F-DELEG", f"{rname} reads collection keys {sorted(rkeys)} that {wname} writes ({sorted(wkeys)})", ok)
        if not ok:
            res.add(mk_finding(PROP, "F-DELEG", r, r.node, f"collection format: {rname} reads keys {sorted(rkeys)} but {wname} writes {sorted(wkeys)}", role="collection"))
        # the relative path written is the file name the member was written to
        local1 = {}
        for st in own_statements(w.node):
            if isinstance(st, ast.Assign) and len(st.targets) == 1 and isinstance(st.targets[0], ast.Name):
                local1.setdefault(st.targets[0].id, []).append(st.value)

        def parts(e, depth=0):
            """f-string / name / constant flattened to a list of literal strings and ('v', name) placeholders."""
            if depth > 4:
                return [("?", unparse(e))]
            if isinstance(e, ast.Constant) and isinstance(e.value, str):
                return [e.value]
            if isinstance(e, ast.Name):
                if e.id in local1 and len(local1[e.id]) == 1 and isinstance(local1[e.id][0], (ast.JoinedStr, ast.Constant, ast.Call, ast.BinOp)):
                    return parts(local1[e.id][0], depth + 1)
                return [("v", e.id)]
            if isinstance(e, ast.Call):
                fname = getattr(e.func, "id", getattr(e.func, "attr", None))
                if fname == "join" and not (isinstance(e.func, ast.Attribute) and isinstance(e.func.value, ast.Constant)) and e.args:
                    # os.path.join(a, b, ...)
                    out = []
                    for i, a in enumerate(e.args):
                        out += ([] if i == 0 else ["/"]) + parts(a, depth + 1)
                    return out
                if fname == "str" and len(e.args) == 1:
                    return parts(e.args[0], depth + 1)
                if fname in ("sub", "subn", "replace", "lower", "upper", "casefold", "strip", "lstrip", "rstrip", "translate", "split", "hexdigest", "hash", "basename", "normalize", "encode", "title", "capitalize", "format_map", "slugify", "secure_filename"):
                    return [("lossy", unparse(e, 50))]
                if isinstance(e.func, ast.Name):
                    tgt = repo.resolve_name(w, w.module, e.func.id)
                    if isinstance(tgt, FunctionInfo) and tgt.module is w.module and not e.keywords and len(e.args) <= len(tgt.params):
                        rets = [r for r in own_statements(tgt.node) if isinstance(r, ast.Return) and r.value is not None]
                        if len(rets) == 1:
                            from ..provenance import subst as _subst
                            return parts(_subst(rets[0].value, dict(zip(tgt.params, e.args))), depth + 1)
                return [("?", unparse(e))]
            if isinstance(e, ast.Subscript) and isinstance(e.slice, ast.Slice):
                return [("lossy", unparse(e, 50))]
            if isinstance(e, ast.BinOp) and isinstance(e.op, ast.Add):
                return parts(e.left, depth + 1) + parts(e.right, depth + 1)
            if isinstance(e, ast.JoinedStr):
                out = []
                for v in e.values:
                    if isinstance(v, ast.FormattedValue) and v.format_spec is None and v.conversion == -1:
                        out += parts(v.value, depth + 1)
                    else:
                        out += parts(v, depth + 1)
                return out
            return [("?", unparse(e))]

        def norm(ps):
            out = []
            for x in ps:
                if isinstance(x, str) and out and isinstance(out[-1], str):
                    out[-1] += x
                else:
                    out.append(x)
            return out

        # the path each member is written to: second argument of the inner write call (write_json / write_hif / open)
        member_paths = []
        for c in ast.walk(w.node):
            if isinstance(c, ast.Call) and getattr(c.func, "id", getattr(c.func, "attr", None)) in (wname, "write_hif" if "hif" in wname else wname) and len(c.args) >= 2:
                a = c.args[1]
                if isinstance(a, ast.Name) and len(local1.get(a.id, [])) > 1:
                    member_paths += local1[a.id]  # one binding per branch (list / dict collections)
                else:
                    member_paths.append(a)
        if not member_paths:
            member_paths = [st.value for st in own_statements(w.node) if isinstance(st, ast.Assign) and isinstance(st.targets[0], ast.Name) and st.targets[0].id == "fname"]
        rels = [v for d in ast.walk(w.node) if isinstance(d, ast.Dict) for k, v in zip(d.keys, d.values) if isinstance(k, ast.Constant) and k.value == "relative-path"]
        ok = bool(member_paths) and bool(rels)
        pathparam = w.params[1] if len(w.params) > 1 else "path"
        relset = {tuple(map(str, norm(parts(r_)))) for r_ in rels}
        for mp in member_paths:
            pp = norm(parts(mp))
            # f"{path}/<relative>": strip the leading {path}/
            if len(pp) >= 2 and pp[0] == ("v", pathparam) and isinstance(pp[1], str) and pp[1].startswith("/"):
                rest = norm(([pp[1][1:]] if pp[1][1:] else []) + pp[2:])
                if tuple(map(str, rest)) not in relset:
                    ok = False
            else:
                ok = False
        lossy = [x for r_ in list(rels) + list(member_paths) for x in parts(r_) if isinstance(x, tuple) and x[0] == "lossy"]
        res.inst("F-DELEG", f"{wname}: member file names embed the dataset name as it is (different names, different files)", not lossy)
        if lossy:
            res.add(mk_finding(PROP, "F-DELEG", w, w.node, f"{wname}: the file name of a member is derived from its dataset name through `{lossy[0][1]}`, which can map two different names to the same file; the later member overwrites the earlier one and both names read back as the same network", role="injective"))
            ok = True  # reported above; the path comparison below would only repeat it
        res.inst("F-DELEG", f"{wname}: the recorded relative path is the file name each member is written to", ok)
        if not ok:
            res.add(mk_finding(PROP, "F-DELEG", w, w.node, f"{wname}: the 'relative-path' recorded for a member differs from the file name it is written to; the collection cannot be read back", role="relative-path"))


def check_fwd(repo, res, fns):
    n = 0
    for name, f in sorted(fns.items()):
        if name.startswith("_"):
            continue
        loaded = {x.id for x in ast.walk(f.node) if isinstance(x, ast.Name) and isinstance(x.ctx, ast.Load)}
        for p in f.all_params:
            n += 1
            ok = p in loaded
            res.inst("F-FWD", f"{f.qualname} uses its parameter `{p}`", ok)
            if not ok:
                res.add(mk_finding(PROP, "F-FWD", f, f.node, f"{f.qualname} accepts `{p}` but never uses it; what is read back ignores the caller's {p}", role=p))
        for c in ast.walk(f.node):
            if isinstance(c, ast.Call):
                for kw in c.keywords:
                    if kw.arg in f.all_params:
                        ok = any(isinstance(x, ast.Name) and x.id == kw.arg for x in ast.walk(kw.value))
                        res.inst("F-FWD", f"{f.qualname}:{c.lineno} forwards {kw.arg}={unparse(kw.value, 20)}", ok)
                        if not ok:
                            res.add(mk_finding(PROP, "F-FWD", f, c, f"{f.qualname} forwards `{kw.arg}={unparse(kw.value, 30)}` instead of its own `{kw.arg}` argument", role=kw.arg))
        # positional forwarding to generate_*/parse_* helpers: generate_edgelist(H, delimiter)
        for c in ast.walk(f.node):
            if isinstance(c, ast.Call) and getattr(c.func, "id", "").startswith(("generate_", "parse_")):
                callee = fns.get(c.func.id)
                if callee is None:
                    continue
                for i, a in enumerate(c.args):
                    if i < len(callee.params) and callee.params[i] in f.all_params:
                        ok = isinstance(a, ast.Name) and a.id == callee.params[i]
                        res.inst("F-FWD", f"{f.qualname}:{c.lineno} passes `{callee.params[i]}` positionally", ok)
                        if not ok:
                            res.add(mk_finding(PROP, "F-FWD", f, c, f"{f.qualname} passes `{unparse(a, 30)}` where {callee.qualname} expects `{callee.params[i]}`", role=callee.params[i]))
    res.floor("reader/writer parameter instances", n, 30)


def check_delim(repo, res, fns):
    n = 0
    for name, f in sorted(fns.items()):
        if f.module.name not in ("xgi.readwrite.edgelist", "xgi.readwrite.bipartite"):
            continue
        for c in ast.walk(f.node):
            if isinstance(c, ast.Call) and isinstance(c.func, ast.Attribute) and c.func.attr == "join":
                n += 1
                ok = isinstance(c.func.value, ast.Name) and c.func.value.id == "delimiter"
                res.inst("F-DELIM", f"{f.qualname}:{c.lineno} joins with the given delimiter", ok)
                if not ok:
                    res.add(mk_finding(PROP, "F-DELIM", f, c, f"{f.qualname} joins fields with `{unparse(c.func.value, 20)}` instead of the delimiter it was given", role="join"))
            if isinstance(c, ast.Call) and isinstance(c.func, ast.Attribute) and c.func.attr in ("split", "rsplit"):
                n += 1
                ok = len(c.args) >= 1 and isinstance(c.args[0], ast.Name) and c.args[0].id == "delimiter" and len(c.args) == 1 and not c.keywords
                res.inst("F-DELIM", f"{f.qualname}:{c.lineno} splits on the given delimiter", ok)
                if not ok:
                    res.add(mk_finding(PROP, "F-DELIM", f, c, f"{f.qualname} splits lines with `{unparse(c, 40)}` instead of on the delimiter it was given (and on nothing else)", role="split"))
        # the delimiter that reaches join/split is the caller's: the parameter is never rebound on the way
        if "delimiter" in f.all_params:
            rebinds = [st for st in ast.walk(f.node) if isinstance(st, (ast.Assign, ast.AugAssign, ast.AnnAssign)) and any(isinstance(t, ast.Name) and t.id == "delimiter" for tt in (st.targets if isinstance(st, ast.Assign) else [st.target]) for t in ast.walk(tt))]
            res.inst("F-DELIM", f"{f.qualname} does not rebind `delimiter`", not rebinds)
            for st in rebinds:
                res.add(mk_finding(PROP, "F-DELIM", f, st, f"{f.qualname} replaces the delimiter it was given (`{unparse(st, 50)}`); a file written with that delimiter is then split on something else (labels that contain the substitute separator are broken up)", role="rebind"))
    res.floor("join/split sites in the text formats", n, 4)


def check_2d(repo, res, fns):
    f = fns.get("read_incidence_matrix")
    if f is None:
        raise AnalysisError("read_incidence_matrix not found (anchor vanished)")
    loads = [c for c in ast.walk(f.node) if isinstance(c, ast.Call) and getattr(c.func, "attr", getattr(c.func, "id", None)) in ("loadtxt", "genfromtxt")]
    if not loads:
        raise AnalysisError("read_incidence_matrix: np.loadtxt call not found (extractor does not recognise the code)")
    par = {}
    for p in ast.walk(f.node):
        for ch in ast.iter_child_nodes(p):
            par[ch] = p
    for c in loads:
        ndmin = next((k.value for k in c.keywords if k.arg == "ndmin"), None)
        if ndmin is None:
            # np.loadtxt(path, **kwargs) with kwargs a dict literal / dict(...) call bound once in the function
            for k in c.keywords:
                if k.arg is None and isinstance(k.value, ast.Name):
                    defs = [st.value for st in ast.walk(f.node) if isinstance(st, ast.Assign) and len(st.targets) == 1 and isinstance(st.targets[0], ast.Name) and st.targets[0].id == k.value.id]
                    mutated = any(isinstance(x, ast.Subscript) and isinstance(x.ctx, (ast.Store, ast.Del)) and isinstance(x.value, ast.Name) and x.value.id == k.value.id for x in ast.walk(f.node)) or any(isinstance(x, ast.Call) and isinstance(x.func, ast.Attribute) and isinstance(x.func.value, ast.Name) and x.func.value.id == k.value.id and x.func.attr in ("pop", "update", "clear", "setdefault", "popitem") for x in ast.walk(f.node))
                    if len(defs) == 1 and not mutated:
                        d = defs[0]
                        if isinstance(d, ast.Dict):
                            for kk, vv in zip(d.keys, d.values):
                                if isinstance(kk, ast.Constant) and kk.value == "ndmin":
                                    ndmin = vv
                        elif isinstance(d, ast.Call) and getattr(d.func, "id", None) == "dict":
                            for kw in d.keywords:
                                if kw.arg == "ndmin":
                                    ndmin = kw.value
        ok = isinstance(ndmin, ast.Constant) and ndmin.value == 2
        why = "np.loadtxt squeezes single-row / single-column files to 1-D and the result reaches from_incidence_matrix (n, m = I.shape) without ndmin=2; a hypergraph with one node or one edge cannot be read back"
        if not ok:
            # np.atleast_2d / reshape applied afterwards cannot restore the orientation: the loader has already squeezed
            # an n x 1 file (n nodes, one edge) and a 1 x n file (one node, n edges) to the same 1-D array; atleast_2d
            # always makes it a row, so the single-edge network comes back as a single node in n edges
            p = par.get(c)
            fixed_after = None
            if isinstance(p, ast.Call) and getattr(p.func, "attr", getattr(p.func, "id", None)) in ("atleast_2d", "reshape"):
                fixed_after = getattr(p.func, "attr", getattr(p.func, "id", None))
            if isinstance(p, ast.Assign) and isinstance(p.targets[0], ast.Name):
                v = p.targets[0].id
                for x in ast.walk(f.node):
                    if isinstance(x, ast.Call) and getattr(x.func, "attr", getattr(x.func, "id", None)) in ("atleast_2d", "reshape") and any(isinstance(y, ast.Name) and y.id == v for y in ast.walk(x)):
                        fixed_after = getattr(x.func, "attr", getattr(x.func, "id", None))
            if fixed_after == "reshape":
                raise AnalysisError("read_incidence_matrix: the loaded array is reshaped by hand; whether the row/column orientation of single-row and single-column files survives is not something this rule can see (extractor does not recognise the code)")
            if fixed_after == "atleast_2d":
                why = f"np.{getattr(c.func, 'attr', 'loadtxt')} squeezes single-row and single-column files to the same 1-D array and np.atleast_2d always turns that into a row: a file with n rows and one column (n nodes, one edge) is read back as one node in n edges; only the loader itself (np.loadtxt(..., ndmin=2)) knows the orientation"
        res.inst("F-2D", f"read_incidence_matrix:{c.lineno} the loaded array keeps its two dimensions and their orientation", ok)
        if not ok:
            res.add(mk_finding(PROP, "F-2D", f, c, f"read_incidence_matrix: {why}", role="ndmin"))
    conv = repo.modules.get("xgi.convert.incidence")
    fi = conv.functions.get("from_incidence_matrix") if conv else None
    if fi is not None:
        destructures = any(isinstance(s, ast.Assign) and isinstance(s.targets[0], ast.Tuple) and isinstance(s.value, ast.Attribute) and s.value.attr == "shape" for s in own_statements(fi.node))
        res.info.append({"F-2D": "from_incidence_matrix destructures I.shape into two values" if destructures else "from_incidence_matrix no longer destructures I.shape"})


def check_atomic(repo, res, fns):
    for name in ("write_hif", "write_json"):
        f = fns[name]
        cfg = CFG(f.node)
        opens = [s for s in own_statements(f.node) if isinstance(s, ast.With) and any(isinstance(i.context_expr, ast.Call) and getattr(i.context_expr.func, "id", None) == "open" and len(i.context_expr.args) > 1 and isinstance(i.context_expr.args[1], ast.Constant) and "w" in str(i.context_expr.args[1].value) for i in s.items)]
        if not opens:
            raise AnalysisError(f"{name}: open(path, 'w') not found (extractor does not recognise the code)")
        for o in opens:
            def dumps(n):
                return isinstance(n, ast.AST) and any(isinstance(c, ast.Call) and getattr(c.func, "attr", getattr(c.func, "id", None)) == "dumps" for c in own_nodes(n))
            ok = cfg.dominated_by(o, dumps)
            res.inst("F-ATOMIC", f"{name}:{o.lineno} serialisation dominates open(..., 'w')", ok)
            if not ok:
                res.add(mk_finding(PROP, "F-ATOMIC", f, o, f"{name} opens the target for writing before the network has been serialised; a network that cannot be serialised truncates an existing file", role="open"))


def _guard_says_none(guards, typ):
    for t, b in guards:
        txt = " ".join(ast.unparse(t).split())
        if (txt == f"{typ} is None" and b) or (txt == f"{typ} is not None" and not b) or (txt == f"{typ} is None" and b):
            return True
    return False


def check_cast(repo, res, fns):
    from ..provenance import Resolver

    fn = fns.get("parse_bipartite_edgelist")
    if fn is None:
        raise AnalysisError("parse_bipartite_edgelist not found (anchor vanished)")
    modfns = {f.name: f.node for f in fn.module.functions.values()}
    rs = Resolver(fn.node, modfns)
    calls = [c for c in ast.walk(fn.node) if isinstance(c, ast.Call) and isinstance(c.func, ast.Attribute) and c.func.attr == "add_node_to_edge" and len(c.args) >= 2]
    if not calls:
        raise AnalysisError("parse_bipartite_edgelist: no add_node_to_edge(edge, node) call (extractor does not recognise the code)")

    def column(slice_expr, scope_alt_guards):
        """{dual truth value: column number} for the index expression of a field (resolved through locals/records)."""
        out = {}
        for a in rs.resolve(fn.node, slice_expr):
            if not (isinstance(a.expr, ast.Constant) and isinstance(a.expr.value, int)):
                return None
            truth = None
            for t, b in a.guards:
                txt = " ".join(ast.unparse(t).split())
                if txt == "dual":
                    truth = b
                elif txt == "not dual":
                    truth = not b
            if truth is None:
                return None
            out[truth] = a.expr.value
        return out

    # the generator writes "node<delimiter>edge" (node first): without dual the node is column 0 and the edge column 1
    want = {"node": {False: 0, True: 1}, "edge": {False: 1, True: 0}}
    for call in calls:
        for role, arg, typ in (("edge", call.args[0], "edgetype"), ("node", call.args[1], "nodetype")):
            alts = rs.resolve(fn.node, arg)
            casts = 0
            for a in alts:
                e = a.expr
                field = None
                if isinstance(e, ast.Call) and isinstance(e.func, ast.Name) and len(e.args) == 1 and isinstance(e.args[0], ast.Subscript):
                    field, cast = e.args[0], e.func.id
                elif isinstance(e, ast.Subscript):
                    field, cast = e, None
                else:
                    raise AnalysisError(f"parse_bipartite_edgelist: cannot resolve where the {role} `{a.text()}` comes from (extractor does not recognise the code)")
                col = column(field.slice, a.guards)
                if col is None:
                    raise AnalysisError(f"parse_bipartite_edgelist: cannot resolve the column `{unparse(field.slice, 30)}` of the {role} field to constants under `dual` (extractor does not recognise the code)")
                col_ok = col == want[role]
                if cast is not None:
                    ok = cast == typ and col_ok
                    casts += ok
                    res.inst("F-CAST", f"parse_bipartite_edgelist:{call.lineno} {role} <- {a.text()} (columns {col})", ok)
                    if not ok:
                        why = f"cast with `{cast}` instead of `{typ}`" if cast != typ else f"taken from column {col} (dual -> column) instead of {want[role]}"
                        res.add(mk_finding(PROP, "F-CAST", fn, call, f"parse_bipartite_edgelist: the {role} handed to add_node_to_edge can be `{a.text()}`: {why}; with different node and edge types (or columns) the IDs read back differ from those written", role=f"{role}:{a.text()}"))
                else:
                    ok = col_ok and _guard_says_none(a.guards, typ)
                    res.inst("F-CAST", f"parse_bipartite_edgelist:{call.lineno} {role} <- raw {a.text()} when {typ} is None", ok)
                    if not ok:
                        why = f"column {col} instead of {want[role]}" if not col_ok else f"without `{typ}` being None on that path"
                        res.add(mk_finding(PROP, "F-CAST", fn, call, f"parse_bipartite_edgelist: the {role} handed to add_node_to_edge can be the raw field `{a.text()}` ({why}); the documented cast is skipped", role=f"{role}:raw:{a.text()}"))
            if not casts:
                res.add(mk_finding(PROP, "F-CAST", fn, call, f"parse_bipartite_edgelist: no path casts the {role} with `{typ}`", role=f"{role}:none"))
    # parse_edgelist: members are cast element-wise with nodetype
    fe = fns.get("parse_edgelist")
    if fe is None:
        raise AnalysisError("parse_edgelist not found (anchor vanished)")
    rs = Resolver(fe.node, {f.name: f.node for f in fe.module.functions.values()})
    calls = [c for c in ast.walk(fe.node) if isinstance(c, ast.Call) and isinstance(c.func, ast.Attribute) and c.func.attr in ("add_edge", "add_edges_from") and c.args]
    if not calls:
        raise AnalysisError("parse_edgelist: no add_edge call (extractor does not recognise the code)")
    for call in calls:
        alts = rs.resolve(fe.node, call.args[0])
        ok = False
        for a in alts:
            for n in ast.walk(a.expr):
                if isinstance(n, (ast.ListComp, ast.SetComp, ast.GeneratorExp)) and isinstance(n.elt, ast.Call) and isinstance(n.elt.func, ast.Name) and n.elt.func.id == "nodetype":
                    ok = True
                if isinstance(n, ast.Call) and isinstance(n.func, ast.Name) and n.func.id == "map" and n.args and isinstance(n.args[0], ast.Name) and n.args[0].id == "nodetype":
                    ok = True
        if not ok:
            # loop form (possibly inside a nested helper): for label in labels: members.append(nodetype(label))
            loop_vars = set()
            for n in ast.walk(fe.node):
                if isinstance(n, (ast.For, ast.comprehension)):
                    loop_vars |= {x.id for x in ast.walk(n.target) if isinstance(x, ast.Name)}
            ok = any(isinstance(n, ast.Call) and isinstance(n.func, ast.Name) and n.func.id == "nodetype" and len(n.args) == 1 and isinstance(n.args[0], ast.Name) and n.args[0].id in loop_vars for n in ast.walk(fe.node))
        res.inst("F-CAST", f"parse_edgelist:{call.lineno} members are cast element-wise with nodetype", ok)
        if not ok:
            res.add(mk_finding(PROP, "F-CAST", fe, call, "parse_edgelist: the members handed to the network are never cast element-wise with `nodetype`", role="members"))


def check_memo(repo, res, prop, module_names):
    from ..provenance import FUNC, memo_tables

    n = 0
    for mn in module_names:
        mi = repo.modules.get(mn)
        if mi is None:
            continue
        for f in mi.functions.values():
            for node in ast.walk(f.node):
                if not isinstance(node, FUNC):
                    continue
                n += 1
                for tab, st, missing in memo_tables(node):
                    ok = not missing
                    res.inst("F-MEMO", f"{f.qualname}:{st.lineno} memo `{tab}` keyed by everything its value depends on", ok)
                    if not ok:
                        res.add(mk_finding(prop, "F-MEMO", f, st, f"{f.qualname}: the memo table `{tab}` outlives a call of `{node.name}` and stores `{unparse(st.value, 40)}` under the key `{unparse(st.targets[0].slice, 30)}`, which omits {missing}; a later call with a different {'/'.join(missing)} gets the value converted for another one", role=tab))
    res.inst("F-MEMO", f"{n} functions (nested included) scanned for memo tables", True)


def check_mode(repo, res, fns):
    """Sibling agreement of writer and reader of the line-based text formats on file mode and per-line coding."""
    def open_modes(fn):
        out = []
        for c in ast.walk(fn.node):
            if isinstance(c, ast.Call) and getattr(c.func, "id", None) == "open":
                mode = c.args[1].value if len(c.args) > 1 and isinstance(c.args[1], ast.Constant) else next((k.value.value for k in c.keywords if k.arg == "mode" and isinstance(k.value, ast.Constant)), "r")
                out.append((c, mode))
        return out

    n = 0
    for wname, rname in (("write_edgelist", "read_edgelist"), ("write_bipartite_edgelist", "read_bipartite_edgelist")):
        w, r = fns.get(wname), fns.get(rname)
        if w is None or r is None:
            raise AnalysisError(f"{wname}/{rname} not found (anchor vanished)")
        wm, rm = open_modes(w), open_modes(r)
        if not wm or not rm:
            raise AnalysisError(f"{wname}/{rname}: open() call not found (extractor does not recognise the code)")
        n += 1
        wbin = all("b" in m for _, m in wm)
        rbin = all("b" in m for _, m in rm)
        wenc = any(isinstance(c, ast.Call) and getattr(c.func, "attr", None) == "encode" for c in ast.walk(w.node))
        rdec = any(isinstance(c, ast.Call) and getattr(c.func, "attr", None) == "decode" for c in ast.walk(r.node))
        ok = (wbin == rbin) and (not wbin or (wenc == rdec))
        res.inst("F-MODE", f"{wname} ({'binary' if wbin else 'text'}, per-line encode: {wenc}) / {rname} ({'binary' if rbin else 'text'}, per-line decode: {rdec})", ok)
        if not ok:
            res.add(mk_finding(PROP, "F-MODE", r, rm[0][0], f"{rname} opens the file in {'binary' if rbin else 'text'} mode{' and decodes line by line' if rdec else ''} while {wname} writes it in {'binary' if wbin else 'text'} mode{' encoding line by line' if wenc else ''}; text mode translates every \\r into a line break and strips a byte-order mark only once, so labels that contain \\r, or encodings that emit a BOM per line (utf-8-sig, utf-16), do not read back", role=rname))
    res.floor("writer/reader pairs of line-based formats", n, 2)


def check_collections(repo, res, fns):
    from ..cfg import CFG

    n = 0
    for wname, rname in (("write_json", "read_json"), ("write_hif_collection", "read_hif_collection"), ("write_hif", "read_hif")):
        w, r = fns.get(wname), fns.get(rname)
        if w is None or r is None:
            raise AnalysisError(f"{wname}/{rname} not found (anchor vanished)")
        if not any(isinstance(c, ast.Call) and getattr(c.func, "attr", None) == "dumps" for c in ast.walk(w.node)):
            # the serialisation lives in a private helper of the module (one call per collection kind)
            from .common import with_module_helpers

            hs = [h for h in with_module_helpers(repo, w) if h is not w and any(isinstance(c, ast.Call) and getattr(c.func, "attr", None) == "dumps" for c in ast.walk(h.node))]
            if hs:
                w = hs[0]
        cfg = CFG(w.node)
        stmts = own_statements(w.node)
        # literals the reader dispatches on: X["K"] == "LIT"
        wanted = {}
        for c in ast.walk(r.node):
            if isinstance(c, ast.Compare) and len(c.ops) == 1 and isinstance(c.ops[0], ast.Eq) and isinstance(c.left, ast.Subscript) and isinstance(c.left.slice, ast.Constant) and isinstance(c.comparators[0], ast.Constant) and isinstance(c.comparators[0].value, str):
                wanted[c.left.slice.value] = c.comparators[0].value
        dumps = [st for st in stmts if isinstance(st, ast.Assign) and isinstance(st.value, ast.Call) and getattr(st.value.func, "attr", None) == "dumps" and st.value.args and isinstance(st.targets[0], ast.Name)]
        if not dumps:
            raise AnalysisError(f"{wname}: no `<name> = json.dumps(<record>)` statement (extractor does not recognise the code)")
        for d in dumps:
            n += 1
            rec, out = (d.value.args[0].id if isinstance(d.value.args[0], ast.Name) else None), d.targets[0].id
            shown = rec or unparse(d.value.args[0], 40)
            # (1) the string is written: every path from the dumps to the exit passes file.write(<string>)
            def writes(nd, out=out):
                return isinstance(nd, ast.AST) and any(isinstance(c, ast.Call) and getattr(c.func, "attr", None) == "write" and c.args and isinstance(c.args[0], ast.Name) and c.args[0].id == out for c in ast.walk(nd) if not isinstance(nd, (ast.If, ast.For, ast.While, ast.Try, ast.With)) or c is nd)
            from ..cfg import EXIT
            ok = EXIT not in cfg.reachable(d, avoid=writes)
            res.inst("F-COLL", f"{wname}:{d.lineno} the serialised `{shown}` is written to the file on every path", ok)
            if not ok:
                res.add(mk_finding(PROP, "F-COLL", w, d, f"{wname}: `{unparse(d, 50)}` is computed but a path reaches the end of the function without writing it to the file; nothing (or an empty file) is left to read back", role=f"write:{shown}"))
            # (2) collection records: reader-dispatched literals stored before the dump; members written in the loop
            is_collection = rec is not None and any(isinstance(x, ast.Subscript) and isinstance(x.value, ast.Subscript) and isinstance(x.value.value, ast.Name) and x.value.value.id == rec and isinstance(x.value.slice, ast.Constant) and x.value.slice.value == "datasets" for st in stmts for x in ast.walk(st))
            if not is_collection or rec is None:
                continue
            for key, lit in wanted.items():
                def stores(nd, key=key, lit=lit, rec=rec):
                    return isinstance(nd, ast.Assign) and any(isinstance(t, ast.Subscript) and isinstance(t.value, ast.Name) and t.value.id == rec and isinstance(t.slice, ast.Constant) and t.slice.value == key for t in nd.targets) and isinstance(nd.value, ast.Constant) and nd.value.value == lit
                ok = cfg.dominated_by(d, stores)
                res.inst("F-COLL", f"{wname}:{d.lineno} {rec}[{key!r}] = {lit!r} is stored before the record is serialised", ok)
                if not ok:
                    res.add(mk_finding(PROP, "F-COLL", w, d, f"{wname}: {rname} recognises a collection by {key!r} == {lit!r}, but a path serialises `{rec}` without having stored it; the collection file is then read as a single network (or rejected)", role=f"literal:{key}"))
            # the loop that records the members also writes each member
            loops = [lp for lp in stmts if isinstance(lp, ast.For) and any(isinstance(x, ast.Subscript) and isinstance(x.ctx, ast.Store) and isinstance(x.value, ast.Subscript) and isinstance(x.value.value, ast.Name) and x.value.value.id == rec for x in ast.walk(lp)) and cfg.dominated_by(d, lambda nd, lp=lp: nd is lp)]
            for lp in loops:
                member_writer = "write_hif" if "hif" in wname else wname
                calls = [c for b in lp.body for c in ast.walk(b) if isinstance(c, ast.Call) and getattr(c.func, "id", None) == member_writer and len(c.args) >= 2] if True else []
                in_body = [c for c in calls if any(c in list(ast.walk(b)) for b in lp.body if not isinstance(b, (ast.If, ast.Try)))]
                ok = bool(in_body)
                res.inst("F-COLL", f"{wname}:{lp.lineno} every recorded member is written by {member_writer}() in the same iteration", ok)
                if not ok:
                    res.add(mk_finding(PROP, "F-COLL", w, lp, f"{wname}: the loop records a relative path for every member of the collection but does not (unconditionally) write the member with {member_writer}(); the collection file points at files that do not exist", role="member"))
    res.floor("serialisation sites in the JSON/HIF writers", n, 4)


FORMAT_PARAMS = ("nodetype", "edgetype", "delimiter", "comments", "encoding", "dual", "create_using", "max_order", "data")


def check_shared_forwarding(repo, res, fns):
    """F-FWD (shared parameters): when a reader / writer / parser calls another one of this package (or itself, for the
    members of a collection) and both have a format parameter of the same name (nodetype, edgetype, delimiter, comments,
    encoding, dual, create_using, max_order), the callee receives the caller's value.  A member file read without the
    caller's `edgetype` comes back with string IDs where the single-file path returns the cast ones."""
    n = 0
    by_name = dict(fns)
    conv = {}
    for mn, mi in repo.modules.items():
        if mn.startswith("xgi.convert."):
            conv.update(mi.functions)
    for f in fns.values():
        mine = set(f.all_params)
        for c in ast.walk(f.node):
            if not isinstance(c, ast.Call):
                continue
            nm = getattr(c.func, "id", getattr(c.func, "attr", None))
            g = by_name.get(nm) or conv.get(nm)
            if g is None:
                continue
            if any(isinstance(a, ast.Starred) for a in c.args) or any(k.arg is None for k in c.keywords):
                continue  # bundles: handled by the dropped / dead parameter rules
            gp = g.all_params
            passed = set(gp[: len(c.args)]) | {k.arg for k in c.keywords if k.arg}
            for p_ in FORMAT_PARAMS:
                if p_ in mine and p_ in gp and p_ != "data":
                    n += 1
                    ok = p_ in passed
                    res.inst("F-FWD", f"{f.qualname}:{c.lineno} {g.name}(... {p_}=...) receives the caller's `{p_}`", ok)
                    if not ok:
                        res.add(mk_finding(PROP, "F-FWD", f, c, f"{f.qualname}: `{unparse(c, 50)}` does not hand its own `{p_}` on to {g.name}, which then works with its default; what this path reads or writes differs from the other paths of the same function (e.g. the members of a collection come back with uncast IDs)", role=f"{g.name}:{p_}"))
    res.floor("format parameters shared between a reader/writer and the function it calls", n, 4)
