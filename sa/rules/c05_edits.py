"""C05 - Each edit has exactly its documented effect (NARROW: four structural clauses only).

E-TYPE   an edit rejected for a missing/invalid ID raises the library's own error type: (a) every explicit raise
         guarded by a presence/None test of an ID or sitting in a handler that converts KeyError/IDNotFound/TypeError
         raises XGIError/IDNotFound (or re-raises the TypeError of IDDict); (b) every set.remove(<parameter>) on a
         stored member set (or a local copy of one) is dominated by a membership test or enclosed in a try whose
         KeyError handler raises a library error; (c) the four tables are IDDicts.
E-FOOT   double_edge_swap / random_edge_shuffle insert and delete no key, and write no attribute, network attribute
         or counter (the "keep all IDs and all attributes" clause).
E-ALIAS  every public method of the three classes reads each of its parameters, and a keyword it forwards under its
         own parameter's name carries that parameter (the deprecated aliases and thin wrappers perform the documented edit).
E-LOOPALIAS  inside a bulk loop no alias of an object created outside the loop (e.g. the **attr kwargs) is mutated:
         per-element attribute precedence must not leak from one element to the next.

Equality with a reference model after arbitrary edit sequences is NOT decided.
"""
from __future__ import annotations

import ast

from ..cfg import CFG, own_nodes, own_statements
from ..effects import EATTR, EDGE, NATTR, NETATTR, NODE, UID, Effects
from ..model import CORE_CLASSES, AnalysisError, ClassInfo
from ..report import Result, mk_finding
from .common import unparse

PROP = "C05"
TABLES = ("_node", "_edge", "_node_attr", "_edge_attr")
LIB_ERRORS = {"XGIError", "IDNotFound", "XGIException"}
MUTATING = {"update", "append", "add", "extend", "setdefault", "pop", "clear", "remove", "discard", "insert"}


def run(ctx):
    repo = ctx.repo
    res = Result(PROP)
    res.rules = ["E-TYPE", "E-REJECT", "E-DIR", "E-FOOT", "E-FIRST", "E-ALIAS", "E-LOOPALIAS", "E-SKIP", "E-IDKEEP", "R-INC", "R-EXC", "Q-ORDER", "Q-FLAG", "Q-COPY"]
    res.explanation = (
        "Narrow claim. Raise sites of the three class bodies are classified by their guard and the raised class is "
        "resolved; removals keyed by parameters are checked for a dominating membership test or a converting handler; "
        "the effect footprint of the two degree-preserving moves comes from the effect analysis; parameters of every "
        "public method must be read and forwarded under their own name; loop bodies must not mutate aliases of objects "
        "created outside the loop."
    )
    eng = Effects(repo)
    n_raise = n_rm = n_alias = n_loops = 0
    for cname in CORE_CLASSES:
        ci = repo.get_class(cname)
        for attr in ("_node_dict_factory", "_node_attr_dict_factory", "_edge_dict_factory", "_edge_attr_dict_factory"):
            v = None
            for c in repo.mro(ci):
                if attr in c.class_attrs:
                    v = c.class_attrs[attr]
                    break
            ok = isinstance(v, ast.Name) and v.id == "IDDict"
            res.inst("E-TYPE", f"{cname}.{attr} is IDDict", ok)
            if not ok:
                res.add(mk_finding(PROP, "E-TYPE", None, ci.node, f"{cname}.{attr} is not IDDict: lookups of missing IDs would raise a bare KeyError", role=f"{cname}.{attr}"))
        for m in ci.methods.values():
            if ctx.only and ctx.only != m.qualname:
                continue
            n_raise += check_raises(repo, res, m)
            n_rm += check_removals(repo, res, m)
            n_alias += check_params(repo, res, ci, m)
            n_loops += check_loop_alias(res, m)
    n_rm += check_table_removals(repo, res, ctx)
    if not ctx.only:
        res.floor("explicit raise statements classified", n_raise, 30)
        res.floor("methods checked for dropped parameters", n_alias, 70)
        check_idddict(repo, res)
        check_dict_bypass(repo, res)
        check_foot(repo, eng, res)
        check_clear_update(repo, eng, res)
        check_merge_first(repo, res)
        from .common import pattern_lint

        from .common import optional_id_truthiness

        pattern_lint(res, PROP, "E-IDKEEP", [m for cn in CORE_CLASSES for m in repo.get_class(cn).methods.values()], optional_id_truthiness,
                     "def add_edge(self, members, idx=None):\n    uid = next(self._edge_uid) if not idx else idx\n    self._edge[uid] = set(members)\n",
                     lambda nd: f"`{unparse(nd, 50)}` decides by truthiness whether the caller gave an ID; the admissible IDs 0, 0.0 and '' are then replaced by an automatic ID (the element is stored under another label than the one asked for, and a record addressed to that label misses it)",
                     "optional ID parameters tested for truthiness instead of `is None`")
        pattern_lint(res, PROP, "E-SKIP", [m for cn in CORE_CLASSES for m in repo.get_class(cn).methods.values()], swallowed_lookup_around_loop,
                     "def set_edge_attributes(self, values, name):\n    try:\n        for e, v in values.items():\n            self._edge_attr[e][name] = v\n    except IDNotFound:\n        warn('unknown edge')\n",
                     lambda nd: f"`except {unparse(nd.type, 30) if nd.type is not None else ''}` swallows the failed lookup of ONE element but encloses the whole loop over the caller's elements: the first unknown ID ends the bulk operation and every later element is silently not applied (the documented effect is that unknown IDs are skipped and the rest is set)",
                     "handlers that skip an unknown ID placed around the bulk loop instead of inside it")
        # cleanup(in_place=True) is an edit of the receiver with a documented effect per flag (no isolated nodes, no
        # singleton edges, ...): the order and guards of its steps (rules of C19, whose text names cleanup) are
        # checked here as well
        from .c19_derived import check_cleanup

        for cname in CORE_CLASSES:
            ci = repo.get_class(cname)
            m = ci.methods.get("cleanup")
            if m is not None:
                check_cleanup(repo, res, m, cname, prop=PROP)
        from .common import check_dead_params

        nd = check_dead_params(res, PROP, "E-ALIAS", [m for cn in CORE_CLASSES for m in repo.get_class(cn).methods.values()], "what the method does or returns")
        res.floor("methods checked for dead parameters", nd, 60)
    return res


# ------------------------------------------------------------------------------------------ E-TYPE
def check_idddict(repo, res):
    mi = repo.modules.get("xgi.utils.utilities")
    ci = mi.classes.get("IDDict") if mi else None
    if ci is None:
        raise AnalysisError("xgi.utils.utilities.IDDict not found (anchor vanished)")
    for mname, exc in (("__getitem__", "IDNotFound"), ("__delitem__", "IDNotFound")):
        m = ci.methods.get(mname)
        ok = m is not None and any(isinstance(h, ast.ExceptHandler) and isinstance(h.type, ast.Name) and h.type.id == "KeyError" and any(isinstance(r, ast.Raise) and isinstance(r.exc, ast.Call) and getattr(r.exc.func, "id", "") == exc for r in ast.walk(h)) for h in ast.walk(m.node)) if m else False
        res.inst("E-TYPE", f"IDDict.{mname} converts KeyError into {exc}", ok)
        if not ok:
            res.add(mk_finding(PROP, "E-TYPE", m, m.node if m else ci.node, f"IDDict.{mname} no longer converts KeyError into {exc}", role=mname))
    m = ci.methods.get("__setitem__")
    ok = m is not None and any(isinstance(s, ast.If) and any(isinstance(r, ast.Raise) and isinstance(r.exc, ast.Call) and getattr(r.exc.func, "id", "") == "XGIError" for r in ast.walk(s)) and isinstance(s.test, ast.Compare) and isinstance(s.test.comparators[0], ast.Constant) and s.test.comparators[0].value is None for s in ast.walk(m.node)) if m else False
    res.inst("E-TYPE", "IDDict.__setitem__ rejects None with XGIError", ok)
    if not ok:
        res.add(mk_finding(PROP, "E-TYPE", m, m.node if m else ci.node, "IDDict.__setitem__ does not reject None with XGIError", role="__setitem__"))


def check_dict_bypass(repo, res):
    """E-TYPE: IDDict turns a missing key into IDNotFound only in __getitem__ / __delitem__ (and whatever else it
    overrides); a keyed plain-dict method it does not override (pop, popitem ...) called on one of the four tables with a
    key that no membership test established raises a bare KeyError."""
    mi = repo.modules.get("xgi.utils.utilities")
    idd = mi.classes.get("IDDict") if mi else None
    overridden = set(idd.methods) if idd else set()
    keyed = {"pop"} - overridden
    n = 0
    for cname in CORE_CLASSES:
        ci = repo.get_class(cname)
        for m in ci.methods.values():
            selfn = m.params[0] if m.params else "self"
            par = None
            for c in ast.walk(m.node):
                if not (isinstance(c, ast.Call) and isinstance(c.func, ast.Attribute) and c.func.attr in keyed and isinstance(c.func.value, ast.Attribute) and c.func.value.attr in TABLES and isinstance(c.func.value.value, ast.Name) and c.func.value.value.id == selfn):
                    continue
                n += 1
                ok = len(c.args) >= 2  # a default makes the call total
                if not ok:
                    par = par or _parents(m.node)
                    key = unparse(c.args[0]) if c.args else "?"
                    table = c.func.value.attr
                    p = c
                    while p in par and not ok:
                        child, p = p, par[p]
                        if isinstance(p, ast.If):
                            for t in ast.walk(p.test):
                                if isinstance(t, ast.Compare) and len(t.ops) == 1 and isinstance(t.ops[0], (ast.In, ast.NotIn)) and unparse(t.left) == key and table in unparse(t.comparators[0]):
                                    ok = True
                        if isinstance(p, ast.Try) and any(child is b or any(child is x for x in ast.walk(b)) for b in p.body):
                            for h in p.handlers:
                                names = [h.type.id] if isinstance(h.type, ast.Name) else [e.id for e in getattr(h.type, "elts", []) if isinstance(e, ast.Name)]
                                if set(names) & {"KeyError", "Exception"} and any(isinstance(r, ast.Raise) and r.exc is not None and (getattr(r.exc.func if isinstance(r.exc, ast.Call) else r.exc, "id", None) in LIB_ERRORS) for r in ast.walk(h)):
                                    ok = True
                res.inst("E-TYPE", f"{m.qualname}:{c.lineno} `{unparse(c, 40)}` cannot surface a bare KeyError", ok)
                if not ok:
                    res.add(mk_finding(PROP, "E-TYPE", m, c, f"{m.qualname}: `{unparse(c, 50)}` uses dict.{c.func.attr}, which IDDict does not override; for an ID that is not in the network it raises a bare KeyError instead of the library's IDNotFound (only __getitem__ and __delitem__ convert it)", role=f"{c.func.attr}"))
    res.inst("E-TYPE", f"{n} keyed plain-dict method calls on the tables (IDDict overrides {sorted(overridden & {'__getitem__', '__delitem__', '__setitem__', 'pop'})})", True)


def _parents(fn_node):
    par = {}
    for p in ast.walk(fn_node):
        for ch in ast.iter_child_nodes(p):
            par[ch] = p
    return par


def id_related_test(test, selfn):
    for n in ast.walk(test):
        if isinstance(n, ast.Compare) and len(n.ops) == 1:
            if isinstance(n.ops[0], (ast.In, ast.NotIn)):
                r = n.comparators[0]
                for x in ast.walk(r):
                    if isinstance(x, ast.Attribute) and x.attr in TABLES and isinstance(x.value, ast.Name) and x.value.id == selfn:
                        return True
                if isinstance(r, ast.Name) and r.id == selfn:
                    return True
            if isinstance(n.ops[0], (ast.Is, ast.Eq)) and isinstance(n.comparators[0], ast.Constant) and n.comparators[0].value is None and isinstance(n.left, ast.Name) and n.left.id in ("node", "n", "idx", "edge", "e", "uid"):
                return True
    return False


def check_raises(repo, res, m):
    selfn = m.params[0] if m.params else "self"
    par = _parents(m.node)
    n = 0
    for r in ast.walk(m.node):
        if not isinstance(r, ast.Raise) or r.exc is None:
            continue
        n += 1
        exc = r.exc.func if isinstance(r.exc, ast.Call) else r.exc
        ename = exc.id if isinstance(exc, ast.Name) else getattr(exc, "attr", None)
        target = repo.resolve_name(m, m.module, ename) if ename else None
        is_lib = isinstance(target, ClassInfo) and target.module.name == "xgi.exception"
        # context
        ctx_kind = None
        handler_types = set()
        p = r
        while p in par:
            p = par[p]
            if isinstance(p, ast.ExceptHandler):
                names = [p.type.id] if isinstance(p.type, ast.Name) else [e.id for e in getattr(p.type, "elts", []) if isinstance(e, ast.Name)]
                handler_types |= set(names)
                if set(names) & {"KeyError", "IDNotFound", "TypeError", "IndexError"}:
                    ctx_kind = ctx_kind or "handler"
            if isinstance(p, ast.If) and id_related_test(p.test, selfn):
                ctx_kind = ctx_kind or "id-guard"
        if ctx_kind is None:
            res.inst("E-TYPE", f"{m.qualname}:{r.lineno} raise {ename} (not an ID rejection)", True)
            continue
        ok = is_lib or (ename == "TypeError" and "TypeError" in handler_types)
        res.inst("E-TYPE", f"{m.qualname}:{r.lineno} raise {ename} under {ctx_kind}", ok)
        if not ok:
            res.add(mk_finding(PROP, "E-TYPE", m, r, f"{m.qualname}: an edit rejected for a missing or invalid ID raises {ename} instead of the library's own error type (XGIError / IDNotFound)", role=ename or "?"))
    return n


def check_removals(repo, res, m):
    """set.remove(<parameter>) on stored member sets or local copies of them."""
    selfn = m.params[0] if m.params else "self"
    params = set(m.params[1:])
    if not params:
        return 0
    copies = set()
    for st in own_statements(m.node):
        if isinstance(st, ast.Assign) and len(st.targets) == 1 and isinstance(st.targets[0], ast.Name):
            v = st.value
            if isinstance(v, ast.Call) and isinstance(v.func, ast.Attribute) and v.func.attr == "copy":
                base = v.func.value
                if any(isinstance(x, ast.Attribute) and x.attr in ("_node", "_edge") for x in ast.walk(base)):
                    copies.add(st.targets[0].id)
    par = _parents(m.node)
    cfg = None
    n = 0
    for st in own_statements(m.node):
        for c in own_nodes(st):
            if not (isinstance(c, ast.Call) and isinstance(c.func, ast.Attribute) and c.func.attr == "remove" and c.args and isinstance(c.args[0], ast.Name) and c.args[0].id in params):
                continue
            recv = c.func.value
            on_table = any(isinstance(x, ast.Attribute) and x.attr in ("_node", "_edge") and isinstance(x.value, ast.Name) and x.value.id == selfn for x in ast.walk(recv))
            on_copy = isinstance(recv, ast.Name) and recv.id in copies
            if not on_copy:
                continue  # removals on stored sets are justified (or not) by the incidence walker, see check_table_removals
            n += 1
            arg = c.args[0].id
            # (1) enclosed in a try whose KeyError handler raises a library error
            converted = False
            p = st
            while p in par:
                p = par[p]
                if isinstance(p, ast.Try) and st_in(p.body, st):
                    for h in p.handlers:
                        names = [h.type.id] if isinstance(h.type, ast.Name) else [e.id for e in getattr(h.type, "elts", []) if isinstance(e, ast.Name)]
                        if set(names) & {"KeyError", "Exception"} and any(isinstance(r, ast.Raise) and r.exc is not None and (getattr(r.exc.func if isinstance(r.exc, ast.Call) else r.exc, "id", None) in LIB_ERRORS) for r in ast.walk(h)):
                            converted = True
            # (2) dominated by a membership test of the same value in the same container
            guarded = False
            if not converted:
                cfg = cfg or CFG(m.node)
                rtxt = unparse(recv)

                def is_guard(nd, arg=arg, rtxt=rtxt):
                    if not isinstance(nd, ast.If):
                        return False
                    for t in ast.walk(nd.test):
                        if isinstance(t, ast.Compare) and len(t.ops) == 1 and isinstance(t.ops[0], (ast.In, ast.NotIn)) and isinstance(t.left, ast.Name) and t.left.id == arg and unparse(t.comparators[0]) == rtxt:
                            return True
                    return False

                guarded = cfg.dominated_by(st, is_guard)
                # (3) the dual membership was established: `edge in self._node[node]` follows from `node in self._edge[edge]`
                if not guarded:
                    def is_dual_guard(nd, arg=arg):
                        if not isinstance(nd, ast.If):
                            return False
                        for t in ast.walk(nd.test):
                            if isinstance(t, ast.Compare) and len(t.ops) == 1 and isinstance(t.ops[0], (ast.In, ast.NotIn)) and isinstance(t.left, ast.Name) and t.left.id in params:
                                r = t.comparators[0]
                                if isinstance(r, ast.Subscript) and any(isinstance(x, ast.Name) and x.id == arg for x in ast.walk(r.slice)) and any(isinstance(x, ast.Attribute) and x.attr in ("_node", "_edge") for x in ast.walk(r)):
                                    return True
                        return False
                    guarded = cfg.dominated_by(st, is_dual_guard)
            ok = converted or guarded
            res.inst("E-TYPE", f"{m.qualname}:{st.lineno} `{unparse(c, 50)}` cannot surface a bare KeyError", ok)
            if not ok:
                res.add(mk_finding(PROP, "E-TYPE", m, st, f"{m.qualname}: `{unparse(c, 60)}` removes a caller-supplied ID from a plain set without a dominating membership test or a handler converting KeyError; a missing ID surfaces as a bare KeyError instead of the library's error", role=arg))
    return n


def check_table_removals(repo, res, ctx):
    """E-TYPE(b) on stored member sets: a `.remove(x)` that the incidence walker cannot justify by a membership
    guard or by iteration over the dual side would surface a bare KeyError for a missing ID."""
    from ..incidence import Infeasible, MethodAnalysis, Unsupported, compatible
    from ..paths import valuations
    from ..selectors import inline_selectors
    from .incidence_rules import COARSE, direct_writer_methods, helper_postcondition

    eng = Effects(repo)
    n = 0
    n_rej = [0]
    n_dir = [0]
    for cname in CORE_CLASSES:
        directed = cname == "DiHypergraph"
        direct, indirect = direct_writer_methods(repo, eng, cname)
        writers = set(direct) | set(indirect)
        for mname, fi in direct.items():
            if mname in COARSE or mname in ("__init__", "__setstate__") or (fi.cls.name != cname):
                continue
            if ctx.only and ctx.only != fi.qualname:
                continue
            fi = inline_selectors(repo, fi)
            par = _parents(fi.node)
            seen = set()
            seen_rej = set()
            for val in valuations(fi.node, with_strings=True):
                ma = MethodAnalysis(repo, fi, directed, val, writer_methods=writers, cname=cname)
                ma.helper_post = lambda m, cname=cname, writers=writers, directed=directed: helper_postcondition(repo, cname, m, directed, writers)
                try:
                    ma.run()
                except (Infeasible, Unsupported):
                    continue
                # ---- E-REJECT: an explicit rejection (raise statement) comes before any write of the same item
                evs = [e for e in ma.events if e.rel != "CALL"]
                # ---- E-DIR: direction="in" edits the tail (edge side "in", node side "out"), "out" the head
                d = val.get("direction")
                if directed and d in ("in", "out") and "direction" in fi.all_params:
                    other = "out" if d == "in" else "in"
                    sided = [e for e in evs if e.rel in ("E.in", "E.out", "N.in", "N.out")]
                    bad = [e for e in sided if e.rel not in (f"E.{d}", f"N.{other}")]
                    n_dir[0] += 1
                    res.inst("E-DIR", f"{fi.qualname} [direction={d!r}]: {len(sided)} membership events, all on edge side {d!r} / node side {other!r}", not bad and bool(sided))
                    if bad and ("dir", d) not in seen_rej:
                        seen_rej.add(("dir", d))
                        w = bad[0]
                        res.add(mk_finding(PROP, "E-DIR", fi, w.stmt, f"{fi.qualname}: with direction={d!r} the statement `{unparse(w.stmt, 60)}` edits {w.rel}; the documentation says {d!r} means the {'tail' if d == 'in' else 'head'} of the edge (edge side {d!r}, node side {other!r})", role=f"direction:{d}"))
                for rp in ma.raises:
                    if rp.kind != "explicit raise" and "explicit raise" not in rp.text:
                        continue
                    line = getattr(rp.stmt, "lineno", 0)
                    prior = [e for e in evs if e.order < rp.order and compatible(e.conds, rp.conds) and e.loops[: len(rp.loops)] == rp.loops]
                    n_rej[0] += 1
                    res.inst("E-REJECT", f"{fi.qualname}:{line} `{unparse(rp.stmt, 50)}` is reached before any table write of the rejected item", not prior)
                    if prior and line not in seen_rej:
                        seen_rej.add(line)
                        w = prior[0]
                        res.add(mk_finding(PROP, "E-REJECT", fi, rp.stmt, f"{fi.qualname}: `{unparse(rp.stmt, 60)}` rejects the input after `{unparse(w.stmt, 60)}` (line {getattr(w.stmt, 'lineno', 0)}) has already been applied; the rejected edit leaves part of itself in the network (the documentation describes an error, not a partial edit)", role="reject"))
                for rp in ma.raises:
                    if "removal of an element not known to be present" not in rp.text:
                        continue
                    line = getattr(rp.stmt, "lineno", 0)
                    if line in seen:
                        continue
                    seen.add(line)
                    converted = False
                    p = rp.stmt
                    while p in par:
                        p = par[p]
                        if isinstance(p, ast.Try) and st_in(p.body, rp.stmt):
                            for h in p.handlers:
                                names = [h.type.id] if isinstance(h.type, ast.Name) else [e.id for e in getattr(h.type, "elts", []) if isinstance(e, ast.Name)]
                                if set(names) & {"KeyError", "Exception"} and any(isinstance(r, ast.Raise) and r.exc is not None and (getattr(r.exc.func if isinstance(r.exc, ast.Call) else r.exc, "id", None) in LIB_ERRORS) for r in ast.walk(h)):
                                    converted = True
                    n += 1
                    res.inst("E-TYPE", f"{fi.qualname}:{line} {rp.text[:60]}", converted)
                    if not converted:
                        res.add(mk_finding(PROP, "E-TYPE", fi, rp.stmt, f"{fi.qualname}: `{unparse(rp.stmt, 60)}` removes an ID from a plain set although nothing establishes that it is there (no membership guard, not obtained from the dual side); a missing ID surfaces as a bare KeyError instead of the library's error", role="remove"))
            res.inst("E-TYPE", f"{cname}.{mname}: removals on stored member sets are justified", True)
    if not ctx.only:
        res.floor("explicit rejection points in the mutators (method x valuation)", n_rej[0], 100)
        res.floor("direction-taking mutators x direction values", n_dir[0], 4)
    return n


def st_in(stmts, target):
    for s in stmts:
        if s is target:
            return True
        for sub in ast.walk(s):
            if sub is target:
                return True
    return False


# ------------------------------------------------------------------------------------------ E-FOOT
def check_foot(repo, eng, res):
    ci = repo.get_class("Hypergraph")
    # "keeps every node degree and every edge size": the swap's paired updates are exactly balanced on every normal exit,
    # also when the caller hands the same ID to two parameters (alias variants of the incidence walker, rules of C01)
    swap = ci.methods.get("double_edge_swap")
    if swap is not None:
        from .incidence_rules import analyse_method, direct_writer_methods

        direct, indirect = direct_writer_methods(repo, eng, "Hypergraph")
        try:
            analyse_method(repo, res, PROP, "Hypergraph", swap, False, set(direct) | set(indirect))
        except AnalysisError as e:
            res.refusals.append(str(e))
    for mname in ("double_edge_swap", "random_edge_shuffle"):
        m = ci.methods.get(mname)
        if m is None:
            raise AnalysisError(f"Hypergraph.{mname} not found (anchor vanished)")
        selfn = m.params[0]
        summ = eng.summarize(m, "Hypergraph", (), ())
        bad = [w for w in summ.writes if w.origin == ("p", 0) and w.region in (NATTR, EATTR, NETATTR, UID)]
        res.inst("E-FOOT", f"{m.qualname} writes no attribute table, network attribute or counter", not bad)
        if bad:
            w = sorted(bad, key=lambda w: w.line)[0]
            res.add(mk_finding(PROP, "E-FOOT", m, m.node, f"{m.qualname} is documented to keep all IDs and attributes but writes {w.region}: {w.short()}", role=w.region))
        cfg = CFG(m.node)
        for st in own_statements(m.node):
            # deletions / clears of table keys
            for n in own_nodes(st):
                if isinstance(n, ast.Call) and isinstance(n.func, ast.Attribute) and n.func.attr in ("clear", "pop", "popitem") and isinstance(n.func.value, ast.Attribute) and n.func.value.attr in TABLES:
                    res.inst("E-FOOT", f"{m.qualname}:{st.lineno} removes keys", False)
                    res.add(mk_finding(PROP, "E-FOOT", m, st, f"{m.qualname} removes table keys (`{unparse(n, 50)}`)", role="delete"))
            if isinstance(st, ast.Delete):
                for t in st.targets:
                    if isinstance(t, ast.Subscript) and isinstance(t.value, ast.Attribute) and t.value.attr in TABLES:
                        res.inst("E-FOOT", f"{m.qualname}:{st.lineno} deletes a key", False)
                        res.add(mk_finding(PROP, "E-FOOT", m, st, f"{m.qualname} deletes a table key (`{unparse(st, 50)}`)", role="delete"))
            if isinstance(st, ast.Assign):
                for t in st.targets:
                    if isinstance(t, ast.Subscript) and isinstance(t.value, ast.Attribute) and t.value.attr in ("_node", "_edge") and isinstance(t.value.value, ast.Name) and t.value.value.id == selfn:
                        key = unparse(t.slice)
                        tab = t.value.attr

                        def loads(nd, key=key, tab=tab, st=st):
                            if nd is st or not isinstance(nd, ast.AST):
                                return False
                            for sub in own_nodes(nd):
                                if isinstance(sub, ast.Subscript) and isinstance(sub.ctx, ast.Load) and isinstance(sub.value, ast.Attribute) and sub.value.attr == tab and unparse(sub.slice) == key:
                                    return True
                            return False

                        ok = cfg.dominated_by(st, loads)
                        res.inst("E-FOOT", f"{m.qualname}:{st.lineno} `{unparse(st, 50)}` replaces the value of an existing key", ok)
                        if not ok:
                            res.add(mk_finding(PROP, "E-FOOT", m, st, f"{m.qualname} stores under a key of {tab} that it has not looked up before: a new ID could be inserted by a move that must keep all IDs", role="insert"))


def check_clear_update(repo, eng, res):
    """E-FOOT for clear / clear_edges (exact table footprint, network attributes only on request) and the forwarding of
    update(): documented effects that the suite does not pin (dropping `self._net_attr.clear()` passes it)."""
    for cname in CORE_CLASSES:
        ci = repo.get_class(cname)
        m = repo.find_method(ci, "clear")
        if m is None:
            raise AnalysisError(f"{cname}.clear not found (anchor vanished)")
        flag = next((p for p in m.all_params if p == "remove_net_attr"), None)
        if flag is None:
            raise AnalysisError(f"{cname}.clear has no remove_net_attr parameter (anchor vanished)")
        for val in (True, False):
            summ = eng.summarize(m, cname, ((flag, val),), ())
            regions = {w.region for w in summ.writes if w.origin == ("p", 0) and w.kind in ("key", "rebind")}
            need = {NODE, EDGE, NATTR, EATTR} | ({NETATTR} if val else set())
            missing = need - regions
            extra = {NETATTR} & regions if not val else set()
            ok = not missing and not extra
            res.inst("E-FOOT", f"{m.qualname} (as {cname}) [remove_net_attr={val}] clears exactly {sorted(need)}", ok)
            if not ok:
                what = f"does not clear {sorted(missing)}" if missing else "clears the network attributes although asked to keep them"
                res.add(mk_finding(PROP, "E-FOOT", m, m.node, f"{m.qualname} (as {cname}) with remove_net_attr={val} {what}; clear() is documented to remove all nodes, edges and their attributes, and the network attributes exactly when remove_net_attr is true", role=f"{cname}:clear:{val}"))
        ce = repo.find_method(ci, "clear_edges")
        if ce is not None:
            summ = eng.summarize(ce, cname, (), ())
            regions = {w.region for w in summ.writes if w.origin == ("p", 0)}
            keyreg = {w.region for w in summ.writes if w.origin == ("p", 0) and w.kind in ("key", "rebind")}
            ok = {EDGE, EATTR} <= keyreg and NODE in regions and not ({NATTR, NETATTR} & regions)
            res.inst("E-FOOT", f"{ce.qualname} (as {cname}) clears E and EATTR, empties the memberships, keeps nodes, node and network attributes", ok)
            if not ok:
                res.add(mk_finding(PROP, "E-FOOT", ce, ce.node, f"{ce.qualname} (as {cname}) writes {sorted(regions)}; it is documented to remove all edges (table and attributes, and the memberships of every node) without altering nodes, node attributes or network attributes", role=f"{cname}:clear_edges"))
        up = repo.find_method(ci, "update")
        if up is not None and {"nodes", "edges"} <= set(up.all_params):
            selfn = up.params[0]
            for pname, callee in (("nodes", "add_nodes_from"), ("edges", "add_edges_from")):
                ok = False
                for st in own_statements(up.node):
                    if isinstance(st, ast.If):
                        t = st.test
                        pos = (isinstance(t, ast.Name) and t.id == pname) or (isinstance(t, ast.Compare) and isinstance(t.left, ast.Name) and t.left.id == pname and isinstance(t.ops[0], ast.IsNot))
                        if pos and any(isinstance(c, ast.Call) and isinstance(c.func, ast.Attribute) and c.func.attr == callee and isinstance(c.func.value, ast.Name) and c.func.value.id == selfn and c.args and isinstance(c.args[0], ast.Name) and c.args[0].id == pname for b in st.body for c in ast.walk(b)):
                            ok = True
                    if isinstance(st, ast.Expr) and isinstance(st.value, ast.Call) and getattr(st.value.func, "attr", None) == callee and st.value.args and isinstance(st.value.args[0], ast.Name) and st.value.args[0].id == pname and st in up.node.body:
                        ok = True
                res.inst("E-ALIAS", f"{up.qualname} (as {cname}) hands `{pname}` to {callee} when it is given", ok)
                if not ok:
                    res.add(mk_finding(PROP, "E-ALIAS", up, up.node, f"{up.qualname}: `{pname}` is not handed to {callee}() on the branch where it is given; update() is documented to add the given nodes and edges", role=f"{cname}:update:{pname}"))


def check_merge_first(repo, res):
    """E-FIRST: in merge_duplicate_edges the options rename="first" / merge_rule="first" pick the SMALLEST duplicate ID
    (documented: "the first of the sorted duplicate IDs"), not whichever comes first in the table's insertion order."""
    ci = repo.get_class("Hypergraph")
    m = ci.methods.get("merge_duplicate_edges")
    if m is None:
        raise AnalysisError("Hypergraph.merge_duplicate_edges not found (anchor vanished)")
    local = {}
    for st in own_statements(m.node):
        if isinstance(st, ast.Assign) and len(st.targets) == 1 and isinstance(st.targets[0], ast.Name):
            local.setdefault(st.targets[0].id, []).append(st.value)

    def ordered(e, depth=0):
        """e is min(...) / sorted(...)[0] (through locals bound only to such)."""
        if depth > 3:
            return False
        if isinstance(e, ast.Call) and getattr(e.func, "id", None) == "min":
            return True
        if isinstance(e, ast.Subscript) and isinstance(e.value, ast.Call) and getattr(e.value.func, "id", None) == "sorted":
            return True
        if isinstance(e, ast.Name) and e.id in local:
            return all(ordered(v, depth + 1) for v in local[e.id])
        if isinstance(e, (ast.Call, ast.Subscript, ast.Attribute)):
            # deepcopy(self._edge_attr[min(dup_ids)]) and the like: the ID inside the expression is the ordered one
            return any(ordered(ch, depth + 1) for ch in ast.iter_child_nodes(e) if isinstance(ch, ast.expr) and not (isinstance(ch, ast.Attribute) and isinstance(ch.value, ast.Name) and ch.value.id == "self"))
        return False

    n = 0
    # the method and the private helpers of the class it calls (the attribute merge may live in a helper)
    bodies = [m]
    for c in ast.walk(m.node):
        if isinstance(c, ast.Call) and isinstance(c.func, ast.Attribute) and isinstance(c.func.value, ast.Name) and c.func.value.id == m.params[0] and c.func.attr.startswith("_"):
            h = repo.find_method(ci, c.func.attr)
            if h is not None and h not in bodies:
                bodies.append(h)
                for st in own_statements(h.node):
                    if isinstance(st, ast.Assign) and len(st.targets) == 1 and isinstance(st.targets[0], ast.Name):
                        local.setdefault(st.targets[0].id, []).append(st.value)
    for st in [x for b in bodies for x in ast.walk(b.node)]:
        if isinstance(st, ast.If) and isinstance(st.test, ast.Compare) and isinstance(st.test.left, ast.Name) and st.test.left.id in ("rename", "merge_rule") and isinstance(st.test.comparators[0], ast.Constant) and st.test.comparators[0].value == "first":
            which = st.test.left.id
            picks = [b for b in st.body if (isinstance(b, ast.Assign) and len(b.targets) == 1 and isinstance(b.targets[0], ast.Name)) or (isinstance(b, ast.Return) and b.value is not None)]
            if not picks:
                raise AnalysisError(f"merge_duplicate_edges: the {which}='first' branch does not pick an ID (extractor does not recognise the code)")
            pick = picks[0]
            n += 1
            ok = ordered(pick.value)
            res.inst("E-FIRST", f"merge_duplicate_edges [{which}='first']: `{unparse(pick, 50)}` takes the smallest duplicate ID", ok)
            if not ok:
                res.add(mk_finding(PROP, "E-FIRST", m, pick, f"Hypergraph.merge_duplicate_edges: with {which}='first' the representative is `{unparse(pick.value, 40)}`, i.e. whichever duplicate comes first in the edge table, not the smallest ID as documented; after edges were re-inserted or given explicit IDs out of order the merged edge gets another ID / another edge's attributes", role=f"{which}:first"))
    res.floor("'first' options of merge_duplicate_edges", n, 2)


# ------------------------------------------------------------------------------------------ E-ALIAS
def check_params(repo, res, ci, m, prop=PROP, rule="E-ALIAS"):
    if m.name.startswith("_") and not m.name.startswith("__"):
        return 0
    if m.name.startswith("__") and m.name not in ("__lshift__", "__setitem__", "__getitem__", "__contains__"):
        return 0
    selfn = m.params[0] if m.params else "self"
    body = [s for s in m.node.body if not (isinstance(s, ast.Expr) and isinstance(s.value, ast.Constant))]
    # methods that only raise (not implemented for this class) may ignore their parameters
    if all(isinstance(s, ast.Raise) for s in body):
        return 0
    loaded = {n.id for n in ast.walk(m.node) if isinstance(n, ast.Name) and isinstance(n.ctx, ast.Load)}
    params = [p for p in m.all_params if p != selfn]
    for p in params:
        ok = p in loaded
        res.inst(rule, f"{m.qualname} reads its parameter `{p}`", ok)
        if not ok:
            res.add(mk_finding(prop, rule, m, m.node, f"{m.qualname} accepts `{p}` but never uses it: the documented effect of that argument is silently dropped", role=p))
    for c in ast.walk(m.node):
        if isinstance(c, ast.Call) and isinstance(c.func, ast.Attribute) and isinstance(c.func.value, ast.Name) and c.func.value.id == selfn:
            for kw in c.keywords:
                if kw.arg in params:
                    ok = any(isinstance(x, ast.Name) and x.id == kw.arg for x in ast.walk(kw.value))
                    res.inst(rule, f"{m.qualname}:{c.lineno} forwards {kw.arg}={unparse(kw.value, 20)}", ok)
                    if not ok:
                        res.add(mk_finding(prop, rule, m, c, f"{m.qualname} forwards `{kw.arg}={unparse(kw.value, 30)}` to self.{c.func.attr}() instead of its own `{kw.arg}` argument", role=kw.arg))
    return 1


# ------------------------------------------------------------------------------------------ E-LOOPALIAS
def check_loop_alias(res, m):
    n = 0
    for loop in ast.walk(m.node):
        if not isinstance(loop, (ast.For, ast.While)):
            continue
        n += 1
        body_stmts = [s for s in own_statements(loop) if s is not loop]
        assigned_in_loop = {}
        for s in body_stmts:
            if isinstance(s, ast.Assign) and len(s.targets) == 1 and isinstance(s.targets[0], ast.Name):
                assigned_in_loop.setdefault(s.targets[0].id, []).append(s.value)
        loop_targets = {x.id for x in ast.walk(loop.target) if isinstance(x, ast.Name)} if isinstance(loop, ast.For) else set()
        for name, values in assigned_in_loop.items():
            outer = [v.id for v in values if isinstance(v, ast.Name) and v.id not in assigned_in_loop and v.id not in loop_targets]
            if not outer:
                continue
            for s in body_stmts:
                for c in own_nodes(s):
                    hit = False
                    if isinstance(c, ast.Call) and isinstance(c.func, ast.Attribute) and c.func.attr in MUTATING and isinstance(c.func.value, ast.Name) and c.func.value.id == name:
                        hit = True
                    if isinstance(c, ast.Subscript) and isinstance(c.ctx, (ast.Store, ast.Del)) and isinstance(c.value, ast.Name) and c.value.id == name:
                        hit = True
                    if hit:
                        # fresh on the paths where it is mutated? (a per-branch copy is fine)
                        fresh_elsewhere = any(not isinstance(v, ast.Name) for v in values)
                        if fresh_elsewhere and _mutation_only_after_fresh(loop, name, s):
                            continue
                        res.inst("E-LOOPALIAS", f"{m.qualname}:{s.lineno} mutates `{name}`, an alias of `{outer[0]}` created outside the loop", False)
                        res.add(mk_finding(PROP, "E-LOOPALIAS", m, s, f"{m.qualname}: inside the loop `{name}` is an alias of `{outer[0]}` (created outside the loop) and is mutated by `{unparse(c, 40)}`; values set for one element leak into all later elements", role=outer[0]))
        res.inst("E-LOOPALIAS", f"{m.qualname}: loop at line {loop.lineno}", True)
    return n


def _mutation_only_after_fresh(loop, name, mut_stmt):
    """The mutation statement sits in the same block as, and after, an assignment of a fresh value to `name`."""
    def rec(stmts):
        fresh = False
        for s in stmts:
            if isinstance(s, ast.Assign) and len(s.targets) == 1 and isinstance(s.targets[0], ast.Name) and s.targets[0].id == name:
                fresh = not isinstance(s.value, ast.Name)
            if s is mut_stmt:
                return fresh
            for f in ("body", "orelse", "finalbody"):
                sub = getattr(s, f, None)
                if isinstance(sub, list) and st_in(sub, mut_stmt):
                    r = rec(sub)
                    return r if r is not None else fresh
            if isinstance(s, ast.Try):
                for h in s.handlers:
                    if st_in(h.body, mut_stmt):
                        r = rec(h.body)
                        return r if r is not None else fresh
        return None
    return bool(rec(loop.body))


def swallowed_lookup_around_loop(fn_node):
    """`try: for x in <caller data>: <table>[x]... except IDNotFound: warn(...)` - a handler that does not re-raise, for the
    lookup error of a single element, attached to a try that contains the loop over the elements."""
    for t in ast.walk(fn_node):
        if not isinstance(t, ast.Try):
            continue
        loops = [l for b in t.body for l in ast.walk(b) if isinstance(l, (ast.For, ast.AsyncFor))]
        # only loops that are not themselves inside a nested try with such a handler
        keyed = []
        for l in loops:
            names = {n.id for n in ast.walk(l.target) if isinstance(n, ast.Name)}
            uses = [x for b in l.body for x in ast.walk(b) if isinstance(x, ast.Subscript) and isinstance(x.slice, ast.Name) and x.slice.id in names and isinstance(x.value, ast.Attribute) and x.value.attr in ("_node", "_edge", "_node_attr", "_edge_attr")]
            if uses:
                keyed.append(l)
        if not keyed:
            continue
        for h in t.handlers:
            caught = unparse(h.type, 80) if h.type is not None else ""
            if not any(w in caught for w in ("IDNotFound", "KeyError")) and h.type is not None:
                continue
            if any(isinstance(x, ast.Raise) for b in h.body for x in ast.walk(b)):
                continue
            # is the lookup already protected per element inside the loop?
            protected = all(any(isinstance(it, ast.Try) and any((hh.type is None or any(w in unparse(hh.type, 80) for w in ("IDNotFound", "KeyError"))) for hh in it.handlers) and any(x is u for b in it.body for x in ast.walk(b)) for it in ast.walk(l)) for l in keyed for u in [x for b in l.body for x in ast.walk(b) if isinstance(x, ast.Subscript) and isinstance(x.value, ast.Attribute) and x.value.attr in ("_node", "_edge", "_node_attr", "_edge_attr")])
            if not protected:
                yield h
