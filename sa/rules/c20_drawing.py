"""C20 - Layouts and drawings represent every node and edge faithfully (NARROW: label/position addressing only).

K1/K2/K5  over xgi/drawing (layout.py, draw.py, draw_utils.py): position dicts are addressed by label, arrays by position.
L-KEYS    every layout returns a dict whose keys come from iteration over the input's node view - syntactically
          (dict(zip(list(H.nodes), ...)), {k: ... for k in H.nodes}) or from a third-party layout of a graph built from
          H (keys = nodes of that graph) filtered back to H.nodes - never from attribute filters on an auxiliary graph.
L-ORDER   in draw_nodes the coordinate array handed to scatter is built by iterating H.nodes; in draw_hyperedges the
          colour arrays and the member list are permuted by the same index array.
Rendered geometry is NOT decided.
"""
from __future__ import annotations

import ast

from ..cfg import own_statements
from ..model import AnalysisError, FunctionInfo
from ..report import Result, mk_finding
from .common import unparse
from .kind_rules import functions_of, run_kinds

PROP = "C20"
LAYOUTS = ["random_layout", "pairwise_spring_layout", "barycenter_spring_layout", "weighted_barycenter_spring_layout", "barycenter_kamada_kawai_layout", "circular_layout", "spiral_layout", "bipartite_spring_layout", "edge_positions_from_barycenters"]
# keys = nodes of the argument graph (third-party fact) for these callables
NX_LAYOUTS = {"spring_layout", "kamada_kawai_layout", "circular_layout", "spectral_layout", "random_layout", "shell_layout"}
# out of the property's list (recorded as information only)
OUT_OF_SCOPE = {"xgi.drawing.draw:draw_directed_dyads": "not among the functions the property names (draw, draw_nodes, draw_hyperedges, draw_simplices, layouts)", "xgi.drawing.draw:draw_bipartite": "not among the functions the property names", "xgi.drawing.draw:draw_undirected_dyads": "not among the functions the property names"}


def run(ctx):
    repo = ctx.repo
    res = Result(PROP)
    res.rules = ["K1", "K2", "K5", "L-KEYS", "L-ORDER", "L-RANGE", "L-CUT", "L-FACEID", "L-FLOW", "L-POLY", "L-FWD", "L-IDX", "L-SORT"]
    res.explanation = (
        "Narrow claim: kind inference (labels vs positions) over the layout and drawing modules, key provenance of the "
        "dict every layout returns, and agreement of the permutation applied to per-edge style arrays and patches. "
        "Nothing about the rendered geometry is decided."
    )
    fns = [f for f in functions_of(repo, ["xgi.drawing"]) if f.fq not in OUT_OF_SCOPE]
    for fq, why in OUT_OF_SCOPE.items():
        res.info.append({"scoped_out": fq, "reason": why})
    eng = run_kinds(ctx, res, PROP, fns, 60, 8, floor_functions=10)
    # L-SORT: "draws any network whatever its labels" - labels need not be mutually orderable (1 and 'a' in one edge), so
    # the drawing code never orders labels with sorted() / min() / max() / .sort() unless a key= makes them comparable or a
    # type filter restricts what is compared
    in_scope = {f.fq: f for f in fns}
    seen_sort = set()
    n_sort = 0
    for (fq, pk), r in eng.results.items():
        if fq not in in_scope:
            continue
        for node, what in r.order_uses:
            if (fq, node.lineno, node.col_offset) in seen_sort:
                continue
            seen_sort.add((fq, node.lineno, node.col_offset))
            n_sort += 1
            has_key = isinstance(node, ast.Call) and any(k.arg == "key" for k in node.keywords)
            def _filtered(a, depth=0):
                if any(isinstance(x, ast.Call) and getattr(x.func, "id", None) == "isinstance" for x in ast.walk(a)):
                    return True
                if isinstance(a, ast.Name) and depth < 3:
                    ds = [st.value for st in ast.walk(in_scope[fq].node) if isinstance(st, ast.Assign) and len(st.targets) == 1 and isinstance(st.targets[0], ast.Name) and st.targets[0].id == a.id]
                    return bool(ds) and all(_filtered(d, depth + 1) for d in ds)
                return False

            typed = isinstance(node, ast.Call) and any(_filtered(a) for a in node.args)
            ok = has_key or typed
            res.inst("L-SORT", f"{fq}:{node.lineno} {what} with a key or a type filter", ok)
            if not ok:
                res.add(mk_finding(PROP, "L-SORT", in_scope[fq], node, f"{in_scope[fq].qualname}: `{unparse(node, 50)}` orders node / edge labels; labels of one network need not be comparable with each other (an int and a str in the same edge), so drawing such a network raises TypeError instead of drawing it", role="sort"))
    res.inst("L-SORT", f"{n_sort} orderings of labels found in the drawing code", True)
    if ctx.only:
        return res
    lay = repo.modules.get("xgi.drawing.layout")
    if lay is None:
        raise AnalysisError("xgi.drawing.layout not found (anchor vanished)")
    n = 0
    for name in LAYOUTS:
        fn = lay.functions.get(name)
        if fn is None:
            raise AnalysisError(f"layout {name} not found (anchor vanished)")
        n += 1
        check_keys(repo, res, fn)
    res.floor("layout functions", n, 9)
    check_order(repo, res)
    check_range(repo, res, fns)
    check_cut(repo, res)
    check_polygons(repo, res)
    check_reorderings(repo, res)
    check_forwarding(repo, res)
    from .common import check_dead_params

    nd = check_dead_params(res, PROP, "L-FLOW", [f for f in fns if f.module.name.endswith(".layout")], "the positions returned")
    res.floor("layout functions checked for dead parameters", nd, 8)
    from .common import pattern_lint, raw_tuple_dedupe_sites

    pattern_lint(res, PROP, "L-FACEID", fns, raw_tuple_dedupe_sites,
                 "def _dyads(simplices):\n    return dict.fromkeys(subfaces(simplices, order=1))\n",
                 lambda nd: f"`{unparse(nd, 60)}` de-duplicates faces by the tuples a combinations-style enumeration yields; a two-node face shared by two simplices can come out as (a, b) from one and (b, a) from the other, survives twice and is drawn as two lines (one line per two-node simplex is lost)",
                 "raw combination tuples used as identities")
    from .common import ORDER_POSITIVE, describe_order_mismatch, order_mismatch_nodes

    pattern_lint(res, PROP, "L-IDX", fns, order_mismatch_nodes, ORDER_POSITIVE, describe_order_mismatch,
                 "position maps numbering one sequence applied to a sequence listing another")
    return res


STRUCTURAL_DRAW_PARAMS = ("pos", "ax", "max_order", "hull", "radius")


def check_forwarding(repo, res):
    """L-FWD: a draw function that delegates part of the figure to a sibling draw_* function hands on where things are
    (`pos`), where they are drawn (`ax`) and how far (`max_order`, `hull`, `radius`).  A sibling called without `pos`
    computes a layout of its own (seed None): its lines and polygons no longer sit at the nodes' positions."""
    mi = repo.modules.get("xgi.drawing.draw")
    if mi is None:
        raise AnalysisError("xgi.drawing.draw not found (anchor vanished)")
    n = 0
    for fn in mi.functions.values():
        for c in ast.walk(fn.node):
            if not (isinstance(c, ast.Call) and isinstance(c.func, ast.Name) and c.func.id.startswith("draw") and c.func.id in mi.functions and c.func.id != fn.name):
                continue
            g = mi.functions[c.func.id]
            gp = g.all_params
            passed = set(gp[: len([a for a in c.args if not isinstance(a, ast.Starred)])]) | {k.arg for k in c.keywords if k.arg}
            if any(isinstance(a, ast.Starred) for a in c.args):
                raise AnalysisError(f"{fn.qualname}:{c.lineno}: star-arguments in a call of {g.name} (extractor does not recognise the code)")
            # keyword bundles built locally: {"pos": pos, ...} forwarded with **
            for k in c.keywords:
                if k.arg is None and isinstance(k.value, ast.Name):
                    for st in ast.walk(fn.node):
                        if isinstance(st, ast.Assign) and any(isinstance(t, ast.Name) and t.id == k.value.id for t in st.targets):
                            if isinstance(st.value, ast.Dict):
                                passed |= {x.value for x in st.value.keys if isinstance(x, ast.Constant)}
                            elif isinstance(st.value, ast.Call) and getattr(st.value.func, "id", None) == "dict":
                                passed |= {x.arg for x in st.value.keywords if x.arg}
            for p in STRUCTURAL_DRAW_PARAMS:
                if p in gp and p in fn.all_params:
                    n += 1
                    ok = p in passed
                    res.inst("L-FWD", f"{fn.qualname}:{c.lineno} {g.name}(... {p}=...) receives the caller's `{p}`", ok)
                    if not ok:
                        res.add(mk_finding(PROP, "L-FWD", fn, c, f"{fn.qualname}: `{unparse(c, 40)}` does not pass `{p}` on to {g.name}; " + ("the callee lays the network out again on its own (unseeded), so this part of the figure is not drawn at the nodes' positions" if p == "pos" else ("this part of the figure goes to whatever axes are current, not the caller's" if p == "ax" else f"the callee falls back to its default `{p}`, so edges beyond / within the requested limit are drawn differently from the rest of the figure")), role=f"{g.name}:{p}"))
    res.floor("structural parameters forwarded between draw functions", n, 15)


def check_polygons(repo, res):
    """L-POLY: outside hull mode the polygon of an edge is made from ALL its members' positions (re-ordered, not selected).
    A polygon whose vertex array is selected through a convex hull (`points[ConvexHull(points).vertices]`) loses every
    member that lies inside the hull of the others.  Decided on the definitions that can reach the Polygon(...) call on a
    path where `hull` is false."""
    mi = repo.modules.get("xgi.drawing.draw")
    if mi is None:
        raise AnalysisError("xgi.drawing.draw not found (anchor vanished)")
    n = 0
    for fn in mi.functions.values():
        calls = [c for c in ast.walk(fn.node) if isinstance(c, ast.Call) and getattr(c.func, "attr", getattr(c.func, "id", None)) == "Polygon" and c.args]
        if not calls:
            continue
        par = {}
        for p in ast.walk(fn.node):
            for ch in ast.iter_child_nodes(p):
                par[ch] = p

        def hull_mode(node):
            """True / False when the node only runs in hull mode / only outside it; None when unconditional"""
            child, p = node, par.get(node)
            while p is not None:
                if isinstance(p, (ast.If, ast.IfExp)):
                    t = p.test
                    neg = isinstance(t, ast.UnaryOp) and isinstance(t.op, ast.Not)
                    core = t.operand if neg else t
                    if isinstance(core, ast.Name) and core.id == "hull":
                        body = p.body if isinstance(p.body, list) else [p.body]
                        orelse = p.orelse if isinstance(p.orelse, list) else [p.orelse]
                        if any(child is b for b in body):
                            return not neg
                        if any(child is b for b in orelse):
                            return neg
                child, p = p, par.get(p)
            return None

        defs = {}
        for st in ast.walk(fn.node):
            if isinstance(st, ast.Assign):
                for t in st.targets:
                    for x in ast.walk(t):
                        if isinstance(x, ast.Name):
                            defs.setdefault(x.id, []).append(st)

        def selects(e, seen=()):
            """does the value of e (outside hull mode) go through a hull-vertex selection?"""
            def walk_off_hull(node):
                """sub-expressions evaluated when `hull` is false"""
                if isinstance(node, ast.IfExp):
                    t = node.test
                    neg = isinstance(t, ast.UnaryOp) and isinstance(t.op, ast.Not)
                    core = t.operand if neg else t
                    if isinstance(core, ast.Name) and core.id == "hull":
                        yield from walk_off_hull(node.body if neg else node.orelse)
                        return
                yield node
                for ch in ast.iter_child_nodes(node):
                    yield from walk_off_hull(ch)

            for x in walk_off_hull(e):
                if isinstance(x, ast.Call) and getattr(x.func, "id", getattr(x.func, "attr", None)) == "ConvexHull":
                    return x
                if isinstance(x, ast.Attribute) and x.attr in ("vertices", "simplices"):
                    return x
                if isinstance(x, ast.Name) and isinstance(x.ctx, ast.Load) and x.id not in seen:
                    for d in defs.get(x.id, []):
                        if hull_mode(d) is True:
                            continue
                        r = selects(d.value, seen + (x.id,))
                        if r is not None:
                            return r
            return None

        # a helper without a `hull` name of its own runs in the mode of its call sites
        own_hull = any(isinstance(x, ast.Name) and x.id == "hull" for x in ast.walk(fn.node)) or "hull" in fn.all_params
        if not own_hull:
            sites = []
            for g in mi.functions.values():
                gpar = {}
                for p in ast.walk(g.node):
                    for ch in ast.iter_child_nodes(p):
                        gpar[ch] = p
                for c in ast.walk(g.node):
                    if isinstance(c, ast.Call) and getattr(c.func, "id", None) == fn.name:
                        mode, child, p = None, c, gpar.get(c)
                        while p is not None and mode is None:
                            if isinstance(p, (ast.If, ast.IfExp)):
                                t = p.test
                                neg = isinstance(t, ast.UnaryOp) and isinstance(t.op, ast.Not)
                                core = t.operand if neg else t
                                if isinstance(core, ast.Name) and core.id == "hull":
                                    body = p.body if isinstance(p.body, list) else [p.body]
                                    orelse = p.orelse if isinstance(p.orelse, list) else [p.orelse]
                                    if any(child is b for b in body):
                                        mode = not neg
                                    elif any(child is b for b in orelse):
                                        mode = neg
                            child, p = p, gpar.get(p)
                        sites.append(mode)
            if sites and all(m is True for m in sites):
                res.inst("L-POLY", f"{fn.qualname}: polygon helper called in hull mode only ({len(sites)} call site(s))", True)
                continue
        for c in calls:
            if hull_mode(c) is True:
                continue
            n += 1
            hit = selects(c.args[0])
            res.inst("L-POLY", f"{fn.qualname}:{c.lineno} `{unparse(c, 40)}` outside hull mode is built from all member positions", hit is None)
            if hit is not None:
                res.add(mk_finding(PROP, "L-POLY", fn, c, f"{fn.qualname}: outside hull mode the polygon `{unparse(c, 40)}` takes its vertices through `{unparse(hit, 40)}`; a member whose position lies inside the convex hull of the other members is not a vertex of the polygon, so the polygon's vertex set is no longer exactly the members' positions", role="polygon"))
    res.floor("polygon constructions outside hull mode", n, 1)


def check_cut(repo, res):
    """L-CUT: draw_simplices cuts the complex to max_order BEFORE it takes the maximal simplices. The two steps do not
    commute: the maximal simplices of the cut complex include the order-max_order faces of every larger simplex, while
    cutting the maximal simplices of the full complex throws a large simplex away together with all its faces."""
    mi = repo.modules.get("xgi.drawing.draw")
    fn = mi.functions.get("draw_simplices") if mi else None
    if fn is None:
        raise AnalysisError("xgi.drawing.draw.draw_simplices not found (anchor vanished)")
    from ..cfg import CFG

    cfg = CFG(fn.node)

    def is_cut(n):
        return isinstance(n, ast.AST) and any(isinstance(c, ast.Call) and isinstance(c.func, ast.Attribute) and c.func.attr == "filterby" and c.args and isinstance(c.args[0], ast.Constant) and c.args[0].value == "order" and any(isinstance(x, ast.Name) and x.id == "max_order" for a in c.args[1:] for x in ast.walk(a)) for c in ast.walk(n) if not isinstance(n, (ast.If, ast.For, ast.While, ast.Try)) or c is n)

    def is_maximal(n):
        return isinstance(n, ast.AST) and not isinstance(n, (ast.If, ast.For, ast.While, ast.Try)) and any(isinstance(c, ast.Call) and getattr(c.func, "attr", getattr(c.func, "id", None)) in ("from_max_simplices", "maximal") for c in ast.walk(n))

    stmts = own_statements(fn.node)
    cuts = [st for st in stmts if not isinstance(st, (ast.If, ast.For, ast.While, ast.Try)) and is_cut(st)]
    maxs = [st for st in stmts if is_maximal(st)]
    if not maxs:
        raise AnalysisError("draw_simplices: the step that takes the maximal simplices was not found (extractor does not recognise the code)")
    if not cuts:
        res.add(mk_finding(PROP, "L-CUT", fn, fn.node, "draw_simplices never restricts the complex to max_order", role="cut-missing"))
        res.inst("L-CUT", "draw_simplices cuts to max_order before taking maximal simplices", False)
        return
    # no cut may come after (be reachable from) the maximal step
    late = [c for c in cuts if any(c in cfg.reachable(m) for m in maxs)]
    ok = not late
    res.inst("L-CUT", "draw_simplices cuts to max_order before taking maximal simplices", ok)
    if not ok:
        res.add(mk_finding(PROP, "L-CUT", fn, late[0], f"draw_simplices applies the max_order cut `{unparse(late[0], 60)}` after the maximal simplices were taken; a simplex larger than max_order then disappears together with all its faces (its triangles are not drawn as polygons, its two-node faces not as lines)", role="cut-late"))


EXTREME = {"max": "max", "amax": "max", "nanmax": "max", "min": "min", "amin": "min", "nanmin": "min"}
RANGE_POSITIVE_EXAMPLE = """
def _rescale(arg, lo_out, hi_out):
    lo, hi = arg.min(), arg.max()
    return lo_out + (arg - lo) * (hi_out - lo_out) / (hi - lo)
"""


def _extreme_of(fn_node, e, depth=0):
    """('max'|'min', text of the operand) if e is max(x) / x.max() / np.max(x) (through single local assignments)."""
    if depth > 3:
        return None
    if isinstance(e, ast.Call):
        name = getattr(e.func, "attr", getattr(e.func, "id", None))
        if name in EXTREME:
            if isinstance(e.func, ast.Attribute) and not e.args:
                return EXTREME[name], unparse(e.func.value)
            if isinstance(e.func, ast.Attribute) and isinstance(e.func.value, ast.Name) and e.func.value.id in ("np", "numpy") and e.args:
                return EXTREME[name], unparse(e.args[0])
            if isinstance(e.func, ast.Name) and e.args:
                return EXTREME[name], unparse(e.args[0])
    if isinstance(e, ast.Name):
        found = []
        for st in own_statements(fn_node):
            if isinstance(st, ast.Assign):
                for t in st.targets:
                    if isinstance(t, ast.Name) and t.id == e.id:
                        found.append(st.value)
                    elif isinstance(t, (ast.Tuple, ast.List)) and isinstance(st.value, (ast.Tuple, ast.List)) and len(t.elts) == len(st.value.elts):
                        for a, b in zip(t.elts, st.value.elts):
                            if isinstance(a, ast.Name) and a.id == e.id:
                                found.append(b)
        if len(found) == 1:
            return _extreme_of(fn_node, found[0], depth + 1)
    return None


def range_divisions(fn_node):
    """Divisions whose denominator is max(x) - min(x) of one operand x, with whether a test on the two extremes guards them."""
    par = {}
    for p in ast.walk(fn_node):
        for ch in ast.iter_child_nodes(p):
            par[ch] = p
    out = []
    for n in ast.walk(fn_node):
        if isinstance(n, ast.BinOp) and isinstance(n.op, (ast.Div, ast.FloorDiv, ast.Mod)):
            d = n.right
            if isinstance(d, ast.Name):
                defs = [st.value for st in own_statements(fn_node) if isinstance(st, ast.Assign) and any(isinstance(t, ast.Name) and t.id == d.id for t in st.targets)]
                if len(defs) == 1:
                    d = defs[0]
            if isinstance(d, ast.BinOp) and isinstance(d.op, ast.Sub):
                a, b = _extreme_of(fn_node, d.left), _extreme_of(fn_node, d.right)
                if a and b and a[0] == "max" and b[0] == "min" and a[1] == b[1]:
                    names = {x.id for x in ast.walk(d) if isinstance(x, ast.Name)} | {x.id for x in ast.walk(n.right) if isinstance(x, ast.Name)}
                    guarded = False
                    p = n
                    while p in par:
                        p = par[p]
                        if isinstance(p, (ast.If, ast.IfExp, ast.While)):
                            tn = {x.id for x in ast.walk(p.test) if isinstance(x, ast.Name)}
                            if tn & names and any(isinstance(c, ast.Compare) for c in ast.walk(p.test)):
                                guarded = True
                    # an earlier early exit on the degenerate range also guards it
                    for st in own_statements(fn_node):
                        if isinstance(st, ast.If) and st.lineno < n.lineno and any(isinstance(x, (ast.Return, ast.Raise)) for x in st.body):
                            tn = {x.id for x in ast.walk(st.test) if isinstance(x, ast.Name)}
                            if tn & names and any(isinstance(c, ast.Compare) for c in ast.walk(st.test)):
                                guarded = True
                    out.append((n, a[1], guarded))
    return out


def check_range(repo, res, fns):
    """L-RANGE: a rescaling that divides by max(x) - min(x) handles the constant input (all sizes equal is the ordinary
    case of a regular hypergraph); otherwise every marker size / line width becomes NaN and nothing is drawn."""
    pos = ast.parse(RANGE_POSITIVE_EXAMPLE).body[0]
    hits = range_divisions(pos)
    if len(hits) != 1 or hits[0][2]:
        raise AnalysisError("L-RANGE self-check: the embedded positive example is no longer recognised")
    n = 0
    for fn in fns:
        for node, operand, guarded in range_divisions(fn.node):
            n += 1
            res.inst("L-RANGE", f"{fn.fq}:{node.lineno} division by max-min of `{operand}` is guarded", guarded)
            if not guarded:
                res.add(mk_finding(PROP, "L-RANGE", fn, node, f"{fn.qualname}: `{unparse(node, 70)}` divides by the range max-min of `{operand}` without a test for the constant case; when all values are equal (e.g. degrees of a regular hypergraph) the result is NaN and the nodes or lines it sizes are not rendered", role=operand))
    res.inst("L-RANGE", f"{len(fns)} drawing functions scanned for divisions by a max-min range ({n} found; embedded positive example recognised)", True)


def defs_of(fn, name, before=None):
    out = []
    for s in own_statements(fn.node):
        if before is not None and s.lineno >= before:
            continue
        if isinstance(s, ast.Assign):
            for t in s.targets:
                if isinstance(t, ast.Name) and t.id == name:
                    out.append(s.value)
                elif isinstance(t, (ast.Tuple, ast.List)):
                    for i, e in enumerate(t.elts):
                        if isinstance(e, ast.Name) and e.id == name:
                            out.append(("unpack", s.value, i))
    return out


def is_nodes_iter(e, hname):
    """H.nodes / list(H.nodes) / H (iteration over a network yields its nodes)"""
    if isinstance(e, ast.Call) and getattr(e.func, "id", None) in ("list", "tuple") and e.args:
        return is_nodes_iter(e.args[0], hname)
    if isinstance(e, ast.Attribute) and e.attr == "nodes" and isinstance(e.value, ast.Name):
        return True
    if isinstance(e, ast.Name) and e.id == hname:
        return True
    return False


def is_edge_items(e, hname):
    """H.edges.members(dtype=dict).items() / H.edges.members(dtype=dict) / H.edges: (edge id, members) pairs or edge ids"""
    if isinstance(e, ast.Call) and isinstance(e.func, ast.Attribute) and e.func.attr == "items" and not e.args:
        return is_edge_items(e.func.value, hname) == "ids" and "items"
    if isinstance(e, ast.Call) and isinstance(e.func, ast.Attribute) and e.func.attr == "members" and isinstance(e.func.value, ast.Attribute) and e.func.value.attr == "edges":
        if any(k.arg == "dtype" and isinstance(k.value, ast.Name) and k.value.id == "dict" for k in e.keywords):
            return "ids"
        return False
    if isinstance(e, ast.Attribute) and e.attr == "edges" and isinstance(e.value, ast.Name):
        return "ids"
    return False


def loop_key_ok(it, tgt, key, hname, edges, fn=None):
    """A loop/comprehension `for tgt in it` stores under `key`: do the keys range over the node (or edge) view?"""
    if not isinstance(key, ast.Name):
        return False
    if fn is not None:
        it = deref_once(fn, it)
    if is_nodes_iter(it, hname) and not edges and isinstance(tgt, ast.Name) and tgt.id == key.id:
        return True
    if edges:
        kind = is_edge_items(it, hname)
        if kind == "ids" and isinstance(tgt, ast.Name) and tgt.id == key.id:
            return True
        if kind == "items" and isinstance(tgt, ast.Tuple) and tgt.elts and isinstance(tgt.elts[0], ast.Name) and tgt.elts[0].id == key.id:
            return True
    return False


def deref_once(fn, e, depth=0):
    """e with local names that are bound exactly once (to something that is not rebuilt in a loop) replaced by what they
    are bound to: `edge_members = H.edges.members(dtype=dict)` ... `edge_members.items()`."""
    if depth > 3:
        return e
    if isinstance(e, ast.Name):
        ds = defs_of(fn, e.id)
        if len(ds) == 1 and isinstance(ds[0], ast.AST) and e.id not in fn.all_params:
            return deref_once(fn, ds[0], depth + 1)
        return e
    if isinstance(e, ast.Call) and isinstance(e.func, ast.Attribute) and e.func.attr in ("items", "keys", "values") and not e.args:
        inner = deref_once(fn, e.func.value, depth + 1)
        if inner is not e.func.value:
            return ast.Call(func=ast.Attribute(value=inner, attr=e.func.attr, ctx=ast.Load()), args=[], keywords=[])
    return e


def stores_into(fn, name):
    """(store statement, key expr, enclosing For or None) for every `name[key] = ...` in fn."""
    out = []

    def rec(stmts, loops):
        for st in stmts:
            if isinstance(st, (ast.FunctionDef, ast.AsyncFunctionDef, ast.ClassDef)):
                continue
            if isinstance(st, (ast.Assign, ast.AugAssign)):
                tgts = st.targets if isinstance(st, ast.Assign) else [st.target]
                for t in tgts:
                    if isinstance(t, ast.Subscript) and isinstance(t.value, ast.Name) and t.value.id == name:
                        out.append((st, t.slice, list(loops)))
            inner = loops + [st] if isinstance(st, ast.For) else loops
            for field in ("body", "orelse", "finalbody"):
                sub = getattr(st, field, None)
                if isinstance(sub, list):
                    rec(sub, inner if field == "body" else loops)
            for h in getattr(st, "handlers", []) or []:
                rec(h.body, loops)

    rec(fn.node.body, [])
    return out


def key_source(fn, e, hname, depth=0, edges=False, repo=None, self_name=None):
    """Where do the keys of dict-valued expression e come from? Returns (ok, description)."""
    if depth > 5:
        return False, "too deep"
    if isinstance(e, ast.Dict) and not e.keys:
        if self_name is None:
            return True, "empty"
        # filled by subscript stores: every store's key must range over the view
        stores = stores_into(fn, self_name)
        for st, key, loops in stores:
            if not any(loop_key_ok(lp.iter, lp.target, key, hname, edges, fn) for lp in loops):
                return False, f"`{unparse(st, 40)}` stores under a key that does not range over the {'edge' if edges else 'node'} view"
        return True, "empty" if not stores else f"filled in a loop over the {'edge' if edges else 'node'} view"
    if isinstance(e, ast.Dict):
        # {list(H.nodes)[0]: center}
        ok = all(isinstance(k, ast.Subscript) and is_nodes_iter(k.value, hname) for k in e.keys)
        return ok, "literal keyed by an element of the node view" if ok else "literal keys"
    if isinstance(e, ast.DictComp):
        it = e.generators[0].iter
        tgt = e.generators[0].target
        if len(e.generators) == 1 and not e.generators[0].ifs and loop_key_ok(it, tgt, e.key, hname, edges, fn):
            return True, f"comprehension over the {'edge' if edges else 'node'} view"
        # {nodedict[i]: pos[i] for i in nodedict}  (index map of to_bipartite_graph)
        if isinstance(it, ast.Name) and isinstance(e.key, ast.Subscript) and isinstance(e.key.value, ast.Name) and e.key.value.id == it.id:
            for d in defs_of(fn, it.id):
                if isinstance(d, tuple) and isinstance(d[1], ast.Call) and getattr(d[1].func, "id", getattr(d[1].func, "attr", None)) == "to_bipartite_graph":
                    return True, "index map returned by to_bipartite_graph"
        return False, f"comprehension over `{unparse(it, 40)}`" + (" with a filter" if e.generators[0].ifs else "")
    if isinstance(e, ast.Call):
        name = getattr(e.func, "id", getattr(e.func, "attr", None))
        if name == "dict" and e.args and isinstance(e.args[0], ast.Call) and getattr(e.args[0].func, "id", None) == "zip" and e.args[0].args:
            if is_nodes_iter(e.args[0].args[0], hname):
                return True, "dict(zip(node view, ...))"
            return False, f"dict(zip(`{unparse(e.args[0].args[0], 30)}`, ...))"
        if name in NX_LAYOUTS and e.args and isinstance(e.args[0], ast.Name):
            g = e.args[0].id
            for d in defs_of(fn, g):
                call = d[1] if isinstance(d, tuple) else d
                if isinstance(call, ast.Call):
                    cname = getattr(call.func, "id", getattr(call.func, "attr", None))
                    if cname in ("to_graph",):
                        return True, f"networkx layout of to_graph({hname}) (nodes of the projection are the nodes of the network)"
                    if cname in ("_augmented_projection", "to_bipartite_graph"):
                        return "aux", f"networkx layout of {cname}({hname}) (auxiliary nodes present)"
            return False, f"layout of graph `{g}` of unknown origin"
        # a private helper of the same module that receives the network: its returned dict decides
        if repo is not None and isinstance(e.func, ast.Name):
            tgt = repo.resolve_name(fn, fn.module, e.func.id)
            if isinstance(tgt, FunctionInfo) and tgt.module is fn.module and tgt.cls is None:
                for i, a in enumerate(e.args):
                    if isinstance(a, ast.Name) and a.id == hname and i < len(tgt.params):
                        rets = [r for r in own_statements(tgt.node) if isinstance(r, ast.Return) and r.value is not None]
                        if rets:
                            # (pos, G): the positions come first, as in the layouts' own returns
                            vs = [key_source(tgt, r.value.elts[0] if isinstance(r.value, ast.Tuple) and r.value.elts else r.value, tgt.params[i], depth + 1, edges, repo) for r in rets]
                            bad = [v for v in vs if v[0] is not True]
                            return (bad[0][0], f"{tgt.name}: {bad[0][1]}") if bad else (True, f"{tgt.name}: {vs[0][1]}")
        return False, f"result of `{unparse(e.func, 30)}`"
    if isinstance(e, ast.Name):
        ds = defs_of(fn, e.id)
        if not ds:
            return False, f"`{e.id}` has no definition"
        verdicts = []
        for d in ds:
            if isinstance(d, tuple):
                verdicts.append((False, "unpacked value"))
            else:
                verdicts.append(key_source(fn, d, hname, depth + 1, edges, repo, self_name=e.id))
        if any(v[0] == "aux" for v in verdicts):
            return "aux", verdicts[0][1]
        bad = [v for v in verdicts if not v[0]]
        # a later re-keying (pos = dict(zip(H, pos))) overrides earlier array-valued definitions
        if bad and verdicts[-1][0] is True:
            return True, verdicts[-1][1]
        return (not bad), (bad[0][1] if bad else verdicts[-1][1])
    if isinstance(e, ast.IfExp):
        a, b = key_source(fn, e.body, hname, depth + 1, edges, repo), key_source(fn, e.orelse, hname, depth + 1, edges, repo)
        return (a[0] is True and b[0] is True), a[1] if a[0] is not True else b[1]
    return False, f"`{unparse(e, 40)}`"


def check_keys(repo, res, fn):
    hname = fn.params[0]
    rets = [r for r in own_statements(fn.node) if isinstance(r, ast.Return) and r.value is not None]
    if not rets:
        raise AnalysisError(f"{fn.qualname}: no return statement")
    for r in rets:
        v = r.value
        parts = v.elts[:1] if isinstance(v, ast.Tuple) and fn.name != "bipartite_spring_layout" else (list(v.elts) if isinstance(v, ast.Tuple) else [v])
        for part in parts:
            ok, why = key_source(fn, part, hname, edges=(fn.name == "edge_positions_from_barycenters"), repo=repo)
            if ok == "aux":
                ok, why = False, why + " returned without restricting the keys to the node view"
            res.inst("L-KEYS", f"{fn.qualname}:{r.lineno} `{unparse(part, 30)}`: {why}", ok is True)
            if ok is not True:
                res.add(mk_finding(PROP, "L-KEYS", fn, r, f"{fn.qualname}: the keys of the returned positions do not come from iteration over the network's node view ({why}); some labels (e.g. numpy integers that collide with auxiliary nodes) can get no position or a foreign one", role=unparse(part, 20)))


def check_order(repo, res):
    mi = repo.modules.get("xgi.drawing.draw")
    if mi is None:
        raise AnalysisError("xgi.drawing.draw not found (anchor vanished)")
    dn = mi.functions.get("draw_nodes")
    if dn is None:
        raise AnalysisError("draw_nodes not found (anchor vanished)")
    # the coordinate array passed to scatter
    ok = False

    def view_order_coords(value, posname):
        """np.asarray([pos[v] for v in H.nodes]) (any wrapper call around the comprehension)"""
        if isinstance(value, ast.Call) and value.args and isinstance(value.args[0], ast.ListComp):
            comp = value.args[0]
            g = comp.generators[0]
            return isinstance(comp.elt, ast.Subscript) and isinstance(comp.elt.value, ast.Name) and comp.elt.value.id == posname and isinstance(g.iter, ast.Attribute) and g.iter.attr == "nodes" and not g.ifs and isinstance(comp.elt.slice, ast.Name) and isinstance(g.target, ast.Name) and comp.elt.slice.id == g.target.id
        return False

    for s in own_statements(dn.node):
        if isinstance(s, ast.Assign) and view_order_coords(s.value, "pos"):
            ok = True
        # a same-module helper handed `pos` that returns the stacked coordinates on every return
        if isinstance(s, ast.Assign) and isinstance(s.value, ast.Call) and isinstance(s.value.func, ast.Name) and s.value.func.id in mi.functions:
            h = mi.functions[s.value.func.id]
            pidx = [i for i, a in enumerate(s.value.args) if isinstance(a, ast.Name) and a.id == "pos"]
            if pidx and pidx[0] < len(h.params):
                rets = [r for r in ast.walk(h.node) if isinstance(r, ast.Return) and r.value is not None]
                if rets and all(view_order_coords(r.value, h.params[pidx[0]]) for r in rets):
                    ok = True
        # loop form: coords = []; for v in H.nodes: coords.append(pos[v]); xy = np.asarray(coords)
        if isinstance(s, ast.Assign) and isinstance(s.value, ast.Call) and s.value.args and isinstance(s.value.args[0], ast.Name):
            lst = s.value.args[0].id
            for lp in own_statements(dn.node):
                if isinstance(lp, ast.For) and isinstance(lp.target, ast.Name) and isinstance(lp.iter, ast.Attribute) and lp.iter.attr == "nodes":
                    v = lp.target.id
                    for b in lp.body:  # directly in the loop body: not under a condition
                        if isinstance(b, ast.Expr) and isinstance(b.value, ast.Call) and isinstance(b.value.func, ast.Attribute) and b.value.func.attr == "append" and isinstance(b.value.func.value, ast.Name) and b.value.func.value.id == lst and b.value.args:
                            a = b.value.args[0]
                            if isinstance(a, ast.Subscript) and isinstance(a.value, ast.Name) and a.value.id == "pos" and isinstance(a.slice, ast.Name) and a.slice.id == v:
                                others = [x for x in ast.walk(dn.node) if isinstance(x, ast.Call) and isinstance(x.func, ast.Attribute) and x.func.attr in ("append", "extend", "insert") and isinstance(x.func.value, ast.Name) and x.func.value.id == lst]
                                if len(others) == 1:
                                    ok = True
    res.inst("L-ORDER", "draw_nodes builds the scatter coordinates by iterating H.nodes", ok)
    if not ok:
        res.add(mk_finding(PROP, "L-ORDER", dn, dn.node, "draw_nodes does not build the marker coordinates as [pos[v] for v in H.nodes]; markers would not be in node order (per-node style arrays are)", role="xy"))
    for fname in ("draw_hyperedges",):
        fn = mi.functions.get(fname)
        if fn is None:
            raise AnalysisError(f"{fname} not found (anchor vanished)")
        perm = None
        for s in own_statements(fn.node):
            if isinstance(s, ast.Assign) and isinstance(s.targets[0], ast.Name) and any(isinstance(c, ast.Call) and getattr(c.func, "attr", None) == "argsort" for c in ast.walk(s.value)):
                perm = s.targets[0].id
        if perm is None:
            res.info.append({"L-ORDER": f"{fname} does not sort edges by size any more"})
            continue
        # every per-edge array that is subscripted by anything is subscripted by the same permutation
        uses = []
        for s in own_statements(fn.node):
            if s.lineno < [d.lineno for d in own_statements(fn.node) if isinstance(d, ast.Assign) and isinstance(d.targets[0], ast.Name) and d.targets[0].id == perm][0]:
                continue
            for n in ast.walk(s):
                if isinstance(n, ast.Subscript) and isinstance(n.slice, ast.Name) and n.slice.id.startswith("ids"):
                    uses.append((s, n))
        bad = [(s, n) for s, n in uses if n.slice.id != perm]
        loop_ok = any(isinstance(s, ast.For) and isinstance(s.iter, ast.Subscript) and isinstance(s.iter.slice, ast.Name) and s.iter.slice.id == perm and any(isinstance(c, ast.Call) and getattr(c.func, "attr", None) == "members" for c in ast.walk(s.iter)) for s in own_statements(fn.node))
        ok = not bad and loop_ok and len(uses) >= 2
        res.inst("L-ORDER", f"{fname}: style arrays and the member list are permuted by the same index array `{perm}`", ok)
        if not ok:
            res.add(mk_finding(PROP, "L-ORDER", fn, fn.node, f"{fname}: per-edge style arrays and the polygon list are not permuted by the same index array `{perm}`; polygons would get another edge's style", role=perm))


def check_reorderings(repo, res):
    """L-POLY (re-ordering helpers): a helper of the drawing code that puts an edge's member positions in drawing order
    (_CCW_sort) returns a *permutation* of them: the rows are selected by the result of `argsort` (or `lexsort`), never
    by the index array of `np.unique(..., return_index=True)`, a boolean mask or a slice - those drop rows (members at
    the same angle collapse into one, and the polygon loses a vertex)."""
    mi = repo.modules.get("xgi.drawing.draw_utils")
    fn = mi.functions.get("_CCW_sort") if mi else None
    if fn is None:
        raise AnalysisError("xgi.drawing.draw_utils._CCW_sort not found (anchor vanished)")
    pname = fn.params[0]
    local = {}
    for st in ast.walk(fn.node):
        if isinstance(st, ast.Assign):
            for t in st.targets:
                if isinstance(t, ast.Name):
                    local.setdefault(t.id, []).append(st.value)
                elif isinstance(t, (ast.Tuple, ast.List)):
                    for i, e in enumerate(t.elts):
                        if isinstance(e, ast.Name):
                            local.setdefault(e.id, []).append(("unpack", st.value, i))

    def is_perm(e, depth=0):
        if depth > 4:
            return False
        if isinstance(e, ast.Call):
            nm = getattr(e.func, "attr", getattr(e.func, "id", None))
            if nm in ("argsort", "lexsort"):
                return True
            if nm in ("flip", "roll", "array", "asarray") and e.args:
                return is_perm(e.args[0], depth + 1)
            return False
        if isinstance(e, ast.Subscript):  # order[::-1]
            return is_perm(e.value, depth + 1) and isinstance(e.slice, ast.Slice) and e.slice.lower is None and e.slice.upper is None
        if isinstance(e, ast.Name):
            ds = local.get(e.id, [])
            return bool(ds) and all(isinstance(d, ast.AST) and is_perm(d, depth + 1) for d in ds)
        return False

    rets = [r for r in ast.walk(fn.node) if isinstance(r, ast.Return) and r.value is not None]
    n = 0
    for r in rets:
        v = r.value
        n += 1
        ok = False
        why = "is not the input indexed by a sort permutation"
        if isinstance(v, ast.Subscript) and isinstance(v.value, ast.Name):
            idx = v.slice.elts[0] if isinstance(v.slice, ast.Tuple) and v.slice.elts else v.slice
            base_ok = v.value.id == pname or all(isinstance(d, ast.AST) and isinstance(d, ast.Call) and getattr(d.func, "attr", getattr(d.func, "id", None)) in ("array", "asarray") for d in local.get(v.value.id, [None]))
            if base_ok and is_perm(idx):
                ok = True
            elif base_ok:
                why = f"selects rows with `{unparse(idx, 40)}`, which is not an argsort permutation (np.unique(..., return_index=True) keeps one row per distinct key; a mask or slice drops rows)"
        res.inst("L-POLY", f"_CCW_sort:{r.lineno} returns a permutation of the member positions", ok)
        if not ok:
            res.add(mk_finding(PROP, "L-POLY", fn, r, f"_CCW_sort: the returned array {why}; members whose positions tie under the sort key (same angle from the centroid) are merged into one row, so the polygon drawn for the edge no longer has exactly its members' positions as vertices", role="ccw"))
    if n < 1:
        raise AnalysisError("_CCW_sort: no return found (extractor does not recognise the code)")
