"""C06 - Views and statistics are live and mutually consistent (mechanisms, decided statically).

V-LIVE     views bind the network's own table objects (never a copy); the tables are never rebound outside
           __init__/__setstate__, where both views are (re)built afterwards on every path.
V-NOCACHE  no statistic value is memoised: stat objects assign no attribute outside __init__, _val is a property that
           calls the stat function, no functools cache decorator in stats/ or on view methods, IDView.__getattr__ stores
           only the object returned by dispatch_stat, IDStat.__init__ keeps the network and the view by reference.
V-ORDER    every ordered output of a statistic (asdict/aslist/asnumpy/aspandas, multi variants, argsort/argmax/argmin)
           takes its order from iteration over the view; from_view orders a bunch by the table, not by the bunch.
V-FWD      every public method of the view classes reads each parameter and forwards keywords under their own name.
V-UNION    the total degree of a node / total size of an edge of a directed network is the size of the UNION of its two
           sides, never the sum of their sizes (a node in both tail and head of one edge would count twice).
V-SIDE     the directed statistics and accessors named after one side read that side: in_degree the node's "in"
           memberships, out_degree "out", tail* the edge's "in" (tail) set, head* its "out" (head) set; occurrences where
           both sides of one entry are combined (total size / degree filters) are neutral.
V-FILTER   in filterby / filterby_attr each mode maps to its comparison operator between the stat value and the
           argument, the candidates are iterated in view order and the result is restricted through from_view.
"""
from __future__ import annotations

import ast

from ..cfg import CFG, EXIT, own_nodes, own_statements
from ..effects import EATTR, EDGE, NATTR, NODE, Effects
from ..model import CORE_CLASSES, AnalysisError
from ..report import Result, mk_finding
from .common import unparse

PROP = "C06"
MODE_OPS = {"eq": ast.Eq, "neq": ast.NotEq, "lt": ast.Lt, "gt": ast.Gt, "leq": ast.LtE, "geq": ast.GtE}
FLIP = {ast.Lt: ast.Gt, ast.Gt: ast.Lt, ast.LtE: ast.GtE, ast.GtE: ast.LtE, ast.Eq: ast.Eq, ast.NotEq: ast.NotEq}
OPERATOR_NAMES = {"eq": "eq", "neq": "ne", "lt": "lt", "gt": "gt", "leq": "le", "geq": "ge"}
TABLE_OF_VIEW_ATTR = {"_id_dict", "_id_attr", "_bi_id_dict", "_bi_id_attr"}


def run(ctx):
    repo = ctx.repo
    res = Result(PROP)
    res.rules = ["V-LIVE", "V-REBIND", "V-NOCACHE", "V-ORDER", "V-IDS", "V-DOMAIN", "V-NBR", "V-FILTER", "V-FWD", "V-UNION", "V-ZERO", "V-SIDE"]
    res.explanation = (
        "Structural rules over the view and stat classes and a package-wide who-may-rebind scan (effect analysis): views "
        "alias the live tables, nothing is cached, ordered outputs are tagged with the provenance of their iteration "
        "order (VIEW / SET / other) and must be VIEW, and the filter modes are extracted as a finite table and compared "
        "with the documented operators. Numerical definitions of the statistics are not decided."
    )
    views = repo.modules.get("xgi.core.views")
    stats = repo.modules.get("xgi.stats")
    if views is None or stats is None or "IDView" not in views.classes or "IDStat" not in stats.classes:
        raise AnalysisError("xgi.core.views.IDView / xgi.stats.IDStat not found (anchor vanished)")
    idview = views.classes["IDView"]
    check_live(repo, res, idview)
    check_rebind(repo, res)
    check_nocache(repo, res, idview, stats)
    check_order(repo, res, idview, stats)
    check_filter(repo, res, idview)
    check_ids_owner(repo, res)
    check_selection_domain(repo, res, idview)
    check_neighbor_threshold(repo, res, idview)
    # V-FWD: the public methods of the view classes read every parameter and forward keywords under their own name
    # (sources/targets are aliases of tail/head; a dropped `e=` or `dtype=` changes what is returned)
    from .c05_edits import check_params

    n = 0
    for cname in ("IDView", "NodeView", "EdgeView", "DiNodeView", "DiEdgeView"):
        ci = views.classes.get(cname)
        if ci is None:
            raise AnalysisError(f"xgi.core.views.{cname} not found (anchor vanished)")
        for m in ci.methods.values():
            if m.name in ("__init__", "__setstate__", "__getstate__", "__getattr__"):
                continue
            n += check_params(repo, res, ci, m, prop=PROP, rule="V-FWD")
    res.floor("view methods checked for dropped parameters", n, 20)
    from .common import pattern_lint

    stat_fns = [f for mn in ("xgi.stats.dinodestats", "xgi.stats.diedgestats", "xgi.core.views") for f in (list(repo.modules[mn].functions.values()) + [m for c in repo.modules[mn].classes.values() for m in c.methods.values()]) if mn in repo.modules]
    pattern_lint(res, PROP, "V-UNION", stat_fns, sum_of_sides_sites,
                 "def _deg(net, n):\n    return len(net._node[n]['in']) + len(net._node[n]['out'])\n",
                 lambda nd: f"`{unparse(nd, 70)}` adds the sizes of the two sides of one directed entry; a node that is both in the tail and in the head of the same edge (or an edge that is both among the in- and out-memberships) is counted twice, so the statistic disagrees with the degree / size defined on the union",
                 "sums of the sizes of the in and out sides of one entry")
    check_sides(repo, res)
    from .common import check_dead_params

    vs_fns = [m for cn in ("IDView", "NodeView", "EdgeView", "DiNodeView", "DiEdgeView") for m in views.classes[cn].methods.values()]
    vs_fns += [f for mn, mi in repo.modules.items() if mn.startswith("xgi.stats") for f in list(mi.functions.values()) + [m for c in mi.classes.values() for m in c.methods.values()]]
    nd = check_dead_params(res, PROP, "V-FWD", vs_fns, "the value of the statistic / the IDs returned")
    res.floor("view methods and stat functions checked for dead parameters", nd, 55)
    from .c12_matrices import falsy_default_sites

    all_stat_fns = [f for mn, mi in repo.modules.items() if mn.startswith("xgi.stats") for f in list(mi.functions.values()) + [m for c in mi.classes.values() for m in c.methods.values()]]
    pattern_lint(res, PROP, "V-ZERO", all_stat_fns, falsy_default_sites,
                 "def _deg(net, e, weight):\n    return net._edge_attr[e].get(weight) or 1\n",
                 lambda nd: f"`{unparse(nd, 60)}` replaces a stored attribute value by a default whenever it is falsy; an edge whose weight is 0 then counts with the default weight, so the weighted statistic no longer equals the sum over the current structure",
                 "`<lookup> or <number>` on stored attribute values")
    return res


VIEW_CLASS_NAMES = ("IDView", "NodeView", "EdgeView", "DiNodeView", "DiEdgeView")


def ids_write_sites(fn_node):
    """Assignments / setattr / __dict__ stores that bind the `_ids` slot of some object."""
    for n in ast.walk(fn_node):
        if isinstance(n, (ast.Assign, ast.AugAssign, ast.AnnAssign)):
            tgts = n.targets if isinstance(n, ast.Assign) else [n.target]
            for t in tgts:
                for x in ast.walk(t):
                    if isinstance(x, ast.Attribute) and x.attr == "_ids" and isinstance(x.ctx, ast.Store):
                        yield n
                    if isinstance(x, ast.Subscript) and isinstance(x.slice, ast.Constant) and x.slice.value == "_ids" and isinstance(x.ctx, ast.Store):
                        yield n
        if isinstance(n, ast.Call) and getattr(n.func, "id", getattr(n.func, "attr", None)) in ("setattr", "__setattr__") and any(isinstance(a, ast.Constant) and a.value == "_ids" for a in n.args):
            yield n


def check_ids_owner(repo, res):
    """V-IDS: which IDs a view shows, and in which order, is decided in exactly two places - IDView.__init__ (all IDs:
    the live table) and IDView.from_view (a bunch: validated against the table and listed in table order; rules V-LIVE
    and V-ORDER check those two).  Every other way of producing a view must go through them: no other function binds
    `_ids`, and no view class is instantiated with an explicit ID list outside the views' own constructors.  A set
    operation, filter or lookup that installed its own list would hand out IDs that are not in the network or in an
    order different from H.nodes(bunch) / the statistics computed over the same IDs."""
    owners = {"IDView.__init__", "IDView.from_view"}
    pos = ast.parse("def _from_iterable(self, it):\n    v = self.from_view(self)\n    v._ids = list(dict.fromkeys(it))\n    return v\n").body[0]
    if not list(ids_write_sites(pos)):
        raise AnalysisError("V-IDS self-check: the embedded positive example is no longer recognised")
    n = 0
    found_owner_writes = 0
    for fn in repo.all_functions():
        for st in ids_write_sites(fn.node):
            n += 1
            if fn.qualname in owners:
                found_owner_writes += 1
                continue
            res.inst("V-IDS", f"{fn.fq}:{st.lineno} binds _ids", False)
            res.add(mk_finding(PROP, "V-IDS", fn, st, f"{fn.qualname} installs its own ID list in a view (`{unparse(st, 60)}`) instead of going through from_view: the IDs are neither checked against the network nor listed in the network's order, so the view disagrees with H.nodes(bunch) / H.edges(bunch) over the same IDs and can hold IDs that do not exist", role="_ids"))
        # explicit ID list handed to a view constructor
        for c in ast.walk(fn.node):
            if not isinstance(c, ast.Call):
                continue
            f = c.func
            name = f.id if isinstance(f, ast.Name) else None
            is_cls_call = name in VIEW_CLASS_NAMES or (isinstance(f, ast.Attribute) and f.attr == "__class__" and fn.cls is not None and fn.cls.name in VIEW_CLASS_NAMES) or (name == "cls" and fn.cls is not None and fn.cls.name in VIEW_CLASS_NAMES)
            if not is_cls_call:
                continue
            n += 1
            extra = list(c.args[1:]) + [k.value for k in c.keywords if k.arg in ("bunch", "ids", None)]
            bad = [a for a in extra if not (isinstance(a, ast.Constant) and a.value is None)]
            if fn.cls is not None and fn.cls.name in VIEW_CLASS_NAMES and fn.name == "__init__":
                bad = []
            res.inst("V-IDS", f"{fn.fq}:{c.lineno} view constructed without an explicit ID list", not bad)
            if bad:
                res.add(mk_finding(PROP, "V-IDS", fn, c, f"{fn.qualname} constructs a view with an explicit ID list (`{unparse(c, 60)}`); only from_view validates the IDs and lists them in the network's order", role="ctor"))
    if found_owner_writes < 3:
        raise AnalysisError(f"V-IDS: expected the assignments of _ids in IDView.__init__ and from_view, found {found_owner_writes} (extractor does not recognise the code)")
    res.inst("V-IDS", f"{n} bindings of _ids / view constructions examined; only IDView.__init__ and from_view bind _ids", True)


def check_neighbor_threshold(repo, res, idview):
    """V-NBR: `neighbors(idx, s)` are the IDs that share at least s bipartite neighbours with idx.  The threshold s therefore
    bounds the size of sets taken from the ID table (`_id_dict[...]`: the neighbour set of idx, of a candidate, or their
    intersection) - it says nothing about how many members a shared bipartite ID has (`_bi_id_dict[...]`: two are enough
    for it to count).  Every comparison that involves `s` is a size comparison whose set is rooted in `_id_dict`."""
    m = idview.methods.get("neighbors")
    if m is None or "s" not in m.all_params:
        raise AnalysisError("IDView.neighbors(idx, s) not found (anchor vanished)")
    local = {}
    for st in ast.walk(m.node):
        if isinstance(st, ast.Assign) and len(st.targets) == 1 and isinstance(st.targets[0], ast.Name):
            local.setdefault(st.targets[0].id, []).append(st.value)

    def roots(e, depth=0):
        """which tables the set expression e is taken from: subset of {'id', 'bi', '?'}"""
        out = set()
        if depth > 4:
            return {"?"}
        if isinstance(e, ast.Subscript) and isinstance(e.value, ast.Attribute) and e.value.attr in ("_id_dict", "_bi_id_dict"):
            return {"id" if e.value.attr == "_id_dict" else "bi"}
        if isinstance(e, ast.Subscript) and isinstance(e.value, ast.Name):
            return roots(e.value, depth + 1)
        if isinstance(e, ast.Attribute) and e.attr in ("_id_dict", "_bi_id_dict"):
            return {"id" if e.attr == "_id_dict" else "bi"}
        if isinstance(e, ast.Name):
            ds = local.get(e.id, [])
            if not ds:
                return {"?"}
            for d in ds:
                out |= roots(d, depth + 1)
            return out
        if isinstance(e, ast.BinOp) and isinstance(e.op, (ast.BitAnd, ast.BitOr, ast.Sub)):
            return roots(e.left, depth + 1) | roots(e.right, depth + 1)
        if isinstance(e, ast.Call) and isinstance(e.func, ast.Attribute) and e.func.attr in ("intersection", "union", "difference", "copy"):
            out = roots(e.func.value, depth + 1)
            for a in e.args:
                out |= roots(a, depth + 1)
            return out
        if isinstance(e, ast.Call) and getattr(e.func, "id", None) in ("set", "frozenset", "list") and e.args:
            return roots(e.args[0], depth + 1)
        return {"?"}

    n = 0
    for c in ast.walk(m.node):
        if not (isinstance(c, ast.Compare) and any(isinstance(x, ast.Name) and x.id == "s" for x in [c.left] + list(c.comparators))):
            continue
        others = [x for x in [c.left] + list(c.comparators) if not (isinstance(x, ast.Name) and x.id == "s")]
        for o in others:
            if isinstance(o, ast.Constant):
                continue  # s == 1 fast path
            n += 1
            if isinstance(o, ast.Call) and getattr(o.func, "id", None) == "len" and o.args:
                r = roots(o.args[0])
                ok = r <= {"id"}
                why = f"the size of `{unparse(o.args[0], 40)}`, a set taken from the other table (the members of a shared bipartite ID)" if "bi" in r else f"the size of `{unparse(o.args[0], 40)}`, whose origin the rule cannot see"
                if "?" in r and "bi" not in r:
                    raise AnalysisError(f"IDView.neighbors: `{unparse(c, 50)}` compares s with a set of unknown origin (extractor does not recognise the code)")
            else:
                ok, why = False, f"`{unparse(o, 40)}`, which is not the size of a set"
                raise AnalysisError(f"IDView.neighbors: `{unparse(c, 50)}` compares s with something that is not a size (extractor does not recognise the code)")
            res.inst("V-NBR", f"IDView.neighbors:{c.lineno} `{unparse(c, 50)}` bounds a set of the ID table", ok)
            if not ok:
                res.add(mk_finding(PROP, "V-NBR", m, c, f"IDView.neighbors: `{unparse(c, 60)}` compares the threshold s with {why}; a shared neighbour counts towards s however few members it has, so candidates reached only through small shared IDs are dropped and neighbors(idx, s) misses IDs that do share s neighbours", role="threshold"))
    if n < 1:
        raise AnalysisError("IDView.neighbors: no comparison with the threshold s found (extractor does not recognise the code)")


def check_selection_domain(repo, res, idview):
    """V-DOMAIN: the selections that are defined by a property of each ID's neighbour set (lookup: "the IDs whose
    neighbours are exactly this set"; duplicates) examine every ID of the table.  A candidate list derived from the sought
    set itself (the IDs adjacent to one of its elements) is empty when the set is empty - lookup([]) then misses the
    isolated nodes / empty edges, and disagrees with isolates() / empty()."""
    n = 0
    for mname in ("lookup", "duplicates"):
        m = idview.methods.get(mname)
        if m is None:
            continue
        selfn = m.params[0]
        bodies = [m]
        # private helpers of the class that compute the bunch
        for c in ast.walk(m.node):
            if isinstance(c, ast.Call) and isinstance(c.func, ast.Attribute) and isinstance(c.func.value, ast.Name) and c.func.value.id == selfn and c.func.attr.startswith("_") and c.func.attr in idview.methods:
                bodies.append(idview.methods[c.func.attr])
        full = False
        narrowed = None
        for b in bodies:
            s0 = b.params[0]
            local = {}
            for st in ast.walk(b.node):
                if isinstance(st, ast.Assign) and len(st.targets) == 1 and isinstance(st.targets[0], ast.Name):
                    local.setdefault(st.targets[0].id, []).append(st.value)

            def is_table(e, depth=0):
                if isinstance(e, ast.Call) and isinstance(e.func, ast.Attribute) and e.func.attr in ("items", "keys", "values") and not e.args:
                    return is_table(e.func.value, depth)
                if isinstance(e, ast.Attribute) and isinstance(e.value, ast.Name) and e.value.id == s0 and e.attr in ("_id_dict", "_ids"):
                    return True
                if isinstance(e, ast.Name) and e.id == s0:
                    return True
                if isinstance(e, ast.Name) and depth < 3 and len(local.get(e.id, [])) == 1:
                    return is_table(local[e.id][0], depth + 1)
                if isinstance(e, ast.Call) and getattr(e.func, "id", None) in ("list", "enumerate", "iter", "tuple") and e.args:
                    return is_table(e.args[0], depth)
                if isinstance(e, ast.Call) and isinstance(e.func, ast.Attribute) and e.func.attr in ("items", "keys", "values") and isinstance(e.func.value, ast.Call):
                    return is_table(e.func.value, depth)
                if isinstance(e, ast.Call) and isinstance(e.func, ast.Name) and depth < 3 and any(is_table(a, depth + 1) for a in e.args):
                    # the whole table handed to a helper (`_group_by_members(self._id_dict)`): every ID is examined there
                    return True
                return False

            for it in [x.iter for x in ast.walk(b.node) if isinstance(x, (ast.For, ast.comprehension))]:
                if is_table(it):
                    full = True
                elif any(isinstance(x, ast.Attribute) and x.attr in ("_bi_id_dict",) for x in ast.walk(it)) or (isinstance(it, ast.Name) and any(any(isinstance(x, ast.Attribute) and x.attr == "_bi_id_dict" for x in ast.walk(v)) for v in local.get(it.id, []))):
                    narrowed = it
        n += 1
        ok = full and narrowed is None
        res.inst("V-DOMAIN", f"IDView.{mname} examines every ID of the table", ok)
        if not ok:
            what = f"iterates `{unparse(narrowed, 40)}`, candidates taken from the neighbours of the argument" if narrowed is not None else "does not iterate the ID table"
            res.add(mk_finding(PROP, "V-DOMAIN", m, narrowed if narrowed is not None else m.node, f"IDView.{mname} {what}: IDs that are adjacent to none of the given elements are never examined, so for an empty argument the IDs without neighbours (isolated nodes, empty edges) are missed although their neighbour set equals the argument", role=mname))
    if n < 1:
        raise AnalysisError("IDView.lookup / duplicates not found (anchor vanished)")


def sum_of_sides_sites(fn_node):
    """len(X["in"]) + len(X["out"]) for the same X."""
    def side(e):
        if isinstance(e, ast.Call) and isinstance(e.func, ast.Name) and e.func.id == "len" and len(e.args) == 1:
            a = e.args[0]
            if isinstance(a, ast.Subscript) and isinstance(a.slice, ast.Constant) and a.slice.value in ("in", "out"):
                return a.slice.value, ast.dump(a.value)
        return None

    for n in ast.walk(fn_node):
        if isinstance(n, ast.BinOp) and isinstance(n.op, ast.Add):
            a, b = side(n.left), side(n.right)
            if a and b and a[0] != b[0] and a[1] == b[1]:
                yield n


# ------------------------------------------------------------------------------------------ V-LIVE
def strip_none_guard(e):
    """`None if self._net is None else X` -> X"""
    if isinstance(e, ast.IfExp) and isinstance(e.body, ast.Constant) and e.body.value is None:
        return e.orelse
    if isinstance(e, ast.IfExp) and isinstance(e.orelse, ast.Constant) and e.orelse.value is None:
        return e.body
    return e


def is_plain_attr_chain(e):
    while isinstance(e, ast.Attribute):
        e = e.value
    return isinstance(e, ast.Name)


def check_live(repo, res, idview):
    init = idview.methods.get("__init__")
    fv = idview.methods.get("from_view")
    if init is None or fv is None:
        raise AnalysisError("IDView.__init__/from_view not found (anchor vanished)")
    n = 0
    selfn = init.params[0]
    netp = init.params[1]
    for st in own_statements(init.node):
        if isinstance(st, ast.Assign) and len(st.targets) == 1 and isinstance(st.targets[0], ast.Attribute) and st.targets[0].attr in TABLE_OF_VIEW_ATTR:
            n += 1
            v = strip_none_guard(st.value)
            ok = isinstance(v, ast.Attribute) and v.attr in ("_node", "_edge", "_node_attr", "_edge_attr") and isinstance(v.value, ast.Name) and v.value.id in (netp,) or (isinstance(v, ast.Attribute) and isinstance(v.value, ast.Attribute) and v.value.attr == "_net")
            res.inst("V-LIVE", f"IDView.__init__:{st.lineno} {unparse(st.targets[0])} <- {unparse(v, 40)}", ok)
            if not ok:
                res.add(mk_finding(PROP, "V-LIVE", init, st, f"IDView.__init__ binds {unparse(st.targets[0])} to `{unparse(v, 60)}` instead of the network's own table; the view would show a stale snapshot", role=st.targets[0].attr))
    res.floor("table bindings in IDView.__init__", n, 8)
    # _ids default
    ids_assign = [st for st in own_statements(init.node) if isinstance(st, ast.Assign) and any(isinstance(t, ast.Attribute) and t.attr == "_ids" for t in st.targets)]
    def _is_id_dict(e):
        return isinstance(e, ast.Attribute) and e.attr == "_id_dict"

    live_default = any(_is_id_dict(st.value) or (isinstance(st.value, ast.IfExp) and (_is_id_dict(st.value.body) or _is_id_dict(st.value.orelse))) for st in ids_assign)
    res.inst("V-LIVE", "IDView.__init__: _ids defaults to the ID table itself", live_default)
    if not live_default:
        res.add(mk_finding(PROP, "V-LIVE", init, ids_assign[0] if ids_assign else init.node, "IDView.__init__ does not let _ids default to the live ID table (self._id_dict)", role="_ids"))
    # from_view
    n = 0
    newv = None
    viewp = fv.params[1]
    aliases = {}
    for st in own_statements(fv.node):
        if isinstance(st, ast.Assign) and len(st.targets) == 1 and isinstance(st.targets[0], ast.Name) and isinstance(st.value, ast.Attribute) and isinstance(st.value.value, ast.Name) and st.value.value.id == viewp:
            aliases[st.targets[0].id] = st.value

    def deref(e):
        return aliases.get(e.id, e) if isinstance(e, ast.Name) else e

    for st in own_statements(fv.node):
        if isinstance(st, ast.Assign) and len(st.targets) == 1 and isinstance(st.targets[0], ast.Attribute) and st.targets[0].attr in TABLE_OF_VIEW_ATTR | {"_net"}:
            n += 1
            v = deref(st.value)
            ok = isinstance(v, ast.Attribute) and v.attr == st.targets[0].attr and isinstance(v.value, ast.Name) and v.value.id == viewp
            res.inst("V-LIVE", f"IDView.from_view:{st.lineno} {unparse(st.targets[0])} <- {unparse(v, 40)}", ok)
            if not ok:
                res.add(mk_finding(PROP, "V-LIVE", fv, st, f"from_view binds {unparse(st.targets[0])} to `{unparse(v, 60)}` instead of the source view's own {st.targets[0].attr}", role=st.targets[0].attr))
    res.floor("table bindings in IDView.from_view", n, 4)
    bound = {st.targets[0].attr for st in own_statements(fv.node) if isinstance(st, ast.Assign) and len(st.targets) == 1 and isinstance(st.targets[0], ast.Attribute)}
    for attr in sorted(TABLE_OF_VIEW_ATTR | {"_net"}):
        ok = attr in bound
        res.inst("V-LIVE", f"IDView.from_view binds {attr} of the new view", ok)
        if not ok:
            res.add(mk_finding(PROP, "V-LIVE", fv, fv.node, f"from_view leaves `{attr}` of the new view unset (it is created with cls(None)); neighbors / memberships / attribute statistics on a restricted view then fail or read nothing", role=f"unset:{attr}"))
    ids_assigns = [st for st in own_statements(fv.node) if isinstance(st, ast.Assign) and any(isinstance(t, ast.Attribute) and t.attr == "_ids" for t in st.targets)]
    if len(ids_assigns) < 2:
        raise AnalysisError("IDView.from_view: expected the two assignments of _ids (bunch None / given)")
    for st in ids_assigns:
        v = st.value
        if isinstance(v, (ast.ListComp, ast.GeneratorExp)) or (isinstance(v, ast.Call) and v.args and isinstance(v.args[0], (ast.ListComp, ast.GeneratorExp))):
            comp = v if isinstance(v, (ast.ListComp, ast.GeneratorExp)) else v.args[0]
            it = deref(comp.generators[0].iter)
            ok = isinstance(it, ast.Attribute) and it.attr in ("_id_dict", "_ids") and isinstance(it.value, ast.Name) and it.value.id == viewp
            res.inst("V-ORDER", f"from_view:{st.lineno} restricted IDs are listed in table order", ok)
            if not ok:
                res.add(mk_finding(PROP, "V-ORDER", fv, st, f"from_view orders the restricted IDs by `{unparse(it, 50)}` instead of the table's insertion order", role="_ids"))
        else:
            v = deref(v)
            ok = isinstance(v, ast.Attribute) and v.attr in ("_id_dict",) and isinstance(v.value, ast.Name) and v.value.id == viewp
            res.inst("V-LIVE", f"from_view:{st.lineno} unrestricted view refers to the ID table", ok)
            if not ok:
                res.add(mk_finding(PROP, "V-LIVE", fv, st, f"from_view (bunch=None) binds _ids to `{unparse(v, 60)}`: a snapshot/unordered copy instead of the live ID table", role="_ids"))


# ------------------------------------------------------------------------------------------ V-REBIND
def check_rebind(repo, res):
    eng = Effects(repo)
    n = 0
    for fn in repo.all_functions():
        ctx_cls = fn.cls.name if fn.cls is not None and fn.cls.name in CORE_CLASSES + ("NodeView", "EdgeView", "DiNodeView", "DiEdgeView") else None
        eng.summarize(fn, ctx_cls, (), ())
        for w in sorted(eng.direct_writes.get(fn.fq, ()), key=lambda w: w.line):
            if w.kind != "rebind" or w.region not in (NODE, EDGE, NATTR, EATTR):
                continue
            n += 1
            allowed = fn.cls is not None and fn.cls.name in CORE_CLASSES and fn.name in ("__init__", "__setstate__")
            res.inst("V-REBIND", f"{fn.fq}:{w.line} `{w.text}`", allowed)
            if not allowed:
                f = mk_finding(PROP, "V-REBIND", fn, fn.node, f"{fn.qualname} rebinds a network table (`{w.text}`); the node/edge views and every held stat keep referring to the old object and go stale", role=w.region)
                f.statement = f"{fn.qualname}: {w.text}"
                f.line = w.line
                res.add(f)
    res.floor("table (re)bindings found", n, 12)
    # after (re)binding the tables, both views are built
    for cname in CORE_CLASSES:
        ci = repo.get_class(cname)
        for mname in ("__init__", "__setstate__"):
            m = repo.find_method(ci, mname)
            if m is None:
                raise AnalysisError(f"{cname}.{mname} not found (anchor vanished)")
            selfn = m.params[0]
            cfg = CFG(m.node)
            binds = [st for st in own_statements(m.node) if isinstance(st, ast.Assign) and any(isinstance(t, ast.Attribute) and t.attr in ("_node", "_edge", "_node_attr", "_edge_attr") and isinstance(t.value, ast.Name) and t.value.id == selfn for t in st.targets)]
            for attr in ("_nodeview", "_edgeview"):
                def builds(nd, attr=attr):
                    return isinstance(nd, ast.Assign) and any(isinstance(t, ast.Attribute) and t.attr == attr for t in nd.targets) and isinstance(nd.value, ast.Call) and nd.value.args and isinstance(nd.value.args[0], ast.Name) and nd.value.args[0].id == selfn
                ok = bool(binds) and all(EXIT not in cfg.reachable(b, avoid=builds) for b in binds)
                res.inst("V-REBIND", f"{m.qualname} (as {cname}): {attr} is built after the tables are bound", ok)
                if not ok:
                    res.add(mk_finding(PROP, "V-REBIND", m, m.node, f"{m.qualname}: after binding the tables a path reaches the exit without building {attr} from the new tables", role=f"{cname}:{attr}"))
        for prop_name, attr in (("nodes", "_nodeview"), ("edges", "_edgeview")):
            p = repo.find_method(ci, prop_name)
            ok = p is not None and any(isinstance(r, ast.Return) and isinstance(r.value, ast.Attribute) and r.value.attr == attr for r in ast.walk(p.node))
            res.inst("V-LIVE", f"{cname}.{prop_name} returns the stored view", ok)
            if not ok:
                res.add(mk_finding(PROP, "V-LIVE", p, p.node if p else ci.node, f"{cname}.{prop_name} does not return the view built over the live tables", role=prop_name))


# ------------------------------------------------------------------------------------------ V-NOCACHE
CACHE_DECOS = ("cache", "lru_cache", "cached_property", "functools.cache", "functools.lru_cache", "functools.cached_property")


def check_nocache(repo, res, idview, stats):
    n = 0
    for cname in ("IDStat", "MultiIDStat"):
        ci = stats.classes[cname]
        for m in ci.methods.values():
            selfn = m.params[0] if m.params else "self"
            for st in own_statements(m.node):
                tg = st.targets if isinstance(st, ast.Assign) else ([st.target] if isinstance(st, (ast.AugAssign, ast.AnnAssign)) else [])
                for t in tg:
                    for sub in ast.walk(t):
                        if isinstance(sub, ast.Attribute) and isinstance(sub.value, ast.Name) and sub.value.id == selfn and isinstance(sub.ctx, ast.Store):
                            ok = m.name == "__init__"
                            n += 1
                            res.inst("V-NOCACHE", f"{m.qualname}:{st.lineno} assigns self.{sub.attr}", ok)
                            if not ok:
                                res.add(mk_finding(PROP, "V-NOCACHE", m, st, f"{m.qualname} stores `self.{sub.attr}` outside __init__: a computed value kept on the stat object goes stale when the network changes", role=sub.attr))
                for c in own_nodes(st):
                    if isinstance(c, ast.Call) and isinstance(c.func, ast.Name) and c.func.id == "setattr" and c.args and isinstance(c.args[0], ast.Name) and c.args[0].id == selfn and m.name != "__init__":
                        res.inst("V-NOCACHE", f"{m.qualname}:{st.lineno} setattr(self, ...)", False)
                        res.add(mk_finding(PROP, "V-NOCACHE", m, st, f"{m.qualname} stores an attribute on the stat object through setattr", role="setattr"))
                    if isinstance(c, ast.Attribute) and c.attr == "__dict__" and isinstance(c.value, ast.Name) and c.value.id == selfn and m.name != "__init__":
                        res.inst("V-NOCACHE", f"{m.qualname}:{st.lineno} touches self.__dict__", False)
                        res.add(mk_finding(PROP, "V-NOCACHE", m, st, f"{m.qualname} writes the stat object's __dict__", role="__dict__"))
    # _val is a property that calls self.func
    ids = stats.classes["IDStat"]
    val = ids.methods.get("_val")
    def calls_func(fn, depth=0):
        """fn evaluates self.func(...), directly or through an uncached private method of the class."""
        for c in ast.walk(fn.node):
            if isinstance(c, ast.Call) and isinstance(c.func, ast.Attribute) and isinstance(c.func.value, ast.Name) and c.func.value.id == fn.params[0]:
                if c.func.attr == "func":
                    return True
                h = ids.methods.get(c.func.attr)
                if h is not None and h is not fn and depth < 2 and not h.is_property() and not [d for d in h.decorators() if d.split("(")[0] in CACHE_DECOS] and calls_func(h, depth + 1):
                    return True
        return False

    ok = val is not None and val.is_property() and calls_func(val)
    res.inst("V-NOCACHE", "IDStat._val is a property evaluating self.func(...) on each access", ok)
    if not ok:
        res.add(mk_finding(PROP, "V-NOCACHE", val, val.node if val else ids.node, "IDStat._val is not a plain property that calls the stat function on each access", role="_val"))
    # IDStat.__init__ keeps net and view by reference
    init = ids.methods["__init__"]
    for attr, pidx in (("net", 1), ("view", 2)):
        pname = init.params[pidx] if len(init.params) > pidx else None
        ok = False
        for st in own_statements(init.node):
            if isinstance(st, ast.Assign) and any(isinstance(t, ast.Attribute) and t.attr == attr for t in st.targets):
                ok = isinstance(st.value, ast.Name) and st.value.id in init.params[1:3]
        res.inst("V-NOCACHE", f"IDStat.__init__ keeps {attr} by reference", ok)
        if not ok:
            res.add(mk_finding(PROP, "V-NOCACHE", init, init.node, f"IDStat.__init__ does not keep `{attr}` by reference (a copy would freeze the statistic at construction time)", role=attr))
    # cache decorators
    scanned = 0
    for mi in repo.modules.values():
        in_stats = mi.name.startswith("xgi.stats")
        fns = list(mi.functions.values()) + [m for c in mi.classes.values() for m in c.methods.values()]
        for fn in fns:
            is_view_method = fn.cls is not None and fn.cls.name in ("IDView", "NodeView", "EdgeView", "DiNodeView", "DiEdgeView", "Hypergraph", "DiHypergraph", "SimplicialComplex")
            if not (in_stats or is_view_method):
                continue
            scanned += 1
            bad = [d for d in fn.decorators() if d.split("(")[0] in CACHE_DECOS]
            if bad:
                res.inst("V-NOCACHE", f"{fn.fq} decorated with {bad[0]}", False)
                res.add(mk_finding(PROP, "V-NOCACHE", fn, fn.node, f"{fn.qualname} is memoised with @{bad[0]}: its result would not follow later changes of the network", role="decorator"))
    res.inst("V-NOCACHE", f"{scanned} stat functions / view and network methods carry no cache decorator", True)
    res.floor("functions scanned for cache decorators", scanned, 100)
    # IDView.__getattr__ stores only the dispatch_stat result
    ga = idview.methods.get("__getattr__")
    if ga is None:
        raise AnalysisError("IDView.__getattr__ not found (anchor vanished)")
    stored_ok = True
    statvar = None
    for st in own_statements(ga.node):
        if isinstance(st, ast.Assign) and isinstance(st.value, ast.Call) and isinstance(st.value.func, ast.Name) and st.value.func.id == "dispatch_stat" and isinstance(st.targets[0], ast.Name):
            statvar = st.targets[0].id
    for st in own_statements(ga.node):
        if isinstance(st, ast.Assign) and any(isinstance(t, ast.Subscript) and isinstance(t.value, ast.Attribute) and t.value.attr == "__dict__" for t in st.targets):
            if not (isinstance(st.value, ast.Name) and st.value.id == statvar):
                stored_ok = False
    res.inst("V-NOCACHE", "IDView.__getattr__ stores only the stat object returned by dispatch_stat", stored_ok and statvar is not None)
    if not (stored_ok and statvar is not None):
        res.add(mk_finding(PROP, "V-NOCACHE", ga, ga.node, "IDView.__getattr__ stores something other than the (lazy) stat object returned by dispatch_stat", role="__getattr__"))


# ------------------------------------------------------------------------------------------ V-ORDER
class OrderTags:
    def __init__(self, repo, stats):
        self.repo = repo
        self.stats = stats
        self.memo = {}

    def method_tag(self, cname, mname):
        key = (cname, mname)
        if key in self.memo:
            return self.memo[key]
        self.memo[key] = "OTHER"
        ci = self.stats.classes[cname]
        m = self.repo.find_method(ci, mname)
        if m is None:
            return "OTHER"
        owner = m.cls.name
        tags = set()
        env = {}
        # containers created empty and filled inside loops take the order of the loop that fills them
        # (`out = {}; for n in self.view: out[n] = val[n]`)
        fills = {}
        for lp in ast.walk(m.node):
            if isinstance(lp, (ast.For, ast.AsyncFor)):
                for sub in ast.walk(lp):
                    nm = None
                    if isinstance(sub, ast.Assign) and len(sub.targets) == 1 and isinstance(sub.targets[0], ast.Subscript) and isinstance(sub.targets[0].value, ast.Name):
                        nm = sub.targets[0].value.id
                    if isinstance(sub, ast.Expr) and isinstance(sub.value, ast.Call) and isinstance(sub.value.func, ast.Attribute) and sub.value.func.attr == "append" and isinstance(sub.value.func.value, ast.Name):
                        nm = sub.value.func.value.id
                    if nm is not None:
                        inner = [l2 for l2 in ast.walk(lp) if isinstance(l2, (ast.For, ast.AsyncFor)) and l2 is not lp and any(x is sub for x in ast.walk(l2))]
                        if not inner:
                            fills.setdefault(nm, []).append(lp)
        for st in own_statements(m.node):
            if isinstance(st, ast.Assign) and len(st.targets) == 1 and isinstance(st.targets[0], ast.Name):
                nm = st.targets[0].id
                v = st.value
                empty = (isinstance(v, (ast.Dict, ast.List)) and not (v.keys if isinstance(v, ast.Dict) else v.elts)) or (isinstance(v, ast.Call) and getattr(v.func, "id", None) in ("dict", "list", "OrderedDict") and not v.args and not v.keywords)
                if empty and nm in fills:
                    ts = {self.tag(lp.iter, m, cname, env) for lp in fills[nm]}
                    env[nm] = ts.pop() if len(ts) == 1 else "OTHER"
                else:
                    env[nm] = self.tag(st.value, m, cname, env)
            if isinstance(st, ast.Return) and st.value is not None:
                tags.add(self.tag(st.value, m, cname, env))
        t = "VIEW" if tags and tags <= {"VIEW", "NESTED:VIEW"} else ("SET" if "SET" in tags else (sorted(tags)[0] if tags else "OTHER"))
        self.memo[key] = t
        return t

    def tag(self, e, m, cname, env):
        selfn = m.params[0]
        if isinstance(e, ast.Name):
            return env.get(e.id, "OTHER")
        if isinstance(e, ast.Attribute) and isinstance(e.value, ast.Name) and e.value.id == selfn:
            if e.attr == "view":
                return "VIEW"
            if e.attr == "_val":
                return self.method_tag(cname, "_val")
            return "OTHER"
        if isinstance(e, ast.Attribute) and e.attr == "ids":
            return "SET"
        if isinstance(e, (ast.ListComp, ast.DictComp, ast.GeneratorExp, ast.SetComp)):
            it = e.generators[0].iter
            ti = self.tag(it, m, cname, env)
            if isinstance(e, ast.SetComp):
                return "SET"
            if ti == "VIEW":
                return "VIEW"
            if isinstance(it, ast.Attribute) and it.attr == "stats":
                inner = e.value if isinstance(e, ast.DictComp) else e.elt
                env2 = dict(env)
                tv = self.tag(inner, m, cname, env2, ) if not (isinstance(inner, ast.Call) and isinstance(inner.func, ast.Attribute) and isinstance(inner.func.value, ast.Name) and inner.func.value.id == e.generators[0].target.id if isinstance(e.generators[0].target, ast.Name) else False) else self.method_tag("IDStat", inner.func.attr)
                return "NESTED:" + ("VIEW" if tv in ("VIEW", "NESTED:VIEW") else tv)
            if ti.startswith("NESTED:"):
                return ti
            return ti if ti in ("SET",) else ("SORTED" if isinstance(it, ast.Call) and getattr(it.func, "id", "") == "sorted" else "OTHER")
        if isinstance(e, ast.Call):
            f = e.func
            if isinstance(f, ast.Attribute) and isinstance(f.value, ast.Name) and f.value.id == selfn and f.attr == "func":
                ts = {self.tag(a, m, cname, env) for a in e.args}
                return "SET" if "SET" in ts else "OTHER"
            if isinstance(f, ast.Attribute) and isinstance(f.value, ast.Name) and f.value.id == selfn:
                return self.method_tag(cname, f.attr)
            if isinstance(f, ast.Attribute) and f.attr in ("items", "values", "keys", "T", "copy"):
                return self.tag(f.value, m, cname, env)
            name = f.attr if isinstance(f, ast.Attribute) else getattr(f, "id", None)
            if name in ("array", "asarray", "list", "tuple", "dict", "Series", "DataFrame", "concat", "iter", "OrderedDict") and e.args:
                t = self.tag(e.args[0], m, cname, env)
                return "VIEW" if t == "NESTED:VIEW" and name in ("concat", "DataFrame", "array") else t
            if name in ("map", "zip") and len(e.args) >= 2:
                ts = {self.tag(a, m, cname, env) for a in e.args[1:]}
                return "VIEW" if ts == {"VIEW"} else "OTHER"
            if name in ("set", "frozenset"):
                return "SET"
            if name == "sorted":
                return "SORTED"
            if name == "func":
                # self.func(self.net, self.view.ids, ...) -> keyed in the order of its bunch argument
                ts = {self.tag(a, m, cname, env) for a in e.args}
                return "SET" if "SET" in ts else "OTHER"
            return "OTHER"
        if isinstance(e, ast.IfExp):
            a, b = self.tag(e.body, m, cname, env), self.tag(e.orelse, m, cname, env)
            return a if a == b else ("SET" if "SET" in (a, b) else "OTHER")
        if isinstance(e, ast.Attribute) and e.attr == "T":
            return self.tag(e.value, m, cname, env)
        return "OTHER"


def check_order(repo, res, idview, stats):
    ot = OrderTags(repo, stats)
    n = 0
    for cname in ("IDStat", "MultiIDStat"):
        for mname in ("asdict", "aslist", "asnumpy", "aspandas"):
            ci = stats.classes[cname]
            m = repo.find_method(ci, mname)
            if m is None:
                raise AnalysisError(f"{cname}.{mname} not found (anchor vanished)")
            t = ot.method_tag(cname, mname)
            n += 1
            ok = t == "VIEW"
            res.inst("V-ORDER", f"{cname}.{mname}: order provenance = {t}", ok, sample={"rule": "V-ORDER", "method": f"{cname}.{mname}", "defined_in": m.qualname, "order_provenance": t})
            if not ok:
                rets = [r for r in ast.walk(m.node) if isinstance(r, ast.Return)]
                res.add(mk_finding(PROP, "V-ORDER", m, rets[0] if rets else m.node, f"{cname}.{mname} does not take its order from iteration over the view (order provenance: {t}); it can disagree with the other output formats and with view order", role=f"{cname}.{mname}"))
    for mname in ("argsort", "argmax", "argmin"):
        m = stats.classes["IDStat"].methods.get(mname)
        if m is None:
            continue
        uses = any(isinstance(c, ast.Call) and isinstance(c.func, ast.Attribute) and isinstance(c.func.value, ast.Name) and c.func.value.id == m.params[0] and c.func.attr in ("asdict", "aslist", "asnumpy") for c in ast.walk(m.node))
        raw = any(isinstance(a, ast.Attribute) and a.attr == "_val" for a in ast.walk(m.node))
        ok = uses and not raw
        n += 1
        res.inst("V-ORDER", f"IDStat.{mname} ranks the view-ordered output", ok)
        if not ok:
            res.add(mk_finding(PROP, "V-ORDER", m, m.node, f"IDStat.{mname} ranks the raw stat dict instead of a view-ordered output; ties would be broken in set order", role=mname))
    res.floor("ordered stat outputs checked", n, 10)
    # the view iterates its _ids
    it = idview.methods.get("__iter__")
    ok = it is not None and any(isinstance(r, ast.Return) and isinstance(r.value, ast.Call) and getattr(r.value.func, "id", "") == "iter" and r.value.args and isinstance(r.value.args[0], ast.Attribute) and r.value.args[0].attr == "_ids" for r in ast.walk(it.node))
    res.inst("V-ORDER", "IDView.__iter__ iterates _ids", ok)
    if not ok:
        res.add(mk_finding(PROP, "V-ORDER", it, it.node if it else idview.node, "IDView.__iter__ does not iterate the stored ID order (_ids)", role="__iter__"))


# ------------------------------------------------------------------------------------------ V-FILTER
def check_filter(repo, res, idview):
    total = 0
    for mname in ("filterby", "filterby_attr"):
        m = idview.methods.get(mname)
        if m is None:
            raise AnalysisError(f"IDView.{mname} not found (anchor vanished)")
        selfn = m.params[0]
        valp = m.params[2]
        branches = {}

        def collect(stmts):
            for st in stmts:
                if isinstance(st, ast.If):
                    t = st.test
                    if isinstance(t, ast.Compare) and isinstance(t.left, ast.Name) and t.left.id == "mode" and isinstance(t.ops[0], ast.Eq) and isinstance(t.comparators[0], ast.Constant):
                        branches[t.comparators[0].value] = st.body
                    elif isinstance(t, ast.Call) and getattr(t.func, "id", "") == "callable":
                        branches["<callable>"] = st.body
                    collect(st.orelse)

        collect(m.node.body)
        table = operator_table(m) or module_operator_table(repo, m) or selector_function_table(repo, m)
        if table is not None and not branches:
            ok_call = table_call_ok(m, selfn, valp)
            res.inst("V-FILTER", f"IDView.{mname}: the selected predicate is applied as predicate(values[idx], {valp}) over the view", ok_call)
            if not ok_call:
                res.add(mk_finding(PROP, "V-FILTER", m, m.node, f"IDView.{mname}: the comparison selected by `mode` is not applied as predicate(values[idx], {valp}) while iterating the view itself", role=f"{mname}:apply"))
        if table is None and not branches:
            raise AnalysisError(f"IDView.{mname}: neither an if-chain over `mode` nor an operator table was found (extractor does not recognise the code)")
        for mode, opcls in list(MODE_OPS.items()) + [("between", None), ("<callable>", None)]:
            total += 1
            if mode in branches:
                comp = find_bunch_comp(branches[mode])
                if comp is None:
                    raise AnalysisError(f"IDView.{mname}: mode {mode!r} does not assign a comprehension to the bunch (extractor does not recognise the code)")
                ok, why = comp_matches(comp, mode, opcls, selfn, valp, view_prefilters(m, selfn))
            elif table is not None and mode in table and mode != "between":
                ok = table[mode] == OPERATOR_NAMES.get(mode)
                why = f"operator table maps {mode!r} to operator.{table[mode]}"
                comp = None
            elif table is not None and mode == "between" and "between" in table:
                ok = table["between"] == "between-lambda"
                why = "the 'between' entry of the operator table is not `lo <= value <= hi`"
                comp = None
            elif table is not None and mode in ("between", "<callable>"):
                continue
            else:
                ok, why, comp = False, f"mode {mode!r} is not handled", None
            res.inst("V-FILTER", f"IDView.{mname} mode {mode!r}", ok)
            if not ok:
                node = comp if comp is not None else m.node
                res.add(mk_finding(PROP, "V-FILTER", m, node, f"IDView.{mname}: mode {mode!r} {why}", role=f"{mname}:{mode}"))
        # result restricted through from_view(self, bunch)
        rets = [r for r in ast.walk(m.node) if isinstance(r, ast.Return) and r.value is not None]
        ok = bool(rets) and all(isinstance(r.value, ast.Call) and isinstance(r.value.func, ast.Attribute) and r.value.func.attr == "from_view" and r.value.args and isinstance(r.value.args[0], ast.Name) and r.value.args[0].id == selfn for r in rets)
        res.inst("V-FILTER", f"IDView.{mname} returns from_view(self, bunch)", ok)
        if not ok:
            res.add(mk_finding(PROP, "V-FILTER", m, rets[0] if rets else m.node, f"IDView.{mname} does not restrict its result through from_view(self, ...)", role=f"{mname}:return"))
    res.floor("filter mode branches", total, 16)


def operator_table(m):
    for st in own_statements(m.node):
        if isinstance(st, ast.Assign) and isinstance(st.value, ast.Dict):
            out = {}
            for k, v in zip(st.value.keys, st.value.values):
                if isinstance(k, ast.Constant) and isinstance(v, ast.Attribute) and isinstance(v.value, ast.Name) and v.value.id == "operator":
                    out[k.value] = v.attr
            if out:
                return out
    return None


def selector_function_table(repo, m):
    """`compare = helper(mode)` where the module-level helper is an if-chain `if mode == "eq": return operator.eq ...`."""
    mi = m.module
    for st in own_statements(m.node):
        if not (isinstance(st, ast.Assign) and isinstance(st.value, ast.Call) and isinstance(st.value.func, ast.Name) and st.value.args and isinstance(st.value.args[0], ast.Name) and st.value.args[0].id == "mode"):
            continue
        h = mi.functions.get(st.value.func.id)
        if h is None or not h.params:
            continue
        p0 = h.params[0]
        out = {}
        for s2 in ast.walk(h.node):
            if isinstance(s2, ast.If) and isinstance(s2.test, ast.Compare) and isinstance(s2.test.left, ast.Name) and s2.test.left.id == p0 and isinstance(s2.test.ops[0], ast.Eq) and isinstance(s2.test.comparators[0], ast.Constant):
                key = s2.test.comparators[0].value
                rets = [r for r in s2.body if isinstance(r, ast.Return) and r.value is not None]
                if not rets:
                    continue
                v = rets[0].value
                if isinstance(v, ast.Attribute) and isinstance(v.value, ast.Name) and v.value.id == "operator":
                    out[key] = v.attr
                elif isinstance(v, ast.Name):
                    tgt = repo.resolve_in_module(mi, v.id)
                    path = getattr(tgt, "path", "")
                    out[key] = path.split(".")[-1] if path.startswith(("operator.", "_operator.")) else v.id
                    if key == "between" and hasattr(tgt, "node"):
                        body = [b for b in tgt.node.body if not (isinstance(b, ast.Expr) and isinstance(b.value, ast.Constant))]
                        if len(body) == 1 and isinstance(body[0], ast.Return) and body[0].value is not None:
                            out[key] = "between-lambda" if _between_shape([x.arg for x in tgt.node.args.args], body[0].value) else "other-lambda"
                elif isinstance(v, ast.Lambda) and key == "between":
                    out[key] = "between-lambda" if _between_shape([x.arg for x in v.args.args], v.body) else "other-lambda"
                else:
                    out[key] = "?"
        if {"eq", "neq", "lt", "gt", "leq", "geq"} <= set(out):
            return out
    return None


def module_operator_table(repo, m):
    """A module-level dict {"eq": eq, "neq": ne, ...} (values: functions of the operator module or lambdas)."""
    mi = m.module
    for name, val in mi.assigns.items():
        if not isinstance(val, ast.Dict):
            continue
        keys = [k.value for k in val.keys if isinstance(k, ast.Constant)]
        if not {"eq", "neq", "lt", "gt", "leq", "geq"} <= set(keys):
            continue
        out = {}
        for k, v in zip(val.keys, val.values):
            if not isinstance(k, ast.Constant):
                continue
            if isinstance(v, ast.Name):
                tgt = repo.resolve_in_module(mi, v.id)
                path = getattr(tgt, "path", "")
                out[k.value] = path.split(".")[-1] if path.startswith("operator.") or path.startswith("_operator.") else v.id
                if k.value == "between" and hasattr(tgt, "node"):
                    # a module-level helper `def _between(value, bounds): return bounds[0] <= value <= bounds[1]`
                    body = [b for b in tgt.node.body if not (isinstance(b, ast.Expr) and isinstance(b.value, ast.Constant))]
                    if len(body) == 1 and isinstance(body[0], ast.Return) and body[0].value is not None:
                        out[k.value] = "between-lambda" if _between_shape([x.arg for x in tgt.node.args.args], body[0].value) else "other-lambda"
            elif isinstance(v, ast.Attribute) and isinstance(v.value, ast.Name) and v.value.id == "operator":
                out[k.value] = v.attr
            elif isinstance(v, ast.Lambda) and k.value == "between":
                out[k.value] = "between-lambda" if _between_shape([x.arg for x in v.args.args], v.body) else "other-lambda"
            else:
                out[k.value] = "?"
        return out
    return None


def _between_shape(a, b):
    """b is `bounds[0] <= value <= bounds[1]` for the parameter list a = [value, bounds]."""
    if len(a) == 2 and isinstance(b, ast.Compare) and len(b.ops) == 2 and all(isinstance(o, ast.LtE) for o in b.ops):
        lo, mid, hi = b.left, b.comparators[0], b.comparators[1]

        def idx(e, kk):
            return isinstance(e, ast.Subscript) and isinstance(e.value, ast.Name) and e.value.id == a[1] and isinstance(e.slice, ast.Constant) and e.slice.value == kk

        return idx(lo, 0) and isinstance(mid, ast.Name) and mid.id == a[0] and idx(hi, 1)
    return False


def _pred_from_mode(m, pred):
    defs = [s for s in own_statements(m.node) if isinstance(s, ast.Assign) and any(isinstance(t, ast.Name) and t.id == pred for t in s.targets)]
    return bool(defs) and all(any(isinstance(x, ast.Name) and x.id == "mode" for x in ast.walk(d.value)) for d in defs)


def loop_call_ok(m, selfn, valp):
    """for idx in self: value = values[idx]; ...; if <pred>(value, val): bunch.append(idx)"""
    for st in own_statements(m.node):
        if not (isinstance(st, ast.For) and isinstance(st.iter, ast.Name) and st.iter.id == selfn and isinstance(st.target, ast.Name)):
            continue
        var = st.target.id
        aliases = set()
        for s2 in own_statements(st):
            if isinstance(s2, ast.Assign) and isinstance(s2.value, ast.Subscript) and isinstance(s2.value.slice, ast.Name) and s2.value.slice.id == var:
                aliases |= {t.id for t in s2.targets if isinstance(t, ast.Name)}
        for s2 in own_statements(st):
            if not isinstance(s2, ast.If):
                continue
            tests = s2.test.values if isinstance(s2.test, ast.BoolOp) and isinstance(s2.test.op, ast.And) else [s2.test]
            for c in tests:
                if isinstance(c, ast.Call) and isinstance(c.func, ast.Name) and len(c.args) == 2:
                    a0, a1 = c.args
                    is_value = (isinstance(a0, ast.Subscript) and isinstance(a0.slice, ast.Name) and a0.slice.id == var) or (isinstance(a0, ast.Name) and a0.id in aliases)
                    if is_value and isinstance(a1, ast.Name) and a1.id == valp and _pred_from_mode(m, c.func.id):
                        appends = [x for b in s2.body for x in ast.walk(b) if isinstance(x, ast.Call) and isinstance(x.func, ast.Attribute) and x.func.attr == "append" and x.args and isinstance(x.args[0], ast.Name) and x.args[0].id == var]
                        if appends:
                            return True
    return False


def table_call_ok(m, selfn, valp):
    """bunch = [idx for idx in self if <pred>(values[idx], val)] with <pred> a local selected through `mode`."""
    for st in own_statements(m.node):
        if isinstance(st, ast.Assign) and isinstance(st.value, ast.ListComp):
            comp = st.value
            g = comp.generators[0]
            if not (isinstance(g.iter, ast.Name) and g.iter.id == selfn and isinstance(g.target, ast.Name)):
                return False
            var = g.target.id
            conds = []
            for c in g.ifs:
                conds.extend(c.values if isinstance(c, ast.BoolOp) and isinstance(c.op, ast.And) else [c])
            for c in conds:
                if isinstance(c, ast.Call) and isinstance(c.func, ast.Name) and len(c.args) == 2:
                    a0, a1 = c.args
                    if isinstance(a0, ast.Subscript) and isinstance(a0.slice, ast.Name) and a0.slice.id == var and isinstance(a1, ast.Name) and a1.id == valp:
                        if _pred_from_mode(m, c.func.id):
                            return True
    return loop_call_ok(m, selfn, valp)


def find_bunch_comp(stmts):
    for st in stmts:
        if isinstance(st, ast.Assign) and isinstance(st.value, ast.ListComp):
            return st.value
    return None


def view_prefilters(m, selfn):
    """Local names bound once to an order-preserving selection of the view: `present = [i for i in self if <test>]`."""
    defs = {}
    for st in own_statements(m.node):
        if isinstance(st, ast.Assign) and len(st.targets) == 1 and isinstance(st.targets[0], ast.Name):
            defs.setdefault(st.targets[0].id, []).append(st.value)
    out = {selfn}
    changed = True
    while changed:
        changed = False
        for nm, vs in defs.items():
            if nm in out or len(vs) != 1:
                continue
            v = vs[0]
            if isinstance(v, ast.ListComp) and len(v.generators) == 1 and isinstance(v.generators[0].target, ast.Name) and isinstance(v.elt, ast.Name) and v.elt.id == v.generators[0].target.id and isinstance(v.generators[0].iter, ast.Name) and v.generators[0].iter.id in out:
                out.add(nm)
                changed = True
    return out


def comp_matches(comp, mode, opcls, selfn, valp, sources=None):
    gen = comp.generators[0]
    if not (isinstance(gen.iter, ast.Name) and gen.iter.id in (sources or {selfn})):
        return False, f"iterates `{unparse(gen.iter, 40)}` instead of the view itself (result order would not be view order)"
    var = gen.target.id if isinstance(gen.target, ast.Name) else None
    if not (isinstance(comp.elt, ast.Name) and comp.elt.id == var):
        return False, "does not collect the iterated IDs"
    conds = []
    for c in gen.ifs:
        conds.extend(c.values if isinstance(c, ast.BoolOp) and isinstance(c.op, ast.And) else [c])

    def is_value(e):
        return isinstance(e, ast.Subscript) and isinstance(e.value, ast.Name) and isinstance(e.slice, ast.Name) and e.slice.id == var

    def is_val(e):
        return isinstance(e, ast.Name) and e.id == valp

    for c in conds:
        if mode == "<callable>":
            if isinstance(c, ast.Call) and isinstance(c.func, ast.Name) and c.func.id == "mode" and len(c.args) == 2 and is_value(c.args[0]) and is_val(c.args[1]):
                return True, ""
            continue
        if not isinstance(c, ast.Compare):
            continue
        if mode == "between":
            if len(c.ops) == 2 and all(isinstance(o, ast.LtE) for o in c.ops):
                lo, mid, hi = c.left, c.comparators[0], c.comparators[1]
                def idx(e, k):
                    return isinstance(e, ast.Subscript) and is_val(e.value) and isinstance(e.slice, ast.Constant) and e.slice.value == k
                if idx(lo, 0) and is_value(mid) and idx(hi, 1):
                    return True, ""
            continue
        if len(c.ops) != 1 or isinstance(c.ops[0], (ast.Is, ast.IsNot)):
            continue
        l, r, o = c.left, c.comparators[0], type(c.ops[0])
        if is_value(l) and is_val(r):
            return (o is opcls), f"compares with `{unparse(c, 50)}` instead of the {mode!r} operator"
        if is_val(l) and is_value(r):
            return (FLIP.get(o) is opcls), f"compares with `{unparse(c, 50)}` instead of the {mode!r} operator"
    return False, "has no comparison between the stat value of the ID and the argument"


SIDE_OF_NAME = (("in_degree", "in"), ("out_degree", "out"), ("tail", "in"), ("head", "out"))
_ENTRY_ATTRS = ("_node", "_edge", "_id_dict", "_bi_id_dict")
_UNKNOWN = object()


def _const_of(e, env):
    """Value of an expression if it is a literal or a parameter bound to a literal in env, else _UNKNOWN."""
    if isinstance(e, ast.Constant):
        return e.value
    if isinstance(e, ast.Name) and e.id in env:
        return env[e.id]
    return _UNKNOWN


def _test_value(t, env):
    """True / False when the branch condition is decided by the constants bound in env, else None."""
    if isinstance(t, ast.UnaryOp) and isinstance(t.op, ast.Not):
        v = _test_value(t.operand, env)
        return None if v is None else (not v)
    if isinstance(t, ast.BoolOp):
        vs = [_test_value(v, env) for v in t.values]
        if isinstance(t.op, ast.And):
            if any(v is False for v in vs):
                return False
            return True if all(v is True for v in vs) else None
        if any(v is True for v in vs):
            return True
        return False if all(v is False for v in vs) else None
    if isinstance(t, ast.Compare) and len(t.ops) == 1:
        l, r = _const_of(t.left, env), t.comparators[0]
        op = t.ops[0]
        if isinstance(op, (ast.In, ast.NotIn)) and isinstance(r, (ast.Tuple, ast.List, ast.Set)) and l is not _UNKNOWN:
            vals = [_const_of(x, env) for x in r.elts]
            if any(v is _UNKNOWN for v in vals):
                return None
            return (l in vals) if isinstance(op, ast.In) else (l not in vals)
        rv = _const_of(r, env)
        if l is _UNKNOWN or rv is _UNKNOWN:
            return None
        if isinstance(op, (ast.Eq, ast.Is)):
            return l == rv if isinstance(op, ast.Eq) else ((l is rv) or (l == rv and type(l) is type(rv)))
        if isinstance(op, (ast.NotEq, ast.IsNot)):
            return l != rv if isinstance(op, ast.NotEq) else not ((l is rv) or (l == rv and type(l) is type(rv)))
        return None
    if isinstance(t, ast.Name) and t.id in env:
        return bool(env[t.id])
    return None


def _terminates(body):
    return bool(body) and isinstance(body[-1], (ast.Return, ast.Raise, ast.Continue, ast.Break))


class _SideReads:
    """Side accesses (`X["in"]`, `X["out"]`, `X[side]` with side a parameter bound to a literal by the caller) of a
    function and of the helpers it hands a side literal (or that are private), with branches decided by the bound
    literals pruned.  Each read is (side value | _UNKNOWN, subscript node, neutral)."""

    def __init__(self, repo):
        self.repo = repo
        self.reads = []
        self.unresolved = []
        self.analysed = []

    def run(self, fn, env, depth=0, stack=()):
        self.analysed.append(fn.fq)
        par = {}
        for p in ast.walk(fn.node):
            for ch in ast.iter_child_nodes(p):
                par[ch] = p
        # local names bound once to an entry of the incidence tables (members = net._edge[e])
        entry_alias = {}
        counts = {}
        for st in own_statements(fn.node):
            for t in (st.targets if isinstance(st, ast.Assign) else []):
                for nm in ast.walk(t):
                    if isinstance(nm, ast.Name):
                        counts[nm.id] = counts.get(nm.id, 0) + 1
            if isinstance(st, ast.Assign) and len(st.targets) == 1 and isinstance(st.targets[0], ast.Name):
                v = st.value
                if isinstance(v, ast.Subscript) and any(isinstance(y, ast.Attribute) and y.attr in _ENTRY_ATTRS for y in ast.walk(v.value)):
                    entry_alias[st.targets[0].id] = v
        entry_alias = {k: v for k, v in entry_alias.items() if counts.get(k) == 1}
        self._block(fn, fn.node.body, dict(env), par, entry_alias, depth, stack + (fn.fq,))

    def _block(self, fn, body, env, par, alias, depth, stack):
        for st in body:
            if isinstance(st, (ast.FunctionDef, ast.AsyncFunctionDef, ast.ClassDef)):
                continue
            if isinstance(st, ast.If):
                tv = _test_value(st.test, env)
                if tv is None:
                    self._expr(fn, st.test, env, par, alias, depth, stack)
                    self._block(fn, st.body, env, par, alias, depth, stack)
                    self._block(fn, st.orelse, env, par, alias, depth, stack)
                    continue
                live = st.body if tv else st.orelse
                self._block(fn, live, env, par, alias, depth, stack)
                if _terminates(live):
                    return
                continue
            if isinstance(st, (ast.For, ast.While, ast.With, ast.Try)):
                for f in ("iter", "test"):
                    if hasattr(st, f):
                        self._expr(fn, getattr(st, f), env, par, alias, depth, stack)
                if isinstance(st, ast.With):
                    for it in st.items:
                        self._expr(fn, it.context_expr, env, par, alias, depth, stack)
                for f in ("body", "orelse", "finalbody"):
                    self._block(fn, getattr(st, f, []) or [], env, par, alias, depth, stack)
                for h in getattr(st, "handlers", []):
                    self._block(fn, h.body, env, par, alias, depth, stack)
                continue
            # a parameter rebound in the body is no longer the caller's literal
            if isinstance(st, (ast.Assign, ast.AugAssign, ast.AnnAssign)):
                tg = st.targets if isinstance(st, ast.Assign) else [st.target]
                self._expr(fn, st, env, par, alias, depth, stack)
                for t in tg:
                    for nm in ast.walk(t):
                        if isinstance(nm, ast.Name) and nm.id in env:
                            v = _const_of(st.value, env) if isinstance(st, ast.Assign) and st.value is not None else _UNKNOWN
                            if v is _UNKNOWN:
                                env.pop(nm.id)
                            else:
                                env[nm.id] = v
                continue
            self._expr(fn, st, env, par, alias, depth, stack)
            if isinstance(st, (ast.Return, ast.Raise)):
                return

    def _is_entry(self, e, alias):
        if any(isinstance(y, ast.Attribute) and y.attr in _ENTRY_ATTRS for y in ast.walk(e)):
            return True
        return isinstance(e, ast.Name) and e.id in alias

    def _entry_key(self, e, alias):
        if isinstance(e, ast.Name) and e.id in alias:
            return ast.dump(alias[e.id])
        return ast.dump(e)

    def _expr(self, fn, root, env, par, alias, depth, stack):
        skip = set()
        for x in ast.walk(root):
            if x in skip:
                continue
            if isinstance(x, ast.IfExp):
                tv = _test_value(x.test, env)
                if tv is not None:
                    dead = x.orelse if tv else x.body
                    skip.update(ast.walk(dead))
                continue
            if isinstance(x, ast.Subscript) and self._is_entry(x.value, alias):
                sv = _const_of(x.slice, env)
                if sv in ("in", "out"):
                    self.reads.append((sv, x, fn, self._neutral(x, sv, env, par, alias)))
                elif sv is _UNKNOWN and isinstance(x.slice, ast.Name) and x.slice.id in fn.all_params:
                    self.unresolved.append((x, fn))
                continue
            if isinstance(x, ast.Call):
                self._call(fn, x, env, depth, stack)

    def _neutral(self, x, sv, env, par, alias):
        """both sides of the same entry combined in one call (X["in"].union(X["out"]))"""
        p = x
        for _ in range(4):
            p = par.get(p)
            if p is None:
                return False
            if not isinstance(p, ast.Call):
                continue
            for y in ast.walk(p):
                if y is x or not isinstance(y, ast.Subscript) or not self._is_entry(y.value, alias):
                    continue
                ov = _const_of(y.slice, env)
                if ov in ("in", "out") and ov != sv and self._entry_key(y.value, alias) == self._entry_key(x.value, alias):
                    return True
        return False

    def _call(self, fn, call, env, depth, stack):
        if depth >= 4:
            return
        f = call.func
        tgt = None
        skip_self = 0
        if isinstance(f, ast.Name):
            r = self.repo.resolve_name(fn, fn.module, f.id)
            if r.__class__.__name__ == "FunctionInfo":
                tgt = r
                skip_self = 1 if (r.cls is not None and r.params[:1] == ["self"]) else 0
        elif isinstance(f, ast.Attribute) and isinstance(f.value, ast.Name) and f.value.id in ("self", "cls") and fn.cls is not None:
            tgt = self.repo.find_method(fn.cls, f.attr)
            skip_self = 1
            if tgt is not None and any(isinstance(d, ast.Name) and d.id == "staticmethod" for d in tgt.node.decorator_list):
                skip_self = 0
        if tgt is None or tgt.fq in stack:
            return
        params = tgt.params[skip_self:]
        new = {}
        for i, a in enumerate(call.args):
            if isinstance(a, ast.Starred) or i >= len(params):
                break
            v = _const_of(a, env)
            if v is not _UNKNOWN:
                new[params[i]] = v
        for kw in call.keywords:
            if kw.arg is not None:
                v = _const_of(kw.value, env)
                if v is not _UNKNOWN:
                    new[kw.arg] = v
        # defaults of parameters not passed
        a = tgt.node.args
        pos = a.posonlyargs + a.args
        for p_, d in list(zip(pos[len(pos) - len(a.defaults):], a.defaults)) + [(p_, d) for p_, d in zip(a.kwonlyargs, a.kw_defaults) if d is not None]:
            passed = p_.arg in new or any(kw.arg == p_.arg for kw in call.keywords) or (p_ in pos and pos.index(p_) - skip_self < len(call.args))
            if not passed and isinstance(d, ast.Constant):
                new[p_.arg] = d.value
        hands_side = any(v in ("in", "out") for v in new.values())
        if not (hands_side or tgt.name.startswith("_")):
            return
        self.run(tgt, new, depth + 1, stack)


def check_sides(repo, res):
    n = 0
    fns = []
    for mn in ("xgi.stats.dinodestats", "xgi.stats.diedgestats"):
        mi = repo.modules.get(mn)
        if mi is None:
            raise AnalysisError(f"{mn} not found (anchor vanished)")
        fns += list(mi.functions.values())
    dv = repo.modules["xgi.core.views"].classes.get("DiEdgeView")
    if dv is None:
        raise AnalysisError("xgi.core.views.DiEdgeView not found (anchor vanished)")
    fns += [m for m in dv.methods.values()]
    for fn in fns:
        want = next((side for word, side in SIDE_OF_NAME if fn.name == word or fn.name.startswith(word + "_") or fn.name == word + "s"), None)
        if want is None:
            continue
        sr = _SideReads(repo)
        sr.run(fn, {})
        if not sr.reads:
            if sr.unresolved:
                x, g = sr.unresolved[0]
                raise AnalysisError(f"{fn.fq}: the side read `{unparse(x, 50)}` in {g.qualname} is selected by a value that is not a literal at the call (extractor does not recognise the code)")
            # a thin alias (sources -> tail): nothing to read here
            continue
        n += 1
        bad = [(x, g) for sv, x, g, neutral in sr.reads if not neutral and sv != want]
        via = sorted(set(sr.analysed) - {fn.fq})
        res.inst("V-SIDE", f"{fn.fq}: reads the {want!r} side ({len(sr.reads)} side accesses" + (f", through {', '.join(v.split('.')[-1] for v in via)}" if via else "") + ")", not bad)
        for x, g in bad[:1]:
            where = "" if g is fn else f" (in {g.qualname}, with the side literal {fn.qualname} passes)"
            res.add(mk_finding(PROP, "V-SIDE", fn, x if g is fn else fn.node, f"{fn.qualname} is the {'in' if want == 'in' and 'degree' in fn.name else want}-side statistic but reads `{unparse(x, 50)}`{where}; it reports the other side of the directed incidence (in/out degree, tail/head)", role=fn.name))
    res.floor("one-sided directed statistics / accessors", n, 3)
