"""C16 - Generators deliver the structure their parameters promise (NARROW: four structural clauses).

G-MEMBER  at every add_edge / add_edges_from / add_simplex / add_simplices_from call in xgi/generators the members argument
          is an iterable of node labels (or a collection of such), never an iterable whose elements are themselves
          containers of containers (itertools.product of one generator yields 1-tuples of lists).
G-NODES   every public generator with a node-count / node-collection parameter calls add_nodes_from on the network it
          returns on every path to the return (or returns another generator's result).
G-SKIP    the skip-sampling loops agree with their bound: `index <= B` with B = count - 1, or `index < B` with B = count;
          the first index is geometric(p) - 1 and the step is geometric(p).
G-P01     geometric(p) returns 1 for p = 1 and infinity for p = 0 (its two handlers), so the loops handle both extremes.
G-ALIGN   two sequences that are consumed pairwise (zip(order, ps)) are never reordered or de-duplicated one without the
          other (np.unique / sorted / set on `order` alone hands every probability to another order).
G-RADIX   the mixed-radix index decoders take, for position r, the place value prod(sizes after r) (or n**r) and the digit
          modulo the size of position r - extracted as expressions over the comprehension index.
Edge counts, distributions and bijectivity on concrete inputs are NOT decided.
"""
from __future__ import annotations

import ast

from ..cfg import CFG, own_nodes, own_statements
from ..kinds import KindEngine, elem_of
from ..model import AnalysisError
from ..report import Result, mk_finding
from .common import unparse
from .kind_rules import fmt, functions_of

PROP = "C16"
ADDERS = {"add_edge": 1, "add_simplex": 1, "add_edges_from": 2, "add_simplices_from": 2}
NO_NODE_PARAM = {"empty_hypergraph", "empty_dihypergraph", "empty_simplicial_complex", "shuffle_hyperedges", "node_swap"}
NODES_EXCEPTIONS = {"sunflower": "every node occurs in an edge by construction (petals and core)"}
CONTAINER = ("seq", "set", "map", "tup")


def depth(k):
    """Definite container nesting depth of kind k (0 for scalars / unknown)."""
    if k is None or k[0] not in CONTAINER:
        return 0
    if k[0] == "tup":
        ds = [depth(x) for x in k[1]]
        return 1 + (min(ds) if ds else 0)
    if k[0] == "map":
        return 1
    return 1 + depth(k[1])


def run(ctx):
    repo = ctx.repo
    res = Result(PROP)
    res.rules = ["G-MEMBER", "G-NODES", "G-SKIP", "G-P01", "G-RADIX", "G-ALIGN", "G-FLOW", "G-DISTINCT"]
    res.explanation = (
        "Narrow claim: shape (nesting) of the members handed to the edge-adding methods from kind inference, must-reach of "
        "add_nodes_from on the returned network, agreement of skip-sampling loop conditions with their bounds, the two "
        "extreme cases of geometric(), and the place-value structure of the index decoders. Counts and distributions of "
        "the generated edges are not decided."
    )
    fns = functions_of(repo, ["xgi.generators"])
    eng = KindEngine(repo)
    n_calls = 0
    for fn in fns:
        if ctx.only and ctx.only != fn.qualname:
            continue
        r = eng.analyze(fn)
        for call, name, args, kws in r.calls:
            if name in ADDERS and isinstance(call.func, ast.Attribute) and args:
                n_calls += 1
                k = args[0]
                d = depth(k)
                limit = ADDERS[name]
                # add_edges_from also accepts (members, id[, attrs]) tuples: one more level only if the element is a tuple
                ok = d <= limit or (limit == 2 and d == 3 and k is not None and elem_of(k) is not None and elem_of(k)[0] == "tup")
                key = f"{fn.fq}:{call.lineno}"
                res.inst("G-MEMBER", f"{key} {name}({unparse(call.args[0], 30)}) : {fmt(k)}", ok)
                if not ok:
                    res.add(mk_finding(PROP, "G-MEMBER", fn, call, f"{fn.qualname}: `{unparse(call, 60)}` passes {fmt(k)} as members: the elements are containers, not node labels (TypeError: unhashable, or edges of the wrong size)", role=name))
    if not ctx.only:
        res.floor("edge-adding calls in generators", n_calls, 22)
        check_nodes(repo, res, fns)
        check_skip(repo, res, fns)
        check_geometric(repo, res)
        check_radix(repo, res)
        check_align(repo, res, fns)
        check_distinct(repo, res, fns)
        from .common import check_dead_params

        nd = check_dead_params(res, PROP, "G-FLOW", fns, "the generated network")
        res.floor("generators checked for dead parameters", nd, 25)
    return res


WITH_REPETITION = {"product", "_index_to_edge_prod", "_index_to_edge_partition", "combinations_with_replacement", "choices"}


def check_distinct(repo, res, fns):
    """G-DISTINCT: candidates enumerated WITH repetition (Cartesian products of node groups - the same group can occur
    twice in a block -, the product / partition index decoders) can name one node several times; stored as a set such a
    candidate is a smaller edge.  They reach an edge-adding call only under a test on their number of distinct nodes
    (`len(set(e)) == m`, `len(e) == m` on the set), or through a comprehension filtered that way."""
    n = 0
    for fn in fns:
        sources = set(WITH_REPETITION)
        tainted = set()
        stmts = [x for x in ast.walk(fn.node) if isinstance(x, (ast.Assign, ast.For, ast.AugAssign))]

        def expr_tainted(e):
            for x in ast.walk(e):
                if isinstance(x, ast.Call) and getattr(x.func, "attr", getattr(x.func, "id", None)) in sources:
                    return True
                if isinstance(x, ast.Name) and isinstance(x.ctx, ast.Load) and x.id in tainted:
                    return True
            return False

        changed = True
        while changed:
            changed = False
            for st in stmts:
                if isinstance(st, ast.Assign):
                    if isinstance(st.value, ast.Name) and st.value.id in sources:
                        new = {t.id for t in st.targets if isinstance(t, ast.Name)} - sources
                        if new:
                            sources |= new
                            changed = True
                        continue
                    if expr_tainted(st.value):
                        new = {x.id for t in st.targets for x in ast.walk(t) if isinstance(x, ast.Name)} - tainted
                        if new:
                            tainted |= new
                            changed = True
                elif isinstance(st, ast.For) and expr_tainted(st.iter):
                    new = {x.id for x in ast.walk(st.target) if isinstance(x, ast.Name)} - tainted
                    if new:
                        tainted |= new
                        changed = True
        if not tainted and not any(isinstance(x, ast.Call) and getattr(x.func, "attr", getattr(x.func, "id", None)) in sources for x in ast.walk(fn.node)):
            continue
        par = {}
        for p in ast.walk(fn.node):
            for ch in ast.iter_child_nodes(p):
                par[ch] = p

        def size_test(t, names):
            """a comparison of a number of (distinct) elements: len(set(e)) == m, len(e) == m, len(e) == len(set(e))"""
            for c in ast.walk(t):
                if isinstance(c, ast.Compare) and len(c.ops) == 1 and isinstance(c.ops[0], (ast.Eq, ast.GtE)):
                    for side in (c.left, c.comparators[0]):
                        if isinstance(side, ast.Call) and getattr(side.func, "id", None) == "len" and side.args and (not names or any(isinstance(x, ast.Name) and x.id in names for x in ast.walk(side.args[0]))):
                            return True
            return False

        for call in ast.walk(fn.node):
            if not (isinstance(call, ast.Call) and isinstance(call.func, ast.Attribute) and call.func.attr in ADDERS and call.args):
                continue
            a = call.args[0]
            if not expr_tainted(a):
                continue
            n += 1
            names = {x.id for x in ast.walk(a) if isinstance(x, ast.Name)}
            ok = False
            # a comprehension that filters by size
            for c in ast.walk(a):
                if isinstance(c, (ast.ListComp, ast.SetComp, ast.GeneratorExp)) and any(size_test(i, set()) for g in c.generators for i in g.ifs):
                    ok = True
            # a dominating test in whose body the call sits
            p, child = par.get(call), call
            while p is not None and not ok:
                if isinstance(p, ast.If) and any(child is s or child in list(ast.walk(s)) for s in p.body) and size_test(p.test, names):
                    ok = True
                child, p = p, par.get(p)
            res.inst("G-DISTINCT", f"{fn.fq}:{call.lineno} `{unparse(call, 50)}`: candidates enumerated with repetition are filtered by their number of distinct nodes", ok)
            if not ok:
                res.add(mk_finding(PROP, "G-DISTINCT", fn, call, f"{fn.qualname}: `{unparse(call, 60)}` adds candidates that come from an enumeration with repetition (Cartesian product of node groups / product index decoder) without a test on their number of distinct nodes; a candidate that names a node twice - the same group occurs twice in a block - becomes an edge smaller than the requested size", role="distinct"))
    res.floor("edge-adding calls fed by enumerations with repetition", n, 3)


REORDERING = {"unique", "sorted", "sort", "set", "frozenset", "reversed", "argsort", "flip", "shuffle", "permutation"}


def _reorderings(fn_node, name, repo, fn, seen=()):
    """Order-changing operations applied to `name` inside fn_node: list of (stmt, operation)."""
    out = []
    for st in own_statements(fn_node):
        if isinstance(st, ast.Assign) and any(isinstance(t, ast.Name) and t.id == name for t in st.targets):
            for c in ast.walk(st.value):
                if isinstance(c, ast.Call):
                    nm = getattr(c.func, "attr", getattr(c.func, "id", None))
                    if nm in REORDERING and any(isinstance(x, ast.Name) and x.id == name for a in c.args for x in ast.walk(a)):
                        out.append((st, nm))
                if isinstance(c, ast.Subscript) and isinstance(c.slice, ast.Slice) and c.slice.step is not None and isinstance(c.value, ast.Name) and c.value.id == name:
                    out.append((st, "slice with a step"))
        if isinstance(st, ast.Expr) and isinstance(st.value, ast.Call) and isinstance(st.value.func, ast.Attribute) and st.value.func.attr in ("sort", "reverse") and isinstance(st.value.func.value, ast.Name) and st.value.func.value.id == name:
            out.append((st, st.value.func.attr))
        # x, y = helper(x, y): look at what the helper does to the corresponding returned names
        if isinstance(st, ast.Assign) and len(st.targets) == 1 and isinstance(st.targets[0], ast.Tuple) and isinstance(st.value, ast.Call) and isinstance(st.value.func, ast.Name):
            names = [t.id if isinstance(t, ast.Name) else None for t in st.targets[0].elts]
            if name in names and st.value.func.id not in seen:
                tgt = repo.resolve_name(fn, fn.module, st.value.func.id)
                if hasattr(tgt, "node") and getattr(tgt, "cls", None) is None:
                    pos = names.index(name)
                    for r in own_statements(tgt.node):
                        if isinstance(r, ast.Return) and isinstance(r.value, ast.Tuple) and pos < len(r.value.elts) and isinstance(r.value.elts[pos], ast.Name):
                            out += [(s2, f"{op} (in {tgt.name})") for s2, op in _reorderings(tgt.node, r.value.elts[pos].id, repo, tgt, seen + (st.value.func.id,))]
    return out


def check_align(repo, res, fns):
    n = 0
    for fn in fns:
        for c in ast.walk(fn.node):
            if isinstance(c, ast.Call) and isinstance(c.func, ast.Name) and c.func.id == "zip" and len(c.args) >= 2 and all(isinstance(a, ast.Name) for a in c.args):
                n += 1
                per = {a.id: _reorderings(fn.node, a.id, repo, fn) for a in c.args}
                moved = {k: v for k, v in per.items() if v}
                ok = not moved or len(moved) == len(per)
                res.inst("G-ALIGN", f"{fn.qualname}:{c.lineno} zip({', '.join(per)}): neither side reordered alone", ok)
                if not ok:
                    k, v = next(iter(moved.items()))
                    res.add(mk_finding(PROP, "G-ALIGN", fn, v[0][0], f"{fn.qualname}: `{k}` is consumed pairwise with {sorted(set(per) - {k})} (zip at line {c.lineno}) but is reordered on its own by {v[0][1]}: `{unparse(v[0][0], 50)}`; element i of one sequence then meets element j of the other (a probability is applied to the wrong order)", role=k))
    res.floor("pairwise-consumed sequences in generators", n, 3)


def check_nodes(repo, res, fns):
    n = 0
    gen_names = {f.name for f in fns if f.cls is None}
    for fn in fns:
        if fn.cls is not None or fn.name.startswith("_") or fn.name in NO_NODE_PARAM:
            continue
        if fn.module.all is not None and fn.name not in fn.module.all:
            continue
        n += 1
        if fn.name in NODES_EXCEPTIONS:
            res.info.append({"G-NODES exception": fn.fq, "reason": NODES_EXCEPTIONS[fn.name]})
            continue
        cfg = CFG(fn.node)
        rets = [r for r in own_statements(fn.node) if isinstance(r, ast.Return) and r.value is not None]
        for r in rets:
            v = r.value
            if isinstance(v, ast.Call) and getattr(v.func, "id", getattr(v.func, "attr", None)) in gen_names:
                res.inst("G-NODES", f"{fn.qualname}:{r.lineno} returns {unparse(v.func)}(...)", True)
                continue
            if isinstance(v, ast.IfExp):
                names = [x for x in (v.body, v.orelse)]
            else:
                names = [v]
            for nm in names:
                base = nm
                while isinstance(base, ast.Call) and isinstance(base.func, ast.Attribute):
                    base = base.func.value  # H.dual()
                if not isinstance(base, ast.Name):
                    res.inst("G-NODES", f"{fn.qualname}:{r.lineno} returns `{unparse(nm, 30)}`", True)
                    continue
                var = base.id

                def adds(nd, var=var):
                    if not isinstance(nd, ast.AST):
                        return False
                    for c in own_nodes(nd):
                        if isinstance(c, ast.Call) and isinstance(c.func, ast.Attribute) and c.func.attr == "add_nodes_from" and isinstance(c.func.value, ast.Name) and c.func.value.id == var:
                            return True
                        # H = trivial_hypergraph(n) / another generator
                        if isinstance(nd, ast.Assign) and any(isinstance(t, ast.Name) and t.id == var for t in nd.targets) and isinstance(nd.value, ast.Call) and getattr(nd.value.func, "id", None) in gen_names - NO_NODE_PARAM:
                            return True
                    return False

                ok = cfg.dominated_by(r, adds)
                res.inst("G-NODES", f"{fn.qualname}:{r.lineno} `{var}` received add_nodes_from on every path", ok)
                if not ok:
                    res.add(mk_finding(PROP, "G-NODES", fn, r, f"{fn.qualname}: a path returns `{var}` without add_nodes_from having been called on it; nodes that end up in no edge would be missing from the generated network", role=var))
    # the node set handed to add_nodes_from is the requested one, not a selection of it: a comprehension with a filter
    # (reached through once-bound locals) drops the nodes the filter rejects - e.g. nodes of prescribed degree zero
    n_args = 0
    for fn in fns:
        if fn.cls is not None:
            continue
        local = {}
        for st in ast.walk(fn.node):
            if isinstance(st, ast.Assign) and len(st.targets) == 1 and isinstance(st.targets[0], ast.Name):
                local.setdefault(st.targets[0].id, []).append(st.value)
        for c in ast.walk(fn.node):
            if isinstance(c, ast.Call) and isinstance(c.func, ast.Attribute) and c.func.attr == "add_nodes_from" and c.args:
                a = c.args[0]
                hops = 0
                while isinstance(a, ast.Name) and len(local.get(a.id, [])) == 1 and hops < 3:
                    a = local[a.id][0]
                    hops += 1
                while isinstance(a, ast.Call) and getattr(a.func, "id", None) in ("list", "tuple", "set", "sorted") and a.args:
                    a = a.args[0]
                n_args += 1
                filtered = isinstance(a, (ast.ListComp, ast.GeneratorExp, ast.SetComp)) and any(g.ifs for g in a.generators)
                res.inst("G-NODES", f"{fn.qualname}:{c.lineno} add_nodes_from receives an unfiltered node collection", not filtered)
                if filtered:
                    res.add(mk_finding(PROP, "G-NODES", fn, c, f"{fn.qualname}: `{unparse(c, 50)}` registers a filtered selection (`{unparse(a, 70)}`) of the requested nodes; the nodes the filter rejects (for instance nodes whose prescribed degree is zero) are missing from the generated network", role="filtered"))
    res.floor("add_nodes_from calls examined in the generators", n_args, 8)
    res.floor("public generators examined for the node set", n, 16)


def check_skip(repo, res, fns):
    n = 0
    for fn in fns:
        for st in own_statements(fn.node):
            if not isinstance(st, ast.While):
                continue
            t = st.test
            if not (isinstance(t, ast.Compare) and len(t.ops) == 1 and isinstance(t.left, ast.Name) and isinstance(t.comparators[0], ast.Name)):
                continue
            idx, bound = t.left.id, t.comparators[0].id
            steps = [s for s in own_statements(st) if isinstance(s, ast.AugAssign) and isinstance(s.target, ast.Name) and s.target.id == idx and isinstance(s.op, ast.Add) and isinstance(s.value, ast.Call) and getattr(s.value.func, "id", None) == "geometric"]
            if not steps:
                continue
            # only loops whose index is decoded into an edge (index-to-edge skip sampling); the Chung-Lu style loops
            # walk a sorted label list with a different, conditional skip scheme
            decoders = {a.targets[0].id for a in own_statements(fn.node) if isinstance(a, ast.Assign) and len(a.targets) == 1 and isinstance(a.targets[0], ast.Name) and isinstance(a.value, ast.Name) and a.value.id.startswith("_index_to_edge")}
            decoded = any(isinstance(c, ast.Call) and c.args and isinstance(c.args[0], ast.Name) and c.args[0].id == idx and (getattr(c.func, "id", "").startswith("_index_to_edge") or getattr(c.func, "id", "") in decoders) for s in own_statements(st) for c in ast.walk(s))
            if not decoded:
                continue
            n += 1
            bdefs = [s.value for s in own_statements(fn.node) if isinstance(s, ast.Assign) and any(isinstance(x, ast.Name) and x.id == bound for x in s.targets) and s.lineno < st.lineno]
            if not bdefs:
                raise AnalysisError(f"{fn.fq}:{st.lineno}: bound `{bound}` of the skip-sampling loop has no definition (extractor does not recognise the code)")
            for b in bdefs:
                minus_one = isinstance(b, ast.BinOp) and isinstance(b.op, ast.Sub) and isinstance(b.right, ast.Constant) and b.right.value == 1
                op = type(t.ops[0])
                ok = (minus_one and op is ast.LtE) or (not minus_one and op is ast.Lt)
                res.inst("G-SKIP", f"{fn.qualname}:{st.lineno} `{unparse(t)}` with {bound} = {unparse(b, 40)}", ok)
                if not ok:
                    what = "drops the last index" if (minus_one and op is ast.Lt) else "runs one index past the end"
                    res.add(mk_finding(PROP, "G-SKIP", fn, st, f"{fn.qualname}: the skip-sampling loop `{unparse(t)}` with `{bound} = {unparse(b, 40)}` {what}; the last admissible edge can never be generated (or an inadmissible index is decoded)", role=bound))
            firsts = [s for s in own_statements(fn.node) if isinstance(s, ast.Assign) and any(isinstance(x, ast.Name) and x.id == idx for x in s.targets) and s.lineno < st.lineno]
            last = firsts[-1] if firsts else None
            ok = last is not None and isinstance(last.value, ast.BinOp) and isinstance(last.value.op, ast.Sub) and isinstance(last.value.left, ast.Call) and getattr(last.value.left.func, "id", None) == "geometric" and isinstance(last.value.right, ast.Constant) and last.value.right.value == 1
            res.inst("G-SKIP", f"{fn.qualname}:{st.lineno} first index is geometric(p) - 1", ok)
            if not ok:
                res.add(mk_finding(PROP, "G-SKIP", fn, last or st, f"{fn.qualname}: the first sampled index is `{unparse(last.value, 40) if last else '?'}` instead of geometric(p) - 1; index 0 would be unreachable or sampled with the wrong probability", role=idx))
    res.floor("skip-sampling loops", n, 3)


def check_geometric(repo, res):
    mi = repo.modules.get("xgi.utils.utilities")
    fn = mi.functions.get("geometric") if mi else None
    if fn is None:
        raise AnalysisError("xgi.utils.utilities.geometric not found (anchor vanished)")
    got = {}
    for h in ast.walk(fn.node):
        if isinstance(h, ast.ExceptHandler) and isinstance(h.type, ast.Name):
            for r in ast.walk(h):
                if isinstance(r, ast.Return):
                    got[h.type.id] = unparse(r.value)
    ok1 = got.get("ValueError") == "1"
    ok0 = got.get("ZeroDivisionError") in ("np.inf", "math.inf", "inf", "float('inf')")
    res.inst("G-P01", "geometric(1) returns 1 (ValueError handler)", ok1)
    if not ok1:
        res.add(mk_finding(PROP, "G-P01", fn, fn.node, f"geometric(): for p = 1 (log(0) -> ValueError) the function returns `{got.get('ValueError')}` instead of 1; probability 1 would not yield every edge", role="p1"))
    res.inst("G-P01", "geometric(0) returns infinity (ZeroDivisionError handler)", ok0)
    if not ok0:
        res.add(mk_finding(PROP, "G-P01", fn, fn.node, f"geometric(): for p = 0 (division by log(1) = 0) the function returns `{got.get('ZeroDivisionError')}` instead of infinity; probability 0 would still yield edges", role="p0"))


def check_radix(repo, res):
    mi = repo.modules.get("xgi.generators.uniform")
    if mi is None:
        raise AnalysisError("xgi.generators.uniform not found (anchor vanished)")
    # _index_to_edge_partition(index, partition_sizes, m): digit r = index // prod(sizes[r+1:]) % sizes[r]
    fn = mi.functions.get("_index_to_edge_partition")
    if fn is None:
        raise AnalysisError("_index_to_edge_partition not found (anchor vanished)")
    idx, sizes = fn.params[0], fn.params[1]
    comps = [n for n in ast.walk(fn.node) if isinstance(n, ast.ListComp)]
    ok, why = False, "no list comprehension over the positions found"
    for c in comps:
        g = c.generators[0]
        if not isinstance(g.target, ast.Name):
            continue
        r = g.target.id
        ok, why = partition_digit_ok(fn, c.elt, idx, sizes, r)
        if ok:
            break
    res.inst("G-RADIX", "_index_to_edge_partition: digit r = index // prod(sizes[r+1:]) % sizes[r]", ok)
    if not ok:
        res.add(mk_finding(PROP, "G-RADIX", fn, fn.node, f"_index_to_edge_partition: {why}; with blocks of different sizes the decoding is no longer a bijection onto the block product", role="stride"))
    fn2 = mi.functions.get("_index_to_edge_prod")
    if fn2 is None:
        raise AnalysisError("_index_to_edge_prod not found (anchor vanished)")
    idx2, n2 = fn2.params[0], fn2.params[1]
    rets = [r for r in own_statements(fn2.node) if isinstance(r, ast.Return)]
    ok2 = False
    for r in rets:
        val = r.value
        if isinstance(val, ast.Name):
            defs = [s.value for s in own_statements(fn2.node) if isinstance(s, ast.Assign) and any(isinstance(t, ast.Name) and t.id == val.id for t in s.targets)]
            if len(defs) == 1:
                val = defs[0]
        if isinstance(val, ast.ListComp) and isinstance(val.generators[0].target, ast.Name):
            rv = val.generators[0].target.id
            e = val.elt
            # (index // n**r) % n
            if isinstance(e, ast.BinOp) and isinstance(e.op, ast.Mod) and isinstance(e.right, ast.Name) and e.right.id == n2 and isinstance(e.left, ast.BinOp) and isinstance(e.left.op, ast.FloorDiv) and isinstance(e.left.left, ast.Name) and e.left.left.id == idx2:
                d = e.left.right
                if isinstance(d, ast.BinOp) and isinstance(d.op, ast.Pow) and isinstance(d.left, ast.Name) and d.left.id == n2 and isinstance(d.right, ast.Name) and d.right.id == rv:
                    ok2 = True
    res.inst("G-RADIX", "_index_to_edge_prod: digit r = index // n**r % n", ok2)
    if not ok2:
        res.add(mk_finding(PROP, "G-RADIX", fn2, fn2.node, "_index_to_edge_prod: the digit of position r is not `index // n**r % n`; the decoding is no longer a bijection onto m-tuples", role="digit"))


def partition_digit_ok(fn, e, idx, sizes, r):
    """e is  int(index // STRIDE % sizes[r])  with STRIDE the product of the sizes after position r."""
    if isinstance(e, ast.Call) and getattr(e.func, "id", None) == "int" and e.args:
        e = e.args[0]
    if not (isinstance(e, ast.BinOp) and isinstance(e.op, ast.Mod)):
        return False, f"the digit expression `{unparse(e, 50)}` is not `index // stride % size`"
    mod = e.right
    if not (isinstance(mod, ast.Subscript) and isinstance(mod.value, ast.Name) and mod.value.id == sizes and isinstance(mod.slice, ast.Name) and mod.slice.id == r):
        return False, f"the digit is taken modulo `{unparse(mod, 30)}` instead of {sizes}[{r}]"
    q = e.left
    if not (isinstance(q, ast.BinOp) and isinstance(q.op, ast.FloorDiv) and isinstance(q.left, ast.Name) and q.left.id == idx):
        return False, f"`{unparse(q, 40)}` is not `{idx} // stride`"
    stride = q.right
    # np.prod(sizes[r + 1:])
    if isinstance(stride, ast.Call) and getattr(stride.func, "attr", getattr(stride.func, "id", None)) in ("prod",) and stride.args:
        a = stride.args[0]
        if isinstance(a, ast.Subscript) and isinstance(a.value, ast.Name) and a.value.id == sizes and isinstance(a.slice, ast.Slice) and a.slice.upper is None and isinstance(a.slice.lower, ast.BinOp) and isinstance(a.slice.lower.op, ast.Add) and isinstance(a.slice.lower.left, ast.Name) and a.slice.lower.left.id == r and isinstance(a.slice.lower.right, ast.Constant) and a.slice.lower.right.value == 1:
            return True, ""
        return False, f"the place value is the product of `{unparse(a, 40)}` instead of {sizes}[{r} + 1:]"
    # precomputed table strides[r]: must be a suffix product: cumprod of the REVERSED tail
    if isinstance(stride, ast.Subscript) and isinstance(stride.value, ast.Name) and isinstance(stride.slice, ast.Name) and stride.slice.id == r:
        tab = stride.value.id
        defs = [s.value for s in own_statements(fn.node) if isinstance(s, ast.Assign) and any(isinstance(t, ast.Name) and t.id == tab for t in s.targets)]
        for d in defs:
            txt = unparse(d, 200)
            # accepted: np.append(np.cumprod(sizes[:0:-1])[::-1], 1)   /  np.cumprod(sizes[::-1])[::-1] shifted ...
            if "cumprod" in txt:
                inner = [c for c in ast.walk(d) if isinstance(c, ast.Call) and getattr(c.func, "attr", getattr(c.func, "id", None)) == "cumprod"]
                for c in inner:
                    a = c.args[0] if c.args else None
                    reversed_arg = isinstance(a, ast.Subscript) and isinstance(a.slice, ast.Slice) and isinstance(a.slice.step, ast.UnaryOp) and isinstance(a.slice.step.op, ast.USub)
                    if reversed_arg:
                        return True, ""
                return False, f"the place values `{tab} = {txt[:70]}` are cumulative products taken from the front of the tail, not suffix products (they coincide only when the block sizes are equal)"
        return False, f"the place-value table `{tab}` is not built in a recognised way"
    return False, f"the place value `{unparse(stride, 40)}` is not the product of the sizes after position {r}"
