"""C17 - A seed fully determines every stochastic result.

D-FAM    every random family a public function with a ``seed`` parameter may draw from, transitively,
         is seeded from that parameter (random.seed / np.random.seed / generator object / seed= or v0=
         keyword of a stochastic third-party callee / the callee's own seed parameter).
D-DOM    the seeding statement dominates every draw of its family (no draw on a path before seeding).
D-GUARD  the guard around a seeding statement is ``seed is not None`` (a truthiness guard ignores seed=0).
"""
from __future__ import annotations

from .. import thirdparty as TP
from ..model import AnalysisError
from ..report import Result, mk_finding
from ..rng import RngAnalysis

PROP = "C17"


def run(ctx):
    repo = ctx.repo
    res = Result(PROP)
    res.rules = ["D-FAM", "D-DOM", "D-GUARD"]
    res.explanation = (
        "For every public function with a parameter named seed (enumerated from the __all__ chain, so new ones are "
        "included), the set of random families it may draw from is computed transitively over resolved callees; a "
        "draw is covered when a seeding of its family derived from `seed` dominates it in the CFG, when the drawing "
        "generator object was constructed from `seed`, or when the stochastic third-party callee receives seed=/v0= "
        "derived from `seed`. Any uncovered draw is reported with its call chain."
    )
    rng = RngAnalysis(repo)
    subjects = [f for f in repo.public_functions() if "seed" in f.all_params]
    if ctx.only:
        subjects = [f for f in subjects if f.qualname == ctx.only]
    draw_sites = 0
    for f in subjects:
        s = rng.summarize(f)
        draw_sites += s.draw_sites
        total = len(s.free) + len(s.covered)
        res.inst("D-FAM", f"{f.fq}: {total} draw(s), {len(s.free)} uncovered", not s.free, sample={"rule": "D-FAM", "function": f.fq, "families_drawn": sorted({d.family for d in s.free | s.covered}), "seeded": sorted({fam for fam, _ in s.seeds}), "covered": len(s.covered), "uncovered": len(s.free)})
        for d in sorted(s.free, key=lambda d: (d.line, d.text)):
            seeded_fams = {fam for fam, _ in s.seeds}
            rule = "D-DOM" if d.family in seeded_fams else "D-FAM"
            msg = f"{f.qualname}(seed=...) draws from a generator its seed does not determine: {d.describe()}"
            if rule == "D-DOM":
                msg = f"{f.qualname}: the seeding of {d.family} does not dominate this draw: {d.describe()}"
            fd = mk_finding(PROP, rule, f, f.node, msg, role=d.family, path=[f.qualname] + [f"{c[0]}:{c[1]}" for c in d.via] + [f"{d.fn}:{d.line}"])
            fd.statement = f"{d.family}: {d.text}"
            fd.line = d.line if not d.via else d.via[0][1]
            res.add(fd)
        for ifn, ok, text in s.guards:
            res.inst("D-GUARD", f"{f.fq}: if {text}", ok)
            if not ok:
                res.add(mk_finding(PROP, "D-GUARD", f, ifn, f"{f.qualname}: seeding is guarded by `{text}` instead of `seed is not None` (seed=0 or other falsy seeds are ignored)", role="guard"))
        if total == 0:
            res.info.append({"no_draws_found": f.fq, "note": "a seed parameter with no stochastic draw reachable"})
    res.floor("public functions with a seed parameter", len(subjects), 20 if not ctx.only else 0)
    res.floor("draw sites examined", draw_sites, 30 if not ctx.only else 0)
    res.extra["third_party_table"] = {k: list(v) for k, v in TP.EXT_STOCHASTIC.items()}
    res.extra["functions_summarised"] = len(rng.memo)
    return res
