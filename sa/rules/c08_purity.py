"""C08 - Read-only API never mutates the network it is given.

P-PURE      the may-write set (tables, member sets, attribute dicts, network attributes, the ID
            counter, instance attributes) on every network-typed parameter of every public function,
            and on the receiver of every public non-mutator method/property of the three classes,
            the view classes and the stat classes, is empty - transitively through resolved callees.
P-INPLACE   functions/methods with an ``in_place`` flag are analysed with in_place=False.
P-VIEWCOPY  public view accessors never return a member/membership set of the network itself
            (only copies), which is what lets callers treat accessor results as fresh.
"""
from __future__ import annotations

import ast

from ..effects import DIRECT, EDGE, ELEM, NODE, SHADOW, UID, Effects
from ..model import CORE_CLASSES, VIEW_CLASSES, AnalysisError
from ..report import Result, mk_finding
from .common import network_params

PROP = "C08"

# Declared mutators: functions documented as modifying their argument.
MUTATOR_FUNCTIONS = {
    "xgi.utils.utilities:update_uid_counter": "documented helper whose purpose is to advance the ID counter of H",
}
# Methods documented as in-place edits, beyond the names shadowed by freeze().
MUTATOR_METHODS = {
    "set_node_attributes", "set_edge_attributes", "update", "merge_duplicate_edges", "close", "freeze",
    "__setitem__", "__init__", "__setstate__", "__delitem__",
}
READONLY_DUNDERS = {"__str__", "__iter__", "__contains__", "__len__", "__getitem__", "__getattr__", "__lshift__", "__getstate__", "__repr__", "__call__", "__eq__", "__hash__"}
STAT_CLASSES = ("IDStat", "MultiIDStat")


def _describe(w):
    return w.short()


def _struct_alias(v):
    k = v[0]
    if k in ("tab",) and v[2] in (NODE, EDGE, "ID", "BI"):
        return True
    if k == "in" and v[2] in (NODE, EDGE, "ID", "BI"):
        return True
    if k == "cont":
        return any(_struct_alias(e) for e in v[1])
    return False


def run(ctx):
    repo = ctx.repo
    res = Result(PROP)
    res.rules = ["P-PURE", "P-INPLACE", "P-VIEWCOPY"]
    res.explanation = (
        "Flow-sensitive interprocedural effect analysis (sa/effects.py): every parameter is tracked as a possible "
        "network/view/stat/table; aliases of stored member sets and attribute dicts are distinguished from copies; "
        "function summaries are applied at every resolved call. A subject passes when no write to any region of "
        "its input network is reachable. Subjects are enumerated from the __all__ chain and the class bodies, so new "
        "functions and methods are included automatically."
    )
    eng = Effects(repo)
    frozen_union = set()
    for cn in CORE_CLASSES:
        frozen_union |= repo.frozen_names(repo.get_class(cn))[0]

    def report(rule, fi, pname, j, writes, role):
        w = sorted(writes, key=lambda w: (len(w.chain), w.fn.file, w.line))[0]
        chain = [fi.qualname] + [f"{c[0]}:{c[1]}" for c in w.chain] + [_describe(w)]
        f = mk_finding(PROP, rule, fi, fi.node, f"{fi.qualname}({pname}) may modify its input network: {_describe(w)}", role=role, path=chain)
        f.statement = f"{fi.qualname}({pname}) -> {w.fn.qualname}: {w.text}"
        res.add(f)

    # ---- public functions
    n_fn = 0
    for fi in repo.public_functions():
        if ctx.only and ctx.only != fi.qualname:
            continue
        nps = network_params(repo, fi)
        if not nps:
            continue
        if fi.fq in MUTATOR_FUNCTIONS:
            res.info.append({"declared_mutator": fi.fq, "reason": MUTATOR_FUNCTIONS[fi.fq]})
            continue
        consts = ()
        rule = "P-PURE"
        if "in_place" in fi.all_params:
            consts = (("in_place", False),)
            rule = "P-INPLACE"
        summ = eng.summarize(fi, None, consts, ())
        for j, pname in nps:
            if pname == "create_using":
                continue
            n_fn += 1
            bad = [w for w in summ.writes if w.origin == ("p", j)]
            res.inst(rule, f"{fi.fq}({pname})", not bad, sample={"rule": rule, "function": fi.fq, "param": pname, "callees_resolved": summ.resolved, "writes_on_param": len(bad)})
            if bad:
                report(rule, fi, pname, j, bad, role=pname)
    res.floor("public function x network parameter", n_fn, 110 if not ctx.only else 0)

    # ---- methods and properties of the three classes
    n_m = 0
    for cname in CORE_CLASSES:
        ci = repo.get_class(cname)
        frozen, _ = repo.frozen_names(ci)
        for mname, fi in sorted(repo.all_methods(ci).items()):
            if ctx.only and ctx.only not in (fi.qualname, f"{cname}.{mname}"):
                continue
            if mname.startswith("_") and mname not in READONLY_DUNDERS:
                continue
            if mname in frozen or mname in frozen_union or mname in MUTATOR_METHODS:
                continue
            consts = ()
            rule = "P-PURE"
            if "in_place" in fi.all_params:
                consts = (("in_place", False),)
                rule = "P-INPLACE"
            summ = eng.summarize(fi, cname, consts, ())
            bad = [w for w in summ.writes if w.origin == ("p", 0)]
            n_m += 1
            res.inst(rule, f"{cname}.{mname}", not bad)
            if bad:
                report(rule, fi, "self", 0, bad, role=cname)
            # other network-typed parameters (e.g. __lshift__(self, H2))
            for j, pname in network_params(repo, fi):
                if j == 0:
                    continue
                bad = [w for w in summ.writes if w.origin == ("p", j)]
                res.inst(rule, f"{cname}.{mname}({pname})", not bad)
                if bad:
                    report(rule, fi, pname, j, bad, role=cname)
    res.floor("read-only methods of the three classes", n_m, 40 if not ctx.only else 0)

    # ---- views and stats
    n_v = 0
    n_acc = 0
    for cname in VIEW_CLASSES:
        ci = repo.find_class(cname)
        if ci is None:
            raise AnalysisError(f"view class {cname} not found (anchor vanished)")
        if cname == "IDView":
            continue
        for mname, fi in sorted(repo.all_methods(ci).items()):
            if ctx.only and ctx.only not in (fi.qualname, f"{cname}.{mname}"):
                continue
            if mname.startswith("_") and mname not in READONLY_DUNDERS:
                continue
            if fi.module.name.split(".")[0] != "xgi":
                continue
            summ = eng.summarize(fi, cname, (), ())
            bad = [w for w in summ.writes if w.origin == ("p", 0)]
            n_v += 1
            res.inst("P-PURE", f"{cname}.{mname}", not bad)
            if bad:
                report("P-PURE", fi, "self", 0, bad, role=cname)
            if not mname.startswith("_"):
                esc = [v for v in summ.returns if _struct_alias(v)]
                n_acc += 1
                res.inst("P-VIEWCOPY", f"{cname}.{mname} returns no alias of a stored member set", not esc)
                if esc:
                    rets = [s for s in ast.walk(fi.node) if isinstance(s, ast.Return)]
                    f = mk_finding(PROP, "P-VIEWCOPY", fi, rets[0] if rets else fi.node, f"{cname}.{mname} hands out a member/membership set of the network itself instead of a copy: {sorted(esc, key=str)[0]}", role=cname)
                    res.add(f)
    for cname in STAT_CLASSES:
        ci = repo.find_class(cname)
        if ci is None:
            raise AnalysisError(f"stat class {cname} not found (anchor vanished)")
        for mname, fi in sorted(repo.all_methods(ci).items()):
            if ctx.only and ctx.only not in (fi.qualname, f"{cname}.{mname}"):
                continue
            if mname.startswith("_") and mname not in READONLY_DUNDERS and mname != "_val":
                continue
            summ = eng.summarize(fi, None, (), ())
            bad = [w for w in summ.writes if w.origin == ("p", 0) and w.region not in (DIRECT, ELEM)]
            n_v += 1
            res.inst("P-PURE", f"{cname}.{mname}", not bad)
            if bad:
                report("P-PURE", fi, "self", 0, bad, role=cname)
    res.floor("view and stat methods", n_v, 60 if not ctx.only else 0)
    res.floor("view accessors checked for fresh results", n_acc, 18 if not ctx.only else 0)

    # information: callee resolution statistics
    tot_res = sum(s.resolved for s in eng.memo.values())
    tot_unres = sum(s.unresolved for s in eng.memo.values())
    res.extra["call_sites_resolved"] = tot_res
    res.extra["call_sites_unresolved_plain_names"] = tot_unres
    res.extra["function_summaries_computed"] = len(eng.memo)
    res.extra["declared_mutators"] = sorted(MUTATOR_FUNCTIONS) + sorted(MUTATOR_METHODS) + ["<names shadowed by any freeze()>", "create_using parameters"]
    return res
