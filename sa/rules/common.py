"""Helpers shared by rule modules."""
from __future__ import annotations

import ast
import re

from ..cfg import CFG, ENTRY, EXIT, own_nodes, own_statements
from ..model import CORE_CLASSES, FunctionInfo, numpydoc_param_types

NET_WORDS = re.compile(r"hypergraph|simplicial ?complex|dihypergraph", re.I)
NOT_NET_WORDS = re.compile(r"^\s*(list|dict|iterable|tuple|set|str|int|float|bool|callable|path|numpy|array|dataframe|pandas|networkx|nx\.)", re.I)
NET_NAMES = {"H", "S", "SC", "DH", "net", "H1", "H2", "hypergraph", "network", "HG"}


def network_params(repo, fi: FunctionInfo):
    """(index, name) of the parameters of fi that are network-typed.

    Evidence, in this order: the type line of the numpydoc Parameters section (this repository
    writes it consistently); an isinstance test against a core class in the body; the
    conventional parameter names when the docstring gives no type."""
    doc = numpydoc_param_types(fi.docstring())
    out = []
    params = fi.all_params
    isinst = set()
    for n in ast.walk(fi.node):
        if isinstance(n, ast.Call) and isinstance(n.func, ast.Name) and n.func.id == "isinstance" and len(n.args) == 2 and isinstance(n.args[0], ast.Name):
            names = {x.id for x in ast.walk(n.args[1]) if isinstance(x, ast.Name)} | {x.attr for x in ast.walk(n.args[1]) if isinstance(x, ast.Attribute)}
            if names & set(CORE_CLASSES):
                isinst.add(n.args[0].id)
    for j, p in enumerate(params):
        if p in ("self", "cls"):
            continue
        t = doc.get(p)
        if t is not None and t != "":
            if NET_WORDS.search(t) and not re.match(r"^\s*(list|dict) or (list|dict)|^\s*(list|dict|iterable) of", t, re.I):
                out.append((j, p))
                continue
            if p in isinst:
                out.append((j, p))
            continue
        if p in isinst or p in NET_NAMES:
            out.append((j, p))
    return out


def returns_of(fn_node):
    return [s for s in own_statements(fn_node) if isinstance(s, ast.Return)]


def call_name(call: ast.Call):
    f = call.func
    if isinstance(f, ast.Name):
        return f.id
    if isinstance(f, ast.Attribute):
        return f.attr
    return None


def stmt_calls(st):
    return [n for n in own_nodes(st) if isinstance(n, ast.Call)]


def dominating_calls(fn_node, target_stmt, varname, method):
    """Every path ENTRY ->* target_stmt passes a statement that calls varname.method(...)."""
    cfg = CFG(fn_node)

    def pred(st):
        if not isinstance(st, ast.AST):
            return False
        for c in stmt_calls(st):
            if isinstance(c.func, ast.Attribute) and c.func.attr == method and isinstance(c.func.value, ast.Name) and c.func.value.id == varname:
                return True
        return False

    return cfg.dominated_by(target_stmt, pred)


def is_self_attr(node, selfname, attr=None):
    return isinstance(node, ast.Attribute) and isinstance(node.value, ast.Name) and node.value.id == selfname and (attr is None or node.attr == attr)


def unparse(node, n=120):
    try:
        return " ".join(ast.unparse(node).split())[:n]
    except Exception:
        return type(node).__name__


def delegate_body(repo, fn, body, src):
    """If a branch body merely delegates to a module-level helper of the same module -
    `return helper(src, ...)` or `X = helper(src, ...)` - return (helper FunctionInfo, its statements, the helper's name
    for src); otherwise (fn, body, src)."""
    for st in body[:1]:
        call = None
        if isinstance(st, ast.Return) and isinstance(st.value, ast.Call):
            call = st.value
        elif isinstance(st, ast.Assign) and isinstance(st.value, ast.Call):
            call = st.value
        if call is not None and isinstance(call.func, ast.Name):
            tgt = repo.resolve_name(fn, fn.module, call.func.id)
            if isinstance(tgt, FunctionInfo) and tgt.module is fn.module and tgt.cls is None and not tgt.name.startswith("empty_"):
                for i, a in enumerate(call.args):
                    if isinstance(a, ast.Name) and a.id == src and i < len(tgt.params):
                        stmts = [s for s in tgt.node.body if not (isinstance(s, ast.Expr) and isinstance(s.value, ast.Constant))]
                        return tgt, stmts, tgt.params[i]
    return fn, body, src


def with_module_helpers(repo, fn, depth=3):
    """fn plus the same-module functions it calls by name, transitively (helper extraction keeps rules whole)."""
    out, seen, todo = [fn], {fn.fq}, [(fn, 0)]
    while todo:
        f, d = todo.pop()
        if d >= depth:
            continue
        for c in ast.walk(f.node):
            if isinstance(c, ast.Call) and isinstance(c.func, ast.Name):
                tgt = repo.resolve_name(f, f.module, c.func.id)
                if isinstance(tgt, FunctionInfo) and tgt.module is fn.module and tgt.cls is None and tgt.fq not in seen and tgt.parent is None:
                    seen.add(tgt.fq)
                    out.append(tgt)
                    todo.append((tgt, d + 1))
    return out


def pattern_lint(res, prop, rule, fns, matcher, positive_src, describe, what):
    """A rule whose expected count on a healthy tree is zero: `matcher(fn_node)` yields offending AST nodes. The embedded
    positive example must match on every run (otherwise the matcher itself is broken: AnalysisError)."""
    from ..model import AnalysisError
    from ..report import mk_finding

    pos = ast.parse(positive_src).body[0]
    if not list(matcher(pos)):
        raise AnalysisError(f"{rule} self-check: the embedded positive example is no longer recognised")
    n = 0
    for fn in fns:
        for node in matcher(fn.node):
            n += 1
            res.inst(rule, f"{fn.fq}:{getattr(node, 'lineno', 0)} `{unparse(node, 50)}`", False)
            res.add(mk_finding(prop, rule, fn, node, f"{fn.qualname}: {describe(node)}", role=unparse(node, 40)))
    res.inst(rule, f"{len(fns)} functions scanned for {what} ({n} found; embedded positive example recognised)", True)
    return n
