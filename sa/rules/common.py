"""Helpers shared by rule modules."""
from __future__ import annotations

import ast
import re

from ..cfg import CFG, ENTRY, EXIT, own_nodes, own_statements
from ..model import CORE_CLASSES, FunctionInfo, numpydoc_param_types

NET_WORDS = re.compile(r"hypergraph|simplicial ?complex|dihypergraph", re.I)
NOT_NET_WORDS = re.compile(r"^\s*(list|dict|iterable|tuple|set|str|int|float|bool|callable|path|numpy|array|dataframe|pandas|networkx|nx\.)", re.I)
NET_NAMES = {"H", "S", "SC", "DH", "net", "H1", "H2", "hypergraph", "network", "HG"}


def network_params(repo, fi: FunctionInfo):
    """(index, name) of the parameters of fi that are network-typed.

    Evidence, in this order: the type line of the numpydoc Parameters section (this repository
    writes it consistently); an isinstance test against a core class in the body; the
    conventional parameter names when the docstring gives no type."""
    doc = numpydoc_param_types(fi.docstring())
    out = []
    params = fi.all_params
    isinst = set()
    for n in ast.walk(fi.node):
        if isinstance(n, ast.Call) and isinstance(n.func, ast.Name) and n.func.id == "isinstance" and len(n.args) == 2 and isinstance(n.args[0], ast.Name):
            names = {x.id for x in ast.walk(n.args[1]) if isinstance(x, ast.Name)} | {x.attr for x in ast.walk(n.args[1]) if isinstance(x, ast.Attribute)}
            if names & set(CORE_CLASSES):
                isinst.add(n.args[0].id)
    for j, p in enumerate(params):
        if p in ("self", "cls"):
            continue
        t = doc.get(p)
        if t is not None and t != "":
            if NET_WORDS.search(t) and not re.match(r"^\s*(list|dict) or (list|dict)|^\s*(list|dict|iterable) of", t, re.I):
                out.append((j, p))
                continue
            if p in isinst:
                out.append((j, p))
            continue
        if p in isinst or p in NET_NAMES:
            out.append((j, p))
    return out


def returns_of(fn_node):
    return [s for s in own_statements(fn_node) if isinstance(s, ast.Return)]


def call_name(call: ast.Call):
    f = call.func
    if isinstance(f, ast.Name):
        return f.id
    if isinstance(f, ast.Attribute):
        return f.attr
    return None


def stmt_calls(st):
    return [n for n in own_nodes(st) if isinstance(n, ast.Call)]


def dominating_calls(fn_node, target_stmt, varname, method):
    """Every path ENTRY ->* target_stmt passes a statement that calls varname.method(...)."""
    cfg = CFG(fn_node)

    def pred(st):
        if not isinstance(st, ast.AST):
            return False
        for c in stmt_calls(st):
            if isinstance(c.func, ast.Attribute) and c.func.attr == method and isinstance(c.func.value, ast.Name) and c.func.value.id == varname:
                return True
        return False

    return cfg.dominated_by(target_stmt, pred)


def is_self_attr(node, selfname, attr=None):
    return isinstance(node, ast.Attribute) and isinstance(node.value, ast.Name) and node.value.id == selfname and (attr is None or node.attr == attr)


def unparse(node, n=120):
    try:
        return " ".join(ast.unparse(node).split())[:n]
    except Exception:
        return type(node).__name__


def delegate_body(repo, fn, body, src):
    """If a branch body merely delegates to a module-level helper of the same module -
    `return helper(src, ...)` or `X = helper(src, ...)` - return (helper FunctionInfo, its statements, the helper's name
    for src); otherwise (fn, body, src)."""
    for st in body[:1]:
        call = None
        if isinstance(st, ast.Return) and isinstance(st.value, ast.Call):
            call = st.value
        elif isinstance(st, ast.Assign) and isinstance(st.value, ast.Call):
            call = st.value
        if call is not None and isinstance(call.func, ast.Name):
            tgt = repo.resolve_name(fn, fn.module, call.func.id)
            if isinstance(tgt, FunctionInfo) and tgt.module is fn.module and tgt.cls is None and not tgt.name.startswith("empty_"):
                for i, a in enumerate(call.args):
                    if isinstance(a, ast.Name) and a.id == src and i < len(tgt.params):
                        stmts = [s for s in tgt.node.body if not (isinstance(s, ast.Expr) and isinstance(s.value, ast.Constant))]
                        return tgt, stmts, tgt.params[i]
    return fn, body, src


def with_module_helpers(repo, fn, depth=3):
    """fn plus the same-module functions it calls by name, transitively (helper extraction keeps rules whole)."""
    out, seen, todo = [fn], {fn.fq}, [(fn, 0)]
    while todo:
        f, d = todo.pop()
        if d >= depth:
            continue
        for c in ast.walk(f.node):
            if isinstance(c, ast.Call) and isinstance(c.func, ast.Name):
                tgt = repo.resolve_name(f, f.module, c.func.id)
                if isinstance(tgt, FunctionInfo) and tgt.module is fn.module and tgt.cls is None and tgt.fq not in seen and tgt.parent is None:
                    seen.add(tgt.fq)
                    out.append(tgt)
                    todo.append((tgt, d + 1))
    return out


def pattern_lint(res, prop, rule, fns, matcher, positive_src, describe, what):
    """A rule whose expected count on a healthy tree is zero: `matcher(fn_node)` yields offending AST nodes. The embedded
    positive example must match on every run (otherwise the matcher itself is broken: AnalysisError)."""
    from ..model import AnalysisError
    from ..report import mk_finding

    pos = ast.parse(positive_src).body[0]
    if not list(matcher(pos)):
        raise AnalysisError(f"{rule} self-check: the embedded positive example is no longer recognised")
    n = 0
    for fn in fns:
        for node in matcher(fn.node):
            n += 1
            res.inst(rule, f"{fn.fq}:{getattr(node, 'lineno', 0)} `{unparse(node, 50)}`", False)
            res.add(mk_finding(prop, rule, fn, node, f"{fn.qualname}: {describe(node)}", role=unparse(node, 40)))
    res.inst(rule, f"{len(fns)} functions scanned for {what} ({n} found; embedded positive example recognised)", True)
    return n


COMBO_PRODUCERS = {"combinations", "powerset", "_powerset", "subfaces", "_subfaces", "combinations_with_replacement"}


def raw_tuple_dedupe_sites(fn_node):
    """Sites where tuples of IDs coming out of a combinations-family producer are used as identity (set element,
    dict key) without being made canonical (frozenset / sorted). When the producer is fed a set, the order of the IDs
    inside such a tuple is the hash order, so (a, b) and (b, a) both occur and are not recognised as the same face."""
    local = {}
    for st in ast.walk(fn_node):
        if isinstance(st, ast.Assign) and len(st.targets) == 1 and isinstance(st.targets[0], ast.Name):
            local.setdefault(st.targets[0].id, []).append(st.value)

    def is_producer(e, depth=0):
        if depth > 3:
            return False
        if isinstance(e, ast.Call):
            nm = getattr(e.func, "attr", getattr(e.func, "id", None))
            if nm in COMBO_PRODUCERS:
                return True
            if nm in ("list", "tuple", "iter", "chain", "from_iterable") and e.args:
                return any(is_producer(a, depth + 1) for a in e.args)
        if isinstance(e, ast.Name) and e.id in local:
            return any(is_producer(v, depth + 1) for v in local[e.id])
        return False

    def raw(e, var):
        """e is the loop variable itself or tuple(var) / list(var) - still order-carrying."""
        if isinstance(e, ast.Name) and e.id == var:
            return True
        if isinstance(e, ast.Call) and getattr(e.func, "id", None) in ("tuple", "list") and len(e.args) == 1 and isinstance(e.args[0], ast.Name) and e.args[0].id == var:
            return True
        return False

    for n in ast.walk(fn_node):
        # {c for c in producer} / {tuple(c) for c in producer}
        if isinstance(n, ast.SetComp) and len(n.generators) >= 1:
            g = n.generators[-1]
            if isinstance(g.target, ast.Name) and is_producer(g.iter) and raw(n.elt, g.target.id):
                yield n
        # set(producer) / dict.fromkeys(producer)
        if isinstance(n, ast.Call) and n.args and is_producer(n.args[0]):
            if getattr(n.func, "id", None) in ("set", "frozenset") or (isinstance(n.func, ast.Attribute) and n.func.attr == "fromkeys"):
                yield n
        # for c in producer: S.add(c) / S.add(tuple(c)) / D[c] = ...
        if isinstance(n, ast.For) and isinstance(n.target, ast.Name) and is_producer(n.iter):
            var = n.target.id
            for c in ast.walk(n):
                if isinstance(c, ast.Call) and isinstance(c.func, ast.Attribute) and c.func.attr == "add" and c.args and raw(c.args[0], var):
                    yield c
                if isinstance(c, ast.Subscript) and isinstance(c.ctx, ast.Store) and raw(c.slice, var):
                    yield c


REORDER_CALLS = {"unique", "sorted", "set", "frozenset", "reversed", "argsort", "flip", "shuffle", "permutation", "sort"}


def misaligned_zips(fn_node):
    """zip(A, B, ...) of local sequences that were filtered or reordered differently on the way. Straight-line
    bookkeeping over the statements of the function: a comprehension without a condition keeps the alignment of what it
    iterates, one with a condition adds that condition (together with the mask it reads) to the signature of its result,
    an order-changing call adds that call. All arguments of a zip must carry the same signature.
    Yields (zip call, {name: signature})."""
    sig = {}

    def names_in(e):
        return [n.id for n in ast.walk(e) if isinstance(n, ast.Name) and isinstance(n.ctx, ast.Load)]

    def sig_of_expr(e, target=None):
        out = frozenset()
        if isinstance(e, (ast.ListComp, ast.GeneratorExp, ast.SetComp)):
            for g in e.generators:
                for nm in names_in(g.iter):
                    out |= sig.get(nm, frozenset())
                for t in g.ifs:
                    masks = sorted(set(names_in(g.iter)) - ({target} if target else set()) - {"zip", "enumerate", "range", "len"})
                    out |= frozenset([f"if {unparse(t, 40)} [{','.join(m for m in masks if m != target)}]"])
            return out
        if isinstance(e, ast.Call):
            nm = getattr(e.func, "attr", getattr(e.func, "id", None))
            for a in list(e.args):
                out |= sig_of_expr(a, target)
            if nm in REORDER_CALLS and e.args:
                out |= frozenset([f"reorder:{nm}"])
            return out
        if isinstance(e, ast.Subscript):
            out |= sig_of_expr(e.value, target)
            if isinstance(e.slice, ast.Slice) and e.slice.step is not None:
                out |= frozenset(["reorder:slice-step"])
            elif isinstance(e.slice, ast.Name):  # boolean mask / fancy index
                out |= frozenset([f"index {e.slice.id}"])
            return out
        if isinstance(e, ast.Name):
            return sig.get(e.id, frozenset())
        return out

    def visit(stmts):
        for st in stmts:
            for c in ast.walk(st) if not isinstance(st, (ast.For, ast.While, ast.If, ast.With, ast.Try, ast.FunctionDef)) else [st.iter] if isinstance(st, ast.For) else ([st.test] if isinstance(st, (ast.If, ast.While)) else []):
                for z in ast.walk(c):
                    if isinstance(z, ast.Call) and isinstance(z.func, ast.Name) and z.func.id == "zip" and len(z.args) >= 2 and all(isinstance(a, ast.Name) for a in z.args):
                        sigs = {a.id: sig.get(a.id, frozenset()) for a in z.args}
                        # a zip that is itself the filter being applied (zip(seq, mask)) is not a pairing of data
                        yield z, sigs
            if isinstance(st, ast.Assign) and len(st.targets) == 1 and isinstance(st.targets[0], ast.Name):
                sig[st.targets[0].id] = sig_of_expr(st.value, st.targets[0].id)
            elif isinstance(st, ast.Expr) and isinstance(st.value, ast.Call) and isinstance(st.value.func, ast.Attribute) and st.value.func.attr in ("sort", "reverse") and isinstance(st.value.func.value, ast.Name):
                sig[st.value.func.value.id] = sig.get(st.value.func.value.id, frozenset()) | frozenset([f"reorder:{st.value.func.attr}"])
            for field in ("body", "orelse", "finalbody"):
                sub = getattr(st, field, None)
                if isinstance(sub, list) and not isinstance(st, (ast.FunctionDef, ast.AsyncFunctionDef, ast.ClassDef)):
                    yield from visit(sub)

    yield from visit(fn_node.body)


def dead_parameters(fn_node):
    """Parameters whose value cannot influence anything the function returns or does: they are read only by guards
    that merely raise / warn, by conditions whose branches do nothing that matters, or by assignments to names that are
    themselves never used (backward liveness closure over names; flow-insensitive, so it errs on the side of calling a
    parameter live)."""
    a = fn_node.args
    params = [x.arg for x in a.posonlyargs + a.args + a.kwonlyargs] + ([a.vararg.arg] if a.vararg else []) + ([a.kwarg.arg] if a.kwarg else [])

    def loads(e):
        return {n.id for n in ast.walk(e) if isinstance(n, ast.Name) and isinstance(n.ctx, ast.Load)}

    def is_notice(b):
        return isinstance(b, ast.Raise) or isinstance(b, ast.Pass) or (isinstance(b, ast.Expr) and isinstance(b.value, ast.Call) and getattr(b.value.func, "id", getattr(b.value.func, "attr", None)) in ("warn", "warning")) or (isinstance(b, ast.Expr) and isinstance(b.value, ast.Constant))

    live = set()

    def targets_of(st):
        tgts = st.targets if isinstance(st, ast.Assign) else [st.target]
        names, keys = set(), set()
        for t in tgts:
            for n in ast.walk(t):
                if isinstance(n, ast.Name):
                    (names if isinstance(n.ctx, ast.Store) else keys).add(n.id)
            if isinstance(t, (ast.Subscript, ast.Attribute)):
                root = t
                while isinstance(root, (ast.Subscript, ast.Attribute)):
                    root = root.value
                if isinstance(root, ast.Name):
                    names.add(root.id)
        return names, keys

    # names bound to (parts of) an argument: node = self.root; node = node.children[c]
    arg_alias = set(params)
    grew = True
    while grew:
        grew = False
        for st0 in ast.walk(fn_node):
            if isinstance(st0, ast.Assign) and len(st0.targets) == 1 and isinstance(st0.targets[0], ast.Name) and st0.targets[0].id not in arg_alias:
                root = st0.value
                while isinstance(root, (ast.Subscript, ast.Attribute)):
                    root = root.value
                if isinstance(root, ast.Name) and root.id in arg_alias and isinstance(st0.value, (ast.Subscript, ast.Attribute)):
                    arg_alias.add(st0.targets[0].id)
                    grew = True

    def stores_into_param(st):
        """x.attr = ... / x[k] = ... with x a parameter (self included): a mutation of an argument is an effect."""
        tgts = st.targets if isinstance(st, ast.Assign) else [st.target]
        for t in tgts:
            if isinstance(t, (ast.Subscript, ast.Attribute)):
                root = t
                while isinstance(root, (ast.Subscript, ast.Attribute)):
                    root = root.value
                if isinstance(root, ast.Name) and root.id in arg_alias:
                    return True
        return False

    def has_effect(stmts):
        for st in stmts:
            if isinstance(st, (ast.Return, ast.Continue, ast.Break, ast.Delete, ast.With, ast.AsyncWith, ast.Global, ast.Nonlocal)):
                return True
            if isinstance(st, ast.Expr) and not is_notice(st):
                return True
            if isinstance(st, (ast.Assign, ast.AugAssign, ast.AnnAssign)):
                if targets_of(st)[0] & live or stores_into_param(st):
                    return True
            if isinstance(st, (ast.If, ast.While)):
                if has_effect(st.body) or has_effect(st.orelse):
                    return True
            if isinstance(st, (ast.For, ast.AsyncFor)):
                if has_effect(st.body) or has_effect(st.orelse):
                    return True
            if isinstance(st, ast.Try):
                if has_effect(st.body) or any(has_effect(h.body) for h in st.handlers) or has_effect(st.orelse) or has_effect(st.finalbody):
                    return True
        return False

    def sweep(stmts):
        ch = False

        def add(names):
            nonlocal ch
            if not names <= live:
                live.update(names)
                ch = True

        for st in stmts:
            if isinstance(st, (ast.FunctionDef, ast.AsyncFunctionDef)):
                add(loads(st))  # a nested helper: everything it reads counts when it is called; be generous
            elif isinstance(st, ast.Return) and st.value is not None:
                add(loads(st.value))
            elif isinstance(st, ast.Expr) and not is_notice(st):
                add(loads(st.value))
            elif isinstance(st, ast.Delete):
                add(loads(st))
            elif isinstance(st, (ast.Assign, ast.AugAssign, ast.AnnAssign)) and st.value is not None:
                names, keys = targets_of(st)
                if names & live or stores_into_param(st):
                    add(loads(st.value) | keys | (names if isinstance(st, ast.AugAssign) else set()))
            elif isinstance(st, (ast.If, ast.While)):
                if has_effect(st.body) or has_effect(st.orelse):
                    add(loads(st.test))
                ch |= sweep(st.body) | sweep(st.orelse)
            elif isinstance(st, (ast.For, ast.AsyncFor)):
                tnames = {n.id for n in ast.walk(st.target) if isinstance(n, ast.Name)}
                if tnames & live or has_effect(st.body):
                    add(loads(st.iter))
                ch |= sweep(st.body) | sweep(st.orelse)
            elif isinstance(st, (ast.With, ast.AsyncWith)):
                for it in st.items:
                    add(loads(it.context_expr))
                ch |= sweep(st.body)
            elif isinstance(st, ast.Try):
                ch |= sweep(st.body)
                for h in st.handlers:
                    ch |= sweep(h.body)
                ch |= sweep(st.orelse) | sweep(st.finalbody)
        return ch

    while sweep(fn_node.body):
        pass
    return [p for p in params if p not in live and p not in ("self", "cls")]


def check_dead_params(res, prop, rule, fns, what):
    """Apply dead_parameters to a list of FunctionInfo; returns the number of functions examined."""
    from ..report import mk_finding

    n = 0
    for fn in fns:
        if fn.name.startswith("_") and not fn.name.startswith("__"):
            continue
        body = [b for b in fn.node.body if not (isinstance(b, ast.Expr) and isinstance(b.value, ast.Constant))]
        if not body or all(isinstance(b, (ast.Raise, ast.Pass)) for b in body):
            continue
        if fn.is_property() or not [p for p in fn.all_params if p not in ("self", "cls")]:
            continue
        n += 1
        dead = dead_parameters(fn.node)
        res.inst(rule, f"{fn.fq}: every parameter can influence {what}", not dead)
        for p in dead:
            res.add(mk_finding(prop, rule, fn, fn.node, f"{fn.qualname}: the parameter `{p}` cannot influence {what} (it is only checked, or stored in a name nothing reads); the documented effect of that argument is silently dropped", role=f"dead:{p}"))
    return n


def optional_number_truthiness(fn_node):
    """Boolean-context uses (`if p`, `p and ...`, `not p`, `p or d`, `x if p else y`) of a parameter that defaults to None
    and is used as a number elsewhere in the function (arithmetic, ordering comparison, range()).  Zero is a number too:
    such a test takes the `None` branch for an admissible 0."""
    a = fn_node.args
    params = a.posonlyargs + a.args + a.kwonlyargs
    defaults = [None] * (len(a.posonlyargs + a.args) - len(a.defaults)) + list(a.defaults) + list(a.kw_defaults)
    optional = {p.arg for p, d in zip(params, defaults) if isinstance(d, ast.Constant) and d.value is None}
    if not optional:
        return
    numeric = set()
    for n in ast.walk(fn_node):
        if isinstance(n, ast.BinOp) and isinstance(n.op, (ast.Add, ast.Sub, ast.Mult, ast.Pow, ast.FloorDiv, ast.Mod)):
            for side in (n.left, n.right):
                if isinstance(side, ast.Name) and side.id in optional:
                    numeric.add(side.id)
        if isinstance(n, ast.Compare) and any(isinstance(o, (ast.Lt, ast.LtE, ast.Gt, ast.GtE)) for o in n.ops):
            for side in [n.left] + list(n.comparators):
                if isinstance(side, ast.Name) and side.id in optional:
                    numeric.add(side.id)
        if isinstance(n, ast.Call) and getattr(n.func, "id", None) == "range":
            for x in n.args:
                if isinstance(x, ast.Name) and x.id in optional:
                    numeric.add(x.id)
    rebound = {t.id for n in ast.walk(fn_node) if isinstance(n, (ast.Assign, ast.AugAssign, ast.AnnAssign)) for tt in (n.targets if isinstance(n, ast.Assign) else [n.target]) for t in ast.walk(tt) if isinstance(t, ast.Name)}
    numeric -= rebound

    def is_p(e):
        return isinstance(e, ast.Name) and e.id in numeric

    for n in ast.walk(fn_node):
        if isinstance(n, (ast.If, ast.While, ast.IfExp)) and (is_p(n.test) or (isinstance(n.test, ast.UnaryOp) and isinstance(n.test.op, ast.Not) and is_p(n.test.operand))):
            yield n.test
        elif isinstance(n, ast.BoolOp) and any(is_p(v) or (isinstance(v, ast.UnaryOp) and isinstance(v.op, ast.Not) and is_p(v.operand)) for v in n.values):
            yield n


_UNORDERED_WORDS = ("members", "memberships", "_edge[", "_node[", "neighbors", "_id_dict[", "_bi_id_dict[")


def oriented_pairs_from_unordered(fn_node):
    """`for a, b in combinations(<member set>, 2)` whose two elements are recorded in different slots of an ordered
    literal (`[f(a), g(b)]`, `(a, b)`): which element comes first is the iteration order of the set - the hash order of
    the labels - so the recorded orientation changes under relabelling.  (permutations() yields both orientations;
    a product / frozenset / sum of the two is symmetric.)"""
    local = {}
    for st in ast.walk(fn_node):
        if isinstance(st, ast.Assign) and len(st.targets) == 1 and isinstance(st.targets[0], ast.Name):
            local.setdefault(st.targets[0].id, []).append(st.value)

    def unordered(e, depth=0):
        if isinstance(e, ast.Call) and getattr(e.func, "id", None) in ("sorted", "range", "enumerate"):
            return False
        if isinstance(e, ast.Call) and getattr(e.func, "id", None) in ("list", "tuple", "set", "frozenset", "iter") and e.args:
            return unordered(e.args[0], depth + 1)
        if isinstance(e, ast.Name) and e.id in local and len(local[e.id]) == 1 and depth < 3:
            return unordered(local[e.id][0], depth + 1)
        txt = unparse(e, 200)
        return any(w in txt for w in _UNORDERED_WORDS)

    def oriented(expr, a, b):
        for lit in ast.walk(expr):
            if isinstance(lit, (ast.List, ast.Tuple)) and len(lit.elts) >= 2:
                ia = [i for i, x in enumerate(lit.elts) if any(isinstance(n, ast.Name) and n.id == a for n in ast.walk(x))]
                ib = [i for i, x in enumerate(lit.elts) if any(isinstance(n, ast.Name) and n.id == b for n in ast.walk(x))]
                if ia and ib and not set(ia) & set(ib):
                    return lit
        return None

    def pair_target(t):
        return (t.elts[0].id, t.elts[1].id) if isinstance(t, (ast.Tuple, ast.List)) and len(t.elts) == 2 and all(isinstance(x, ast.Name) for x in t.elts) else None

    def is_comb2(it):
        return isinstance(it, ast.Call) and getattr(it.func, "id", getattr(it.func, "attr", None)) == "combinations" and len(it.args) == 2 and isinstance(it.args[1], ast.Constant) and it.args[1].value == 2 and unordered(it.args[0])

    for n in ast.walk(fn_node):
        if isinstance(n, (ast.ListComp, ast.SetComp, ast.GeneratorExp)):
            for g in n.generators:
                pt = pair_target(g.target)
                if pt and is_comb2(g.iter):
                    lit = oriented(n.elt, *pt)
                    if lit is not None:
                        yield lit
        elif isinstance(n, ast.For):
            pt = pair_target(n.target)
            if pt and is_comb2(n.iter):
                for st in n.body:
                    for c in ast.walk(st):
                        if isinstance(c, ast.Call) and getattr(c.func, "attr", None) in ("append", "add", "extend") and c.args:
                            lit = oriented(c.args[0], *pt)
                            if lit is not None:
                                # the opposite orientation recorded in the same body makes the pair symmetric
                                swapped = unparse(lit).replace(pt[0], "\\0").replace(pt[1], pt[0]).replace("\\0", pt[1])
                                if not any(unparse(x) == swapped for s2 in n.body for x in ast.walk(s2) if isinstance(x, (ast.List, ast.Tuple))):
                                    yield lit


def one_sided_key_domain(fn_node):
    """Two local maps A and B are filled key by key (possibly in different branches of one loop) and then read jointly
    - `A[k]` and `B[k]` - inside an iteration over the keys of A alone.  A key that only ever reached B is never
    visited: whatever was recorded under it is dropped.  Accepted: B is filled only where A is filled under the same
    key (same statement list), or the iteration runs over the union of the keys."""
    maps = {}
    for st in ast.walk(fn_node):
        if isinstance(st, ast.Assign) and len(st.targets) == 1 and isinstance(st.targets[0], ast.Name):
            v = st.value
            if (isinstance(v, ast.Dict) and not v.keys) or (isinstance(v, ast.Call) and getattr(v.func, "id", getattr(v.func, "attr", None)) in ("dict", "defaultdict", "OrderedDict") and not any(isinstance(a, (ast.Name, ast.Call)) and getattr(a, "id", "") not in ("list", "set", "dict", "int") for a in v.args[:1] if not isinstance(a, ast.Name) or a.id not in ("list", "set", "dict", "int", "tuple"))):
                maps[st.targets[0].id] = st
    if len(maps) < 2:
        return
    # fills: (map, key text, enclosing statement list id)
    fills = {m: [] for m in maps}

    def scan(body, chain=()):
        chain = chain + (id(body),)
        if any(isinstance(x, (ast.Continue, ast.Break)) for st0 in body for x in ast.walk(st0)):
            chain = chain + (("jump", id(body)),)  # a block with jumps vouches for nothing below it
        for st in body:
            here = set()
            for x in ast.walk(st) if not isinstance(st, (ast.If, ast.For, ast.While, ast.Try, ast.With)) else []:
                if isinstance(x, ast.Subscript) and isinstance(x.value, ast.Name) and x.value.id in maps and isinstance(x.ctx, ast.Store):
                    here.add((x.value.id, unparse(x.slice)))
                if isinstance(x, ast.Call) and isinstance(x.func, ast.Attribute) and x.func.attr in ("append", "add", "extend", "update", "insert") and isinstance(x.func.value, ast.Subscript) and isinstance(x.func.value.value, ast.Name) and x.func.value.value.id in maps:
                    here.add((x.func.value.value.id, unparse(x.func.value.slice)))  # A[k].append(...): creates the key of a defaultdict
                if isinstance(x, ast.Call) and isinstance(x.func, ast.Attribute) and x.func.attr == "setdefault" and isinstance(x.func.value, ast.Name) and x.func.value.id in maps and x.args:
                    here.add((x.func.value.id, unparse(x.args[0])))
            for m, k in here:
                fills[m].append((k, chain))
            for f in ("body", "orelse", "finalbody"):
                sub = getattr(st, f, None)
                if isinstance(sub, list) and sub and isinstance(sub[0], ast.stmt):
                    scan(sub, chain)
            for h in getattr(st, "handlers", []) or []:
                scan(h.body, chain)

    scan(fn_node.body)

    def keys_iter(it):
        """name of the map whose keys drive the iteration, and whether items() is used"""
        if isinstance(it, ast.Name) and it.id in maps:
            return it.id
        if isinstance(it, ast.Call) and isinstance(it.func, ast.Attribute) and it.func.attr in ("keys", "items") and isinstance(it.func.value, ast.Name) and it.func.value.id in maps and not it.args:
            return it.func.value.id
        if isinstance(it, ast.Call) and getattr(it.func, "id", None) in ("list", "sorted", "iter", "tuple") and it.args:
            return keys_iter(it.args[0])
        return None

    def key_var(target, it):
        if isinstance(target, ast.Name):
            return target.id
        if isinstance(target, (ast.Tuple, ast.List)) and target.elts and isinstance(target.elts[0], ast.Name) and isinstance(it, ast.Call) and getattr(it.func, "attr", None) == "items":
            return target.elts[0].id
        return None

    def co_filled(b, a):
        """every fill of b sits in a statement list that also fills a under the same key"""
        # ... or in an enclosing statement list of the same iteration (one without continue / break)
        def vouched(k, chain):
            for ka, ca in fills[a]:
                if ka == k and len(ca) <= len(chain) and chain[: len(ca)] == ca and not any(isinstance(c, tuple) for c in ca[-1:]):
                    return True
            return False
        return bool(fills[b]) and all(vouched(k, chain) for k, chain in fills[b])

    def judge(a, kv, region):
        for x in ast.walk(region):
            if isinstance(x, ast.Subscript) and isinstance(x.value, ast.Name) and x.value.id in maps and x.value.id != a and isinstance(x.slice, ast.Name) and x.slice.id == kv and isinstance(x.ctx, ast.Load):
                b = x.value.id
                if fills[b] and not co_filled(b, a):
                    return x
        return None

    for n in ast.walk(fn_node):
        if isinstance(n, (ast.ListComp, ast.SetComp, ast.GeneratorExp, ast.DictComp)):
            for g in n.generators:
                a = keys_iter(g.iter)
                kv = key_var(g.target, g.iter) if a else None
                if a and kv:
                    region = ast.Tuple(elts=([n.key, n.value] if isinstance(n, ast.DictComp) else [n.elt]) + list(g.ifs), ctx=ast.Load())
                    hit = judge(a, kv, region)
                    if hit is not None:
                        yield hit
        elif isinstance(n, ast.For):
            a = keys_iter(n.iter)
            kv = key_var(n.target, n.iter) if a else None
            if a and kv:
                for st in n.body:
                    hit = judge(a, kv, st)
                    if hit is not None:
                        yield hit
                        break


# ------------------------------------------------------------------------------------------ order provenance of index maps
def _order_source(e, local, depth=0):
    """Canonical description of the sequence whose iteration order `e` follows, or None when unknown.
    ('view', net, 'nodes'|'edges'), ('dict', name), ('sorted', <src>), ('name', n)"""
    if depth > 6 or e is None:
        return None
    if isinstance(e, ast.Call):
        nm = getattr(e.func, "attr", getattr(e.func, "id", None))
        if nm in ("list", "tuple", "iter", "asarray", "array", "fromiter", "enumerate", "stack", "vstack") and e.args:
            return _order_source(e.args[0], local, depth + 1)
        if nm == "sorted" and e.args:
            inner = _order_source(e.args[0], local, depth + 1)
            return ("sorted", inner, ast.dump(ast.Tuple(elts=[k.value for k in e.keywords], ctx=ast.Load())))
        if nm in ("keys", "values", "items") and isinstance(e.func, ast.Attribute) and not e.args:
            return _order_source(e.func.value, local, depth + 1)
        if nm in ("members", "memberships") and isinstance(e.func, ast.Attribute):
            return _order_source(e.func.value, local, depth + 1)
        return None
    if isinstance(e, (ast.ListComp, ast.GeneratorExp, ast.DictComp)) and len(e.generators) == 1 and not e.generators[0].ifs:
        return _order_source(e.generators[0].iter, local, depth + 1)
    if isinstance(e, ast.Attribute) and isinstance(e.value, ast.Name) and e.attr in ("nodes", "edges", "_node", "_edge"):
        return ("view", e.value.id, "nodes" if e.attr in ("nodes", "_node") else "edges")
    if isinstance(e, ast.Name):
        defs = local.get(e.id)
        if defs and len(defs) == 1:
            inner = _order_source(defs[0], local, depth + 1)
            if inner is not None:
                return inner
        if defs:
            return None
        return ("name", e.id)
    return None


def order_mismatch_sites(fn_node):
    """`S[M[k]]` / `S[[M[k] for k in ...]]` where M numbers one sequence (M = {x: i for i, x in enumerate(A)},
    dict(zip(A, range(n)))) and S lists the elements of another (S = np.asarray(list(B.values())), [f(x) for x in B]):
    position i of S then belongs to the i-th element of B, not of A.  Yields (node, A, B) when both orders are known and
    differ; unknown provenance is never reported."""
    local = {}
    for st in ast.walk(fn_node):
        if isinstance(st, ast.Assign) and len(st.targets) == 1 and isinstance(st.targets[0], ast.Name):
            local.setdefault(st.targets[0].id, []).append(st.value)
    maps, seqs = {}, {}
    for name, defs in local.items():
        if len(defs) != 1:
            continue
        v = defs[0]
        # position maps
        if isinstance(v, ast.DictComp) and len(v.generators) == 1:
            g = v.generators[0]
            if isinstance(g.iter, ast.Call) and getattr(g.iter.func, "id", None) == "enumerate" and isinstance(g.target, ast.Tuple) and len(g.target.elts) == 2 and all(isinstance(x, ast.Name) for x in g.target.elts):
                i, x = g.target.elts[0].id, g.target.elts[1].id
                if isinstance(v.key, ast.Name) and v.key.id == x and isinstance(v.value, ast.Name) and v.value.id == i and not g.ifs:
                    src = _order_source(g.iter.args[0], local)
                    if src is not None:
                        maps[name] = src
        if isinstance(v, ast.Call) and getattr(v.func, "id", None) == "dict" and len(v.args) == 1 and isinstance(v.args[0], ast.Call) and getattr(v.args[0].func, "id", None) == "zip" and len(v.args[0].args) == 2:
            a, b = v.args[0].args
            if isinstance(b, ast.Call) and getattr(b.func, "id", getattr(b.func, "attr", None)) in ("range", "count", "arange"):
                src = _order_source(a, local)
                if src is not None:
                    maps[name] = src
        # positional sequences listing the elements of something
        if isinstance(v, (ast.ListComp,)) or (isinstance(v, ast.Call) and getattr(v.func, "attr", getattr(v.func, "id", None)) in ("list", "asarray", "array", "tuple", "stack", "vstack")):
            src = _order_source(v, local)
            if src is not None:
                seqs[name] = src
    if not maps or not seqs:
        return
    for n in ast.walk(fn_node):
        if isinstance(n, ast.Subscript) and isinstance(n.value, ast.Name) and n.value.id in seqs:
            used = None
            for x in ast.walk(n.slice):
                if isinstance(x, ast.Subscript) and isinstance(x.value, ast.Name) and x.value.id in maps:
                    used = x.value.id
                    break
            if used is None:
                continue
            a, b = maps[used], seqs[n.value.id]
            if a != b:
                yield n, a, b


ORDER_POSITIVE = "def edge_pos(H, node_pos):\n    node_idx = {n: i for i, n in enumerate(H.nodes)}\n    xy = np.asarray(list(node_pos.values()))\n    return {e: xy[[node_idx[n] for n in m]].mean(axis=0) for e, m in H.edges.members(dtype=dict).items()}\n"


def order_mismatch_nodes(fn_node):
    for n, a, b in order_mismatch_sites(fn_node):
        n._order_pair = (a, b)
        yield n


def describe_order_mismatch(n):
    a, b = getattr(n, "_order_pair", (None, None))
    return f"`{unparse(n, 60)}` looks positions up in a map that numbers {describe_order(a)} and uses them to index a sequence that lists {describe_order(b)}; position i of the sequence belongs to the i-th element of {describe_order(b)}, so whenever the two orders differ (a position dict built in another order, a sub-network) every element is given another element's value"


def describe_order(o):
    if o is None:
        return "?"
    if o[0] == "view":
        return f"{o[1]}.{o[2]}"
    if o[0] == "sorted":
        return f"sorted({describe_order(o[1])})"
    return o[1] if len(o) > 1 else str(o)


# ------------------------------------------------------------------------------------------ statement-helper inlining
def inline_stmt_helpers(repo, fn, depth=2):
    """A copy of fn's def in which every statement-level call `_helper(a, b, k=c)` of a private function of the same
    module that returns nothing is replaced by the helper's body, parameters substituted by the argument expressions
    (defaults filled) and `if <param>` tests on constant arguments decided.  Rules that read a function's loops and
    guards then see through helpers such as `_link_members(G, H.edges.tail(e), idx, node_dict, to_edge=False)`.
    Helpers that assign to a parameter, contain `return <value>` or take * / ** arguments are left as calls."""
    import copy as _copy

    from ..model import FunctionInfo

    mod = fn.module

    def helper_of(call):
        if not isinstance(call.func, ast.Name):
            return None
        h = mod.functions.get(call.func.id)
        if h is None or not h.name.startswith("_") or h is fn:
            return None
        a = h.node.args
        if a.vararg or a.kwarg or any(isinstance(x, ast.Starred) for x in call.args) or any(k.arg is None for k in call.keywords):
            return None
        if any(isinstance(x, ast.Return) and x.value is not None for x in ast.walk(h.node)) or any(isinstance(x, (ast.Yield, ast.YieldFrom)) for x in ast.walk(h.node)):
            return None
        params = [x.arg for x in a.posonlyargs + a.args + a.kwonlyargs]
        stores = {x.id for x in ast.walk(h.node) if isinstance(x, ast.Name) and isinstance(x.ctx, (ast.Store, ast.Del))}
        if stores & set(params):
            return None
        pos = [x.arg for x in a.posonlyargs + a.args]
        binding = {}
        for p_, v in zip(pos, call.args):
            binding[p_] = v
        for k in call.keywords:
            binding[k.arg] = k.value
        dflt = dict(zip(reversed(pos), reversed(a.defaults)))
        dflt.update({x.arg: d for x, d in zip(a.kwonlyargs, a.kw_defaults) if d is not None})
        for p_ in params:
            if p_ not in binding:
                if p_ not in dflt:
                    return None
                binding[p_] = dflt[p_]
        return h, binding, stores

    def fold(stmts):
        out = []
        for st in stmts:
            if isinstance(st, ast.If):
                t = st.test
                neg = False
                while isinstance(t, ast.UnaryOp) and isinstance(t.op, ast.Not):
                    t, neg = t.operand, not neg
                if isinstance(t, ast.Constant) and isinstance(t.value, (bool, type(None), int)):
                    taken = bool(t.value) != neg
                    out.extend(fold(st.body if taken else st.orelse))
                    continue
                st.body, st.orelse = fold(st.body), fold(st.orelse)
            else:
                for f_ in ("body", "orelse", "finalbody"):
                    sub = getattr(st, f_, None)
                    if isinstance(sub, list) and not isinstance(st, (ast.FunctionDef, ast.AsyncFunctionDef, ast.ClassDef)):
                        setattr(st, f_, fold(sub))
            out.append(st)
        return out

    counter = [0]

    def rewrite(stmts, level):
        out = []
        for st in stmts:
            if isinstance(st, ast.Expr) and isinstance(st.value, ast.Call) and level < depth:
                hit = helper_of(st.value)
                if hit is not None:
                    h, binding, stores = hit
                    counter[0] += 1
                    ren = {n: f"{n}__h{counter[0]}" for n in stores}

                    class Sub(ast.NodeTransformer):
                        def visit_Name(self, n):
                            if n.id in binding and isinstance(n.ctx, ast.Load):
                                return ast.copy_location(_copy.deepcopy(binding[n.id]), n)
                            if n.id in ren:
                                return ast.copy_location(ast.Name(id=ren[n.id], ctx=n.ctx), n)
                            return n

                    body = [b for b in h.node.body if not (isinstance(b, ast.Expr) and isinstance(b.value, ast.Constant))]
                    body = [b for b in body if not (isinstance(b, ast.Return) and b.value is None)]
                    body = [Sub().visit(_copy.deepcopy(b)) for b in body]
                    body = fold(body)
                    for b in body:
                        for x in ast.walk(b):
                            if hasattr(x, "lineno"):
                                x.lineno = st.lineno
                                x.end_lineno = getattr(st, "end_lineno", st.lineno)
                        ast.fix_missing_locations(b)
                    out.extend(rewrite(body, level + 1))
                    continue
            for f_ in ("body", "orelse", "finalbody"):
                sub = getattr(st, f_, None)
                if isinstance(sub, list) and not isinstance(st, (ast.FunctionDef, ast.AsyncFunctionDef, ast.ClassDef)):
                    setattr(st, f_, rewrite(sub, level))
            for h_ in getattr(st, "handlers", []) or []:
                h_.body = rewrite(h_.body, level)
            out.append(st)
        return out

    node = _copy.deepcopy(fn.node)
    node.body = rewrite(node.body, 0)
    if counter[0] == 0:
        return fn
    return FunctionInfo(fn.module, fn.name, fn.qualname, node, fn.cls, fn.parent)


def optional_id_truthiness(fn_node):
    """Boolean-context uses of a parameter that defaults to None and is used as a *key of a network table* (an edge or
    node ID handed in by the caller): 0, 0.0 and "" are admissible IDs, a truthiness test treats them as "no ID given"."""
    a = fn_node.args
    params = a.posonlyargs + a.args + a.kwonlyargs
    defaults = [None] * (len(a.posonlyargs + a.args) - len(a.defaults)) + list(a.defaults) + list(a.kw_defaults)
    optional = {p.arg for p, d in zip(params, defaults) if isinstance(d, ast.Constant) and d.value is None}
    if not optional:
        return
    local = {}
    for st in ast.walk(fn_node):
        if isinstance(st, ast.Assign) and len(st.targets) == 1 and isinstance(st.targets[0], ast.Name):
            local.setdefault(st.targets[0].id, []).append(st.value)
    ids = set()
    for n in ast.walk(fn_node):
        if isinstance(n, ast.Subscript) and isinstance(n.value, ast.Attribute) and n.value.attr in ("_edge", "_node", "_edge_attr", "_node_attr") and isinstance(n.slice, ast.Name):
            k = n.slice.id
            if k in optional:
                ids.add(k)
            for v in local.get(k, []):
                for x in ast.walk(v):
                    if isinstance(x, ast.Name) and x.id in optional:
                        ids.add(x.id)
        if isinstance(n, ast.Call) and getattr(n.func, "id", None) == "update_uid_counter":
            for x in n.args[1:]:
                if isinstance(x, ast.Name) and x.id in optional:
                    ids.add(x.id)

    def is_p(e):
        return isinstance(e, ast.Name) and e.id in ids

    for n in ast.walk(fn_node):
        if isinstance(n, (ast.If, ast.While, ast.IfExp)) and (is_p(n.test) or (isinstance(n.test, ast.UnaryOp) and isinstance(n.test.op, ast.Not) and is_p(n.test.operand))):
            yield n.test
        elif isinstance(n, ast.BoolOp) and any(is_p(v) or (isinstance(v, ast.UnaryOp) and isinstance(v.op, ast.Not) and is_p(v.operand)) for v in n.values):
            yield n
