"""C19 - Derived networks satisfy their set-theoretic definitions (NARROW: sequencing of cleanup and relabelling).

Q-ORDER  in each cleanup method the relabelling step comes last (no removing / merging step can run after it) and the removal
         of singleton edges is never preceded by the removal of isolated nodes (removing singletons creates isolates).
         Merging duplicates and the largest-component step commute with the rest and may be reordered freely.
Q-FLAG   each step is guarded by exactly its own flag with the documented polarity
         (not multiedges / not singletons / not isolates / connected / relabel).
Q-COPY   with in_place=False every step acts on a copy and that copy is returned; with in_place=True the receiver is.
Q-LABEL  convert_labels_to_integers builds both maps as dict(zip(view, range(n))) before anything is modified, re-adds nodes
         and edges through them, and records the old label of every node and edge after re-inserting them.
Q-SUB    subhypergraph freezes what it returns (shared with C18).
The set-theoretic content of subhypergraph / dual / << / complement / k_skeleton / ... is NOT decided.
"""
from __future__ import annotations

import ast

from ..cfg import CFG, ENTRY, EXIT, own_nodes, own_statements
from ..model import CORE_CLASSES, AnalysisError
from ..report import Result, mk_finding
from .common import dominating_calls, returns_of, unparse

PROP = "C19"
FLAG_OF = {"merge": ("multiedges", False), "singletons": ("singletons", False), "isolates": ("isolates", False), "component": ("connected", True), "relabel": ("relabel", True)}


def classify(call):
    """Which cleanup step does this call perform?"""
    name = getattr(call.func, "attr", getattr(call.func, "id", None))
    if name == "merge_duplicate_edges":
        return "merge"
    if name == "largest_connected_hypergraph":
        return "component"
    if name == "convert_labels_to_integers":
        return "relabel"
    if name in ("remove_edges_from", "remove_simplex_ids_from") and call.args:
        txt = unparse(call.args[0], 200)
        if "singletons" in txt or ("filterby" in txt and "size" in txt) or _selects_by_len(call.args[0], 1):
            return "singletons"
        return "unclassified"
    if name == "remove_nodes_from" and call.args:
        txt = unparse(call.args[0], 200)
        if "isolates" in txt or ("filterby" in txt and "degree" in txt) or _selects_by_len(call.args[0], 0):
            return "isolates"
        return "unclassified"
    return None


def _selects_by_len(arg, n):
    """a comprehension that keeps the IDs whose stored set has n elements: `[e for e, m in T.items() if len(m) == n]`
    (also `< n + 1`, `<= n`, and for n == 0 `not m`)"""
    if not isinstance(arg, (ast.ListComp, ast.SetComp, ast.GeneratorExp)) or len(arg.generators) != 1:
        return False
    for t in arg.generators[0].ifs:
        if n == 0 and isinstance(t, ast.UnaryOp) and isinstance(t.op, ast.Not) and isinstance(t.operand, (ast.Name, ast.Subscript)):
            return True
        if isinstance(t, ast.Compare) and len(t.ops) == 1 and isinstance(t.left, ast.Call) and getattr(t.left.func, "id", None) == "len" and isinstance(t.comparators[0], ast.Constant):
            c, op = t.comparators[0].value, t.ops[0]
            if (isinstance(op, ast.Eq) and c == n) or (isinstance(op, ast.Lt) and c == n + 1) or (isinstance(op, ast.LtE) and c == n and n >= 0):
                return True
    return False


def run(ctx):
    repo = ctx.repo
    res = Result(PROP)
    res.rules = ["Q-ORDER", "Q-FLAG", "Q-COPY", "Q-LABEL", "Q-SUB", "Q-UNION", "Q-DUAL", "Q-COMPL", "Q-LCC", "Q-MAX"]
    res.explanation = (
        "Narrow claim: the cleanup methods of the three classes are conjunctions of steps whose guarantees hold only in one "
        "order; steps are identified at their call sites, their mutual order is decided by reachability on the CFG, their "
        "guards are compared with the documented flags, and the relabelling helper is checked for the order of its own "
        "phases. Which nodes/edges the derived networks contain is not decided."
    )
    n = 0
    for cname in CORE_CLASSES:
        ci = repo.get_class(cname)
        m = ci.methods.get("cleanup")
        if m is None:
            if cname == "Hypergraph":
                raise AnalysisError("Hypergraph.cleanup not found (anchor vanished)")
            m = repo.find_method(ci, "cleanup")
            if m is None or m.cls is not ci:
                continue
        n += 1
        check_cleanup(repo, res, m, cname)
    res.floor("cleanup methods", n, 3)
    check_relabel(repo, res)
    check_union_dual(repo, res)
    check_complement(repo, res)
    check_lcc(repo, res)
    check_max_simplices(repo, res)
    gv = repo.modules.get("xgi.core.globalviews")
    sub = gv.functions.get("subhypergraph") if gv else None
    if sub is None:
        raise AnalysisError("subhypergraph not found (anchor vanished)")
    for r in returns_of(sub.node):
        ok = isinstance(r.value, ast.Name) and dominating_calls(sub.node, r, r.value.id, "freeze")
        res.inst("Q-SUB", f"subhypergraph return at line {r.lineno} is dominated by freeze()", ok)
        if not ok:
            res.add(mk_finding(PROP, "Q-SUB", sub, r, "subhypergraph returns a network on which freeze() was not called on every path", role="freeze"))
    # "no selection" is None, never emptiness: an empty list of nodes/edges selects nothing
    from .common import pattern_lint

    sel_fns = [f for f in list(gv.functions.values())]
    pattern_lint(res, PROP, "Q-SUB", sel_fns, truthy_default_sites,
                 "def _sel(H, nodes=None):\n    return set(H.nodes).intersection(nodes or H.nodes)\n",
                 lambda nd: f"`{unparse(nd, 60)}` decides by truthiness whether a selection was given; an empty selection (an empty list, or an empty view such as the result of a filter) is then treated as 'everything' instead of 'nothing'",
                 "optional selections defaulted through truthiness")
    return res


PARTIAL_FACE_PRODUCERS = {"_subfaces": "faces of size >= 2 only", "subfaces": "faces of one order or down to order 1 only", "combinations": "one size only"}


def check_max_simplices(repo, res):
    """Q-MAX: from_max_simplices keeps exactly the maximal simplices.  Either it asks the edge view (`.maximal()`), or -
    if it decides maximality itself by "is not a face of another simplex" - the collection of faces it tests against must
    hold faces of every size: the face producers of this package leave singletons out (`_subfaces`: size >= 2;
    `powerset(..., include_singletons=False)`), so a stored singleton next to a larger simplex would count as maximal."""
    mod = repo.modules.get("xgi.convert.simplex")
    fn = mod.functions.get("from_max_simplices") if mod else None
    if fn is None:
        raise AnalysisError("from_max_simplices not found (anchor vanished)")
    uses_maximal = any(isinstance(c, ast.Call) and getattr(c.func, "attr", None) == "maximal" for c in ast.walk(fn.node))
    partial = []
    for c in ast.walk(fn.node):
        if isinstance(c, ast.Call):
            nm = getattr(c.func, "attr", getattr(c.func, "id", None))
            if nm in PARTIAL_FACE_PRODUCERS:
                partial.append((c, PARTIAL_FACE_PRODUCERS[nm]))
            if nm == "powerset" and not any(k.arg == "include_singletons" and isinstance(k.value, ast.Constant) and k.value.value is True for k in c.keywords):
                partial.append((c, "singletons left out unless include_singletons=True"))
    negative = [t for t in ast.walk(fn.node) if isinstance(t, ast.Compare) and any(isinstance(o, ast.NotIn) for o in t.ops)]
    if uses_maximal and not partial:
        res.inst("Q-MAX", "from_max_simplices takes the maximal simplices from the edge view (.maximal())", True)
        return
    if not uses_maximal and not partial:
        raise AnalysisError("from_max_simplices: neither .maximal() nor a recognisable face enumeration (extractor does not recognise the code)")
    ok = not negative
    res.inst("Q-MAX", "from_max_simplices does not decide maximality against a partial face enumeration", ok)
    if not ok:
        c, why = partial[0]
        res.add(mk_finding(PROP, "Q-MAX", fn, negative[0], f"from_max_simplices decides that a simplex is maximal by `{unparse(negative[0], 40)}` against faces produced by `{unparse(c, 40)}` ({why}); a stored singleton that lies inside a larger simplex is never among those faces and is returned as if it were maximal", role="faces"))


def check_lcc(repo, res):
    """Q-LCC: largest_connected_hypergraph selects ONE component (max(..., key=len) / largest_connected_component) and
    both of its modes are defined by that very object: the copy is subhypergraph(H, nodes=<it>), the in-place mode
    removes exactly the nodes outside <it>.  A removal decided by anything else (sizes, positions in a list of
    components) keeps or drops other components when sizes tie."""
    mod = repo.modules.get("xgi.algorithms.connected")
    fn = mod.functions.get("largest_connected_hypergraph") if mod else None
    if fn is None:
        raise AnalysisError("largest_connected_hypergraph not found (anchor vanished)")
    once = {}
    for st in own_statements(fn.node):
        if isinstance(st, ast.Assign) and len(st.targets) == 1 and isinstance(st.targets[0], ast.Name):
            once.setdefault(st.targets[0].id, []).append(st.value)

    def is_selection(e):
        if isinstance(e, ast.Call):
            nm = getattr(e.func, "attr", getattr(e.func, "id", None))
            if nm == "max" and any(k.arg == "key" and getattr(k.value, "id", None) == "len" for k in e.keywords):
                return True
            if nm == "largest_connected_component":
                return True
        return False

    sel = [k for k, v in once.items() if len(v) == 1 and is_selection(v[0])]
    if len(sel) != 1:
        raise AnalysisError("largest_connected_hypergraph: the selected component (max(..., key=len)) is not bound to one local name (extractor does not recognise the code)")
    C = sel[0]
    hname = fn.params[0]

    def deref(e, depth=0):
        while isinstance(e, ast.Name) and e.id in once and len(once[e.id]) == 1 and e.id != C and depth < 4:
            e = once[e.id][0]
            depth += 1
        return e

    def all_nodes(e):
        e = deref(e)
        if isinstance(e, ast.Attribute) and e.attr in ("nodes", "_node") and isinstance(e.value, ast.Name) and e.value.id == hname:
            return True
        if isinstance(e, ast.Call) and getattr(e.func, "id", None) in ("set", "list", "frozenset", "tuple") and len(e.args) == 1:
            return all_nodes(e.args[0])
        return False

    def is_C(e):
        e2 = e
        if isinstance(e2, ast.Call) and getattr(e2.func, "id", None) in ("set", "frozenset", "list") and len(e2.args) == 1:
            e2 = e2.args[0]
        return isinstance(e2, ast.Name) and e2.id == C

    def complement_of_C(e):
        e = deref(e)
        if isinstance(e, ast.Call) and getattr(e.func, "attr", None) == "difference" and len(e.args) == 1 and all_nodes(e.func.value) and is_C(e.args[0]):
            return True
        if isinstance(e, ast.BinOp) and isinstance(e.op, ast.Sub) and all_nodes(e.left) and is_C(e.right):
            return True
        if isinstance(e, (ast.ListComp, ast.SetComp, ast.GeneratorExp)) and len(e.generators) == 1 and all_nodes(e.generators[0].iter) and isinstance(e.elt, ast.Name) and isinstance(e.generators[0].target, ast.Name) and e.elt.id == e.generators[0].target.id:
            ifs = e.generators[0].ifs
            if len(ifs) == 1 and isinstance(ifs[0], ast.Compare) and len(ifs[0].ops) == 1 and isinstance(ifs[0].ops[0], ast.NotIn) and isinstance(ifs[0].left, ast.Name) and ifs[0].left.id == e.elt.id and is_C(ifs[0].comparators[0]):
                return True
        if isinstance(e, ast.Call) and getattr(e.func, "id", None) in ("set", "list", "tuple", "sorted") and len(e.args) == 1:
            return complement_of_C(e.args[0])
        return False

    par = {}
    for nd in ast.walk(fn.node):
        for ch in ast.iter_child_nodes(nd):
            par[ch] = nd
    n_rm = n_sub = 0
    for c in ast.walk(fn.node):
        if not isinstance(c, ast.Call):
            continue
        nm = getattr(c.func, "attr", getattr(c.func, "id", None))
        if nm == "subhypergraph":
            n_sub += 1
            arg = next((k.value for k in c.keywords if k.arg == "nodes"), c.args[1] if len(c.args) > 1 else None)
            ok = arg is not None and is_C(arg) and not any(k.arg == "edges" for k in c.keywords) and len(c.args) <= 2
            res.inst("Q-LCC", f"largest_connected_hypergraph:{c.lineno} the copy is the sub-network induced by the selected component", ok)
            if not ok:
                res.add(mk_finding(PROP, "Q-LCC", fn, c, f"largest_connected_hypergraph: `{unparse(c, 60)}` is not subhypergraph(H, nodes=<the selected component>)", role="copy"))
        if nm in ("remove_nodes_from", "remove_node") and c.args:
            n_rm += 1
            ok = nm == "remove_nodes_from" and complement_of_C(c.args[0])
            if not ok:
                # element-wise or component-wise removal under a guard that refers to the selected component itself
                guards = []
                q = c
                loops = []
                while q in par:
                    prev, q = q, par[q]
                    if isinstance(q, ast.If) and prev is not q.test:
                        guards.append((q.test, prev in q.body))
                    if isinstance(q, ast.For):
                        loops.append(q)
                a = c.args[0]
                for t, br in guards:
                    if isinstance(t, ast.Compare) and len(t.ops) == 1 and isinstance(t.left, ast.Name) and isinstance(a, ast.Name) and t.left.id == a.id and is_C(t.comparators[0]):
                        op = t.ops[0]
                        if nm == "remove_node" and ((isinstance(op, ast.NotIn) and br) or (isinstance(op, ast.In) and not br)) and any(all_nodes(lp.iter) for lp in loops):
                            ok = True
                        if nm == "remove_nodes_from" and ((isinstance(op, (ast.IsNot, ast.NotEq)) and br) or (isinstance(op, (ast.Is, ast.Eq)) and not br)):
                            ok = True
            res.inst("Q-LCC", f"largest_connected_hypergraph:{c.lineno} the in-place mode removes exactly the nodes outside the selected component", ok)
            if not ok:
                res.add(mk_finding(PROP, "Q-LCC", fn, c, f"largest_connected_hypergraph: `{unparse(c, 60)}` does not remove the complement of the selected component `{C}` (it is not `all nodes - {C}`, nor guarded by membership in / identity with `{C}`); when several components tie for the largest size the in-place result keeps more than one of them, is not connected, and differs from the copy mode", role="in_place"))
    if n_rm < 1 or n_sub < 1:
        raise AnalysisError("largest_connected_hypergraph: copy / in-place steps not found (extractor does not recognise the code)")


def truthy_default_sites(fn_node):
    """`p or <default>`, `<x> if p else <default>`, `if not p: p = <default>` for a parameter p whose default is None."""
    a = fn_node.args
    params = [x.arg for x in a.posonlyargs + a.args + a.kwonlyargs]
    defaults = [None] * (len(a.posonlyargs + a.args) - len(a.defaults)) + list(a.defaults) + list(a.kw_defaults)
    none_params = {p for p, d in zip(params, defaults) if isinstance(d, ast.Constant) and d.value is None}
    for n in ast.walk(fn_node):
        if isinstance(n, ast.BoolOp) and isinstance(n.op, ast.Or) and isinstance(n.values[0], ast.Name) and n.values[0].id in none_params:
            yield n
        if isinstance(n, ast.IfExp):
            t = n.test.operand if isinstance(n.test, ast.UnaryOp) and isinstance(n.test.op, ast.Not) else n.test
            if isinstance(t, ast.Name) and t.id in none_params:
                yield n
        if isinstance(n, ast.If):
            t = n.test.operand if isinstance(n.test, ast.UnaryOp) and isinstance(n.test.op, ast.Not) else n.test
            if isinstance(t, ast.Name) and t.id in none_params and any(isinstance(b, ast.Assign) and any(isinstance(x, ast.Name) and x.id == t.id for x in b.targets) for b in n.body + n.orelse):
                yield n


def check_cleanup(repo, res, m, cname, prop=None):
    prop = prop or PROP
    selfn = m.params[0]
    cfg = CFG(m.node)
    steps = {}
    par = {}
    for p in ast.walk(m.node):
        for ch in ast.iter_child_nodes(p):
            par[ch] = p
    for st in own_statements(m.node):
        for c in own_nodes(st):
            if isinstance(c, ast.Call):
                k = classify(c)
                if k == "unclassified":
                    raise AnalysisError(f"{m.qualname}:{c.lineno}: cannot tell which cleanup step `{unparse(c, 60)}` performs (extractor does not recognise the code)")
                if k:
                    steps.setdefault(k, []).append((st, c))
    if "relabel" not in steps:
        raise AnalysisError(f"{m.qualname}: relabelling step not found (extractor does not recognise the code)")
    # ---- Q-ORDER
    removing = [s for k in ("merge", "singletons", "isolates", "component") for s, _ in steps.get(k, [])]
    for rs, _ in steps["relabel"]:
        after = cfg.reachable(rs)
        late = [s for s in removing if s in after]
        ok = not late
        res.inst("Q-ORDER", f"{m.qualname}: relabelling is the last step", ok)
        if not ok:
            res.add(mk_finding(prop, "Q-ORDER", m, late[0], f"{m.qualname}: `{unparse(late[0], 60)}` can run after the labels were converted to 0..n-1; removing or merging afterwards leaves gaps in the labels", role="relabel-last"))
    for is_, _ in steps.get("isolates", []):
        after = cfg.reachable(is_)
        late = [s for s, _ in steps.get("singletons", []) if s in after]
        ok = not late
        res.inst("Q-ORDER", f"{m.qualname}: singleton edges are removed before isolated nodes", ok)
        if not ok:
            res.add(mk_finding(prop, "Q-ORDER", m, late[0], f"{m.qualname}: singleton edges are removed after the isolated nodes; a node that was only in singleton edges becomes isolated and is never removed (with connected=False)", role="singletons-first"))
    # ---- Q-FLAG
    for kind, lst in steps.items():
        flag, positive = FLAG_OF[kind]
        if flag not in m.all_params:
            res.info.append({"Q-FLAG": f"{m.qualname} has no `{flag}` option; step {kind} present"})
            continue
        for st, c in lst:
            p = st
            guard = None
            while p in par:
                child, p = p, par[p]
                if isinstance(p, ast.If):
                    in_body = any(child is s for s in p.body)
                    guard = (p.test, in_body)
                    break
            ok = False
            if guard is not None:
                t, in_body = guard
                if positive and isinstance(t, ast.Name) and t.id == flag and in_body:
                    ok = True
                if not positive and isinstance(t, ast.UnaryOp) and isinstance(t.op, ast.Not) and isinstance(t.operand, ast.Name) and t.operand.id == flag and in_body:
                    ok = True
                if not positive and isinstance(t, ast.Name) and t.id == flag and not in_body:
                    ok = True
            res.inst("Q-FLAG", f"{m.qualname}: step {kind} is guarded by `{'' if positive else 'not '}{flag}`", ok)
            if not ok:
                res.add(mk_finding(prop, "Q-FLAG", m, st, f"{m.qualname}: the {kind} step is not guarded by exactly `{'' if positive else 'not '}{flag}` (found `{unparse(guard[0], 40) if guard else 'no guard'}`); the flag's documented meaning is inverted or ignored", role=flag))
    for flag in ("multiedges", "singletons", "isolates", "connected", "relabel"):
        if flag in m.all_params:
            kind = next(k for k, v in FLAG_OF.items() if v[0] == flag)
            ok = kind in steps
            res.inst("Q-FLAG", f"{m.qualname}: option `{flag}` has a step", ok)
            if not ok:
                res.add(mk_finding(prop, "Q-FLAG", m, m.node, f"{m.qualname} accepts `{flag}` but performs no corresponding step", role=flag))
    # ---- Q-COPY
    work = None
    for st in own_statements(m.node):
        if isinstance(st, ast.If) and isinstance(st.test, ast.Name) and st.test.id == "in_place":
            b = [s for s in st.body if isinstance(s, ast.Assign)]
            o = [s for s in st.orelse if isinstance(s, ast.Assign)]
            if b and o and isinstance(b[0].value, ast.Name) and b[0].value.id == selfn and isinstance(o[0].value, ast.Call) and getattr(o[0].value.func, "attr", None) == "copy" and isinstance(o[0].value.func.value, ast.Name) and o[0].value.func.value.id == selfn:
                work = b[0].targets[0].id
        if isinstance(st, ast.If) and isinstance(st.test, ast.UnaryOp) and isinstance(st.test.operand, ast.Name) and st.test.operand.id == "in_place":
            b = [s for s in st.body if isinstance(s, ast.Assign)]
            o = [s for s in st.orelse if isinstance(s, ast.Assign)]
            if b and o and isinstance(o[0].value, ast.Name) and o[0].value.id == selfn and isinstance(b[0].value, ast.Call) and getattr(b[0].value.func, "attr", None) == "copy":
                work = b[0].targets[0].id
    if work is None:
        # conditional-expression form:  _H = self if in_place else self.copy()
        for st in own_statements(m.node):
            if isinstance(st, ast.Assign) and isinstance(st.targets[0], ast.Name) and isinstance(st.value, ast.IfExp):
                v = st.value
                def is_self(e):
                    return isinstance(e, ast.Name) and e.id == selfn
                def is_copy(e):
                    return isinstance(e, ast.Call) and getattr(e.func, "attr", None) == "copy" and isinstance(e.func.value, ast.Name) and e.func.value.id == selfn
                t = v.test
                if isinstance(t, ast.Name) and t.id == "in_place" and is_self(v.body) and is_copy(v.orelse):
                    work = st.targets[0].id
                if isinstance(t, ast.UnaryOp) and isinstance(t.op, ast.Not) and isinstance(t.operand, ast.Name) and t.operand.id == "in_place" and is_copy(v.body) and is_self(v.orelse):
                    work = st.targets[0].id
    ok = work is not None
    res.inst("Q-COPY", f"{m.qualname}: works on self when in_place else on self.copy()", ok)
    if not ok:
        res.add(mk_finding(prop, "Q-COPY", m, m.node, f"{m.qualname} does not select `self` for in_place=True and `self.copy()` for in_place=False", role="select"))
        return
    for kind, lst in steps.items():
        for st, c in lst:
            recv = c.func.value if isinstance(c.func, ast.Attribute) else (c.args[0] if c.args else None)
            ok = isinstance(recv, ast.Name) and recv.id == work
            arg_ok = all(not (isinstance(x, ast.Name) and x.id == selfn) for a in c.args for x in ast.walk(a))
            res.inst("Q-COPY", f"{m.qualname}: step {kind} acts on `{work}`", ok and arg_ok)
            if not (ok and arg_ok):
                res.add(mk_finding(prop, "Q-COPY", m, st, f"{m.qualname}: the {kind} step acts on (or selects from) `{selfn}` instead of the working network `{work}`; with in_place=False the receiver is modified or the wrong elements are removed", role=kind))
            if kind in ("component", "relabel"):
                ip = next((k.value for k in c.keywords if k.arg == "in_place"), None)
                ok2 = isinstance(ip, ast.Constant) and ip.value is True
                res.inst("Q-COPY", f"{m.qualname}: step {kind} is applied in place to `{work}`", ok2)
                if not ok2:
                    res.add(mk_finding(prop, "Q-COPY", m, st, f"{m.qualname}: the {kind} step is not applied with in_place=True, so its result is discarded", role=kind + ":in_place"))
    rets = returns_of(m.node)
    ok = bool(rets) and all(isinstance(r.value, ast.Name) and r.value.id == work for r in rets)
    res.inst("Q-COPY", f"{m.qualname} returns `{work}`", ok)
    if not ok:
        res.add(mk_finding(prop, "Q-COPY", m, rets[0] if rets else m.node, f"{m.qualname} does not return the network it cleaned", role="return"))


def inline_label(fn, adder_stmt, mapname, label_param):
    """The bulk adder receives (new id, ..., ATTRS) tuples generated from `mapname`/the saved tables; ATTRS must be the old
    attributes with {label_attribute: old id} applied LAST. Returns (True|False|None, why)."""
    for c in ast.walk(adder_stmt):
        if not (isinstance(c, ast.Call) and getattr(c.func, "attr", None) in ("add_nodes_from", "add_edges_from", "add_simplices_from") and c.args and isinstance(c.args[0], (ast.GeneratorExp, ast.ListComp))):
            continue
        g = c.args[0]
        if not (isinstance(g.elt, ast.Tuple) and len(g.elt.elts) >= 2):
            return None, ""
        attrs = g.elt.elts[-1]
        # loop variable that ranges over the OLD ids
        tgt = g.generators[0].target
        old_names = set()
        it = g.generators[0].iter
        if isinstance(tgt, ast.Tuple) and isinstance(it, ast.Call) and getattr(it.func, "attr", None) == "items" and isinstance(tgt.elts[0], ast.Name):
            old_names.add(tgt.elts[0].id)  # for n, idx in node_dict.items() / for e, edge in edges.items(): first is the old id
        if isinstance(attrs, ast.Call) and isinstance(attrs.func, ast.Name):
            helper = next((h for h in ast.walk(fn.node) if isinstance(h, (ast.FunctionDef,)) and h.name == attrs.func.id and h is not fn.node), None)
            if helper is None:
                return None, ""
            params = [a.arg for a in helper.args.args]
            binding = dict(zip(params, attrs.args))
            old_params = {p for p, a in binding.items() if isinstance(a, ast.Name) and a.id in old_names}
            if not old_params:
                return False, "passes something other than the old ID to the helper that records the label"
            return label_last(helper, old_params, label_param)
        if isinstance(attrs, ast.Dict):
            return dict_literal_label_last(attrs, old_names, label_param)
        return None, ""
    return None, ""


def dict_literal_label_last(d, old_names, label_param):
    pos_label = pos_spread = -1
    for i, (k, v) in enumerate(zip(d.keys, d.values)):
        if k is None:
            pos_spread = i
        elif isinstance(k, ast.Name) and k.id == label_param and isinstance(v, ast.Name) and v.id in old_names:
            pos_label = i
    if pos_label < 0:
        return False, "does not store the old ID under the label attribute"
    if pos_spread > pos_label:
        return False, "merges the old attributes AFTER the recorded label, so an existing attribute of the same name overwrites the old ID that was to be recorded"
    return True, ""


def label_last(helper, old_params, label_param):
    """In the helper that builds the attribute dict: the store of {label_attribute: old id} comes after the old attributes
    were merged in (straight-line code; anything else is not recognised)."""
    rets = [s for s in own_statements(helper) if isinstance(s, ast.Return) and s.value is not None]
    if len(rets) != 1:
        return None, ""
    if isinstance(rets[0].value, ast.Dict):
        return dict_literal_label_last(rets[0].value, old_params, label_param)
    if not isinstance(rets[0].value, ast.Name):
        return None, ""
    r = rets[0].value.id
    label_at = attrs_at = -1
    for i, st in enumerate(helper.body):
        if isinstance(st, (ast.If, ast.For, ast.While, ast.Try)):
            return None, ""
        if isinstance(st, ast.Assign) and any(isinstance(t, ast.Name) and t.id == r for t in st.targets):
            v = st.value
            if isinstance(v, ast.Dict):
                ok, _ = dict_literal_label_last(v, old_params, label_param)
                if any(k is None for k in v.keys):
                    attrs_at = i
                if ok:
                    label_at = i
            else:
                attrs_at = i  # deepcopy(attrs) / dict(attrs) / attrs.copy()
        if isinstance(st, ast.Assign) and any(isinstance(t, ast.Subscript) and isinstance(t.value, ast.Name) and t.value.id == r and isinstance(t.slice, ast.Name) and t.slice.id == label_param for t in st.targets):
            if isinstance(st.value, ast.Name) and st.value.id in old_params:
                label_at = i
        if isinstance(st, ast.Expr) and isinstance(st.value, ast.Call) and isinstance(st.value.func, ast.Attribute) and st.value.func.attr == "update" and isinstance(st.value.func.value, ast.Name) and st.value.func.value.id == r and st.value.args:
            a = st.value.args[0]
            if isinstance(a, ast.Dict) and dict_literal_label_last(a, old_params, label_param)[0]:
                label_at = i
            else:
                attrs_at = i
    if label_at < 0:
        return False, "does not store the old ID under the label attribute"
    if attrs_at > label_at:
        return False, "merges the old attributes AFTER the recorded label, so an existing attribute of the same name overwrites the old ID that was to be recorded (relabelling twice, or data that already has such an attribute, records stale labels)"
    return True, ""


def _mentions_table(expr, owner, names):
    """expr reads owner.<one of names> (e.g. self._node / H2.nodes)."""
    return any(isinstance(n, ast.Attribute) and n.attr in names and isinstance(n.value, ast.Name) and n.value.id == owner for n in ast.walk(expr))


def check_union_dual(repo, res):
    """Q-UNION: H1 << H2 transfers the nodes, the edges and the network attributes of BOTH operands into the result.
    Q-DUAL: the dual gets one edge per node of the source (members = its memberships, ID = the node, its attributes),
    one node per edge of the source (so empty edges survive as isolated nodes) and the network attributes."""
    ci = repo.get_class("Hypergraph")
    m = ci.methods.get("__lshift__")
    if m is None:
        raise AnalysisError("Hypergraph.__lshift__ not found (anchor vanished)")
    new = None
    for st in own_statements(m.node):
        if isinstance(st, ast.Assign) and isinstance(st.value, ast.Call) and isinstance(st.targets[0], ast.Name) and getattr(st.value.func, "id", getattr(st.value.func, "attr", "")) in ("Hypergraph", "__class__"):
            new = st.targets[0].id
    if new is None:
        raise AnalysisError("Hypergraph.__lshift__: result network not found (extractor does not recognise the code)")
    calls = [(st, c) for st in own_statements(m.node) for c in own_nodes(st) if isinstance(c, ast.Call) and isinstance(c.func, ast.Attribute) and isinstance(c.func.value, ast.Name) and c.func.value.id == new]
    for owner in (m.params[0], m.params[1]):
        for what, meth, names in (("nodes", "add_nodes_from", ("_node", "nodes")), ("edges", "add_edges_from", ("_edge", "edges"))):
            ok = any(c.func.attr == meth and c.args and _mentions_table(c.args[0], owner, names) for _, c in calls)
            res.inst("Q-UNION", f"Hypergraph.__lshift__ transfers the {what} of `{owner}`", ok)
            if not ok:
                res.add(mk_finding(PROP, "Q-UNION", m, m.node, f"Hypergraph.__lshift__ does not hand the {what} of `{owner}` to {new}.{meth}(); the result is not the union of both operands (isolated nodes and node attributes of `{owner}` are lost)" if what == "nodes" else f"Hypergraph.__lshift__ does not hand the {what} of `{owner}` to {new}.{meth}(); the result is not the union of both operands", role=f"{owner}:{what}"))
        ok = any(_mentions_table(st, owner, ("_net_attr",)) and any(isinstance(n, ast.Attribute) and n.attr == "_net_attr" and isinstance(n.value, ast.Name) and n.value.id == new for n in ast.walk(st)) for st in own_statements(m.node))
        res.inst("Q-UNION", f"Hypergraph.__lshift__ transfers the network attributes of `{owner}`", ok)
        if not ok:
            res.add(mk_finding(PROP, "Q-UNION", m, m.node, f"Hypergraph.__lshift__ does not merge the network attributes of `{owner}` into the result", role=f"{owner}:net"))
    # ---- dual
    d = ci.methods.get("dual")
    if d is None:
        raise AnalysisError("Hypergraph.dual not found (anchor vanished)")
    src = d.params[0]
    new = None
    for st in own_statements(d.node):
        if isinstance(st, ast.Assign) and isinstance(st.value, ast.Call) and isinstance(st.targets[0], ast.Name) and getattr(st.value.func, "attr", getattr(st.value.func, "id", "")) in ("__class__", "Hypergraph"):
            new = st.targets[0].id
    if new is None:
        raise AnalysisError("Hypergraph.dual: result network not found (extractor does not recognise the code)")
    views = {}
    for st in own_statements(d.node):
        if isinstance(st, ast.Assign) and isinstance(st.targets[0], ast.Name) and isinstance(st.value, ast.Attribute) and st.value.attr in ("nodes", "edges") and isinstance(st.value.value, ast.Name) and st.value.value.id == src:
            views[st.targets[0].id] = st.value.attr

    def view_of(e):
        for n in ast.walk(e):
            if isinstance(n, ast.Name) and n.id in views:
                return views[n.id]
            if isinstance(n, ast.Attribute) and n.attr in ("nodes", "edges", "_node", "_edge") and isinstance(n.value, ast.Name) and n.value.id == src:
                return {"_node": "nodes", "_edge": "edges"}.get(n.attr, n.attr)
        return None

    got = {"edges": None, "nodes": None}
    for st in own_statements(d.node):
        for c in own_nodes(st):
            if isinstance(c, ast.Call) and isinstance(c.func, ast.Attribute) and isinstance(c.func.value, ast.Name) and c.func.value.id == new and c.func.attr in ("add_edges_from", "add_nodes_from") and c.args:
                g = c.args[0]
                if isinstance(g, (ast.GeneratorExp, ast.ListComp)) and len(g.generators) == 1 and not g.generators[0].ifs:
                    got["edges" if c.func.attr == "add_edges_from" else "nodes"] = (st, g, view_of(g.generators[0].iter))
    # edges of the dual: one per NODE of the source
    e = got["edges"]
    ok = False
    why = "add_edges_from over the node view not found"
    if e is not None:
        st, g, v = e
        tgt = g.generators[0].target
        key = tgt.elts[0].id if isinstance(tgt, ast.Tuple) and isinstance(tgt.elts[0], ast.Name) else (tgt.id if isinstance(tgt, ast.Name) else None)
        elt = g.elt
        if v != "nodes":
            why = "the edges of the dual are not generated from the (unfiltered) node view of the source"
        elif not (isinstance(elt, ast.Tuple) and len(elt.elts) >= 2 and isinstance(elt.elts[1], ast.Name) and elt.elts[1].id == key):
            why = "the edges of the dual are not keyed by the source's node labels"
        elif not any(isinstance(c, ast.Call) and getattr(c.func, "attr", "") == "memberships" or (isinstance(c, ast.Subscript) and isinstance(c.value, ast.Attribute) and c.value.attr == "_node") for c in ast.walk(elt.elts[0])):
            why = "the members of a dual edge are not the memberships of the node"
        else:
            ok = True
    res.inst("Q-DUAL", "dual: one edge per node of the source, keyed by the node, members = its memberships", ok)
    if not ok:
        res.add(mk_finding(PROP, "Q-DUAL", d, e[0] if e else d.node, f"Hypergraph.dual: {why}", role="dual-edges"))
    nn = got["nodes"]
    ok = nn is not None and nn[2] == "edges"
    res.inst("Q-DUAL", "dual: one node per edge of the source (empty edges become isolated nodes, attributes kept)", ok)
    if not ok:
        res.add(mk_finding(PROP, "Q-DUAL", d, d.node, "Hypergraph.dual does not add one node per edge of the source from the (unfiltered) edge view; empty edges and edge attributes are lost, and the dual of the dual is no longer the source", role="dual-nodes"))
    ok = any(isinstance(st, ast.Assign) and any(isinstance(t, ast.Attribute) and t.attr == "_net_attr" and isinstance(t.value, ast.Name) and t.value.id == new for t in st.targets) and _mentions_table(st.value, src, ("_net_attr",)) for st in own_statements(d.node))
    res.inst("Q-DUAL", "dual keeps the network attributes", ok)
    if not ok:
        res.add(mk_finding(PROP, "Q-DUAL", d, d.node, "Hypergraph.dual does not carry the network attributes over", role="dual-net"))


def check_complement(repo, res):
    """Q-COMPL: complement() subtracts the existing edges from the candidate node sets by comparing ENCODED keys; the
    two encodings (of an existing edge, of a candidate subset) must be the same canonical form - same separator, sorted at
    the same stage (numerically before str(), not lexicographically after it)."""
    mi = repo.modules.get("xgi.generators.classic")
    fn = mi.functions.get("complement") if mi else None
    if fn is None:
        raise AnalysisError("xgi.generators.classic.complement not found (anchor vanished)")
    # the two key sets: names that receive .add(key) inside loops and are later combined by difference
    adds = {}
    for lp in own_statements(fn.node):
        if not isinstance(lp, ast.For):
            continue
        for c in ast.walk(lp):
            if isinstance(c, ast.Call) and isinstance(c.func, ast.Attribute) and c.func.attr == "add" and isinstance(c.func.value, ast.Name) and c.args:
                adds.setdefault(c.func.value.id, []).append((lp, c))
    keysets = {k: v for k, v in adds.items() if any(isinstance(n, ast.Call) and isinstance(n.func, ast.Attribute) and n.func.attr == "difference" and (getattr(n.func.value, "id", None) == k or any(isinstance(a, ast.Name) and a.id == k for a in n.args)) for n in ast.walk(fn.node)) or any(isinstance(n, ast.BinOp) and isinstance(n.op, ast.Sub) and k in (getattr(n.left, "id", None), getattr(n.right, "id", None)) for n in ast.walk(fn.node))}
    if len(keysets) != 2:
        res.info.append({"Q-COMPL": f"complement does not compare two encoded key sets ({sorted(keysets)}); rule not applicable to this form"})
        res.inst("Q-COMPL", "complement: encoded key sets compared by set difference", True)
        return

    def signature(lp, call):
        """(where the sort happens relative to str(), separator) for the key handed to .add()."""
        local = {}
        stmts = list(own_statements(lp))
        # same-module helpers called inside the loop (encoding extracted into a function)
        for c in ast.walk(lp):
            if isinstance(c, ast.Call) and isinstance(c.func, ast.Name) and c.func.id in mi.functions and mi.functions[c.func.id] is not fn:
                stmts += list(own_statements(mi.functions[c.func.id].node))
        for st in stmts:
            if isinstance(st, ast.Assign) and len(st.targets) == 1 and isinstance(st.targets[0], ast.Name):
                local.setdefault(st.targets[0].id, []).append(st.value)
        sorts = []
        for st in stmts:
            for c in ast.walk(st):
                if isinstance(c, ast.Call) and (getattr(c.func, "id", None) == "sorted" or (isinstance(c.func, ast.Attribute) and c.func.attr == "sort")):
                    operand = c.args[0] if getattr(c.func, "id", None) == "sorted" and c.args else (c.func.value if isinstance(c.func, ast.Attribute) else None)
                    exprs = [operand] + (local.get(operand.id, []) if isinstance(operand, ast.Name) else [])
                    is_str = any(isinstance(x, ast.Call) and getattr(x.func, "id", None) == "str" for e in exprs if e is not None for x in ast.walk(e))
                    sorts.append("after-str" if is_str else "before-str")
        seps = set()
        for st in stmts:
            for c in ast.walk(st):
                if isinstance(c, ast.Call) and isinstance(c.func, ast.Attribute) and c.func.attr == "join" and isinstance(c.func.value, ast.Constant):
                    seps.add(c.func.value.value)
        return (tuple(sorted(set(sorts))) or ("unsorted",), tuple(sorted(seps)))

    sigs = {k: {signature(lp, c) for lp, c in v} for k, v in keysets.items()}
    (ka, sa), (kb, sb) = sorted(sigs.items())
    ok = sa == sb and len(sa) == 1 and "unsorted" not in next(iter(sa))[0]
    res.inst("Q-COMPL", f"complement: keys of `{ka}` and `{kb}` are encoded the same way ({sorted(sa)} / {sorted(sb)})", ok)
    if not ok:
        res.add(mk_finding(PROP, "Q-COMPL", fn, keysets[ka][0][1], f"complement: the keys of `{ka}` are built as {sorted(sa)} and those of `{kb}` as {sorted(sb)} (sort stage relative to str(), separator); an existing edge is only subtracted from the candidates if both encodings coincide - sorting the digits as strings puts 10 before 2, so edges that join a node at position >= 10 with one below 10 stay in the complement", role="encoding"))


def check_relabel(repo, res):
    mi = repo.modules.get("xgi.utils.utilities")
    fn = mi.functions.get("convert_labels_to_integers") if mi else None
    if fn is None:
        raise AnalysisError("convert_labels_to_integers not found (anchor vanished)")
    net = fn.params[0]
    cfg = CFG(fn.node)
    stmts = own_statements(fn.node)
    maps = {}
    for s in stmts:
        if isinstance(s, ast.Assign) and isinstance(s.targets[0], ast.Name) and isinstance(s.value, ast.Call) and getattr(s.value.func, "id", None) == "dict" and s.value.args and isinstance(s.value.args[0], ast.Call) and getattr(s.value.args[0].func, "id", None) == "zip":
            z = s.value.args[0]
            if len(z.args) == 2 and isinstance(z.args[0], ast.Attribute) and z.args[0].attr in ("nodes", "edges") and isinstance(z.args[1], ast.Call) and getattr(z.args[1].func, "id", None) == "range":
                rng = z.args[1].args[0] if len(z.args[1].args) == 1 else None
                want = "num_nodes" if z.args[0].attr == "nodes" else "num_edges"
                good = isinstance(rng, ast.Attribute) and rng.attr == want or (isinstance(rng, ast.Call) and getattr(rng.func, "id", None) == "len")
                maps[z.args[0].attr] = (s, s.targets[0].id, good)
        # {n: i for i, n in enumerate(net.nodes)}
        if isinstance(s, ast.Assign) and isinstance(s.targets[0], ast.Name) and isinstance(s.value, ast.DictComp):
            g = s.value.generators[0]
            if isinstance(g.iter, ast.Call) and getattr(g.iter.func, "id", None) == "enumerate" and len(g.iter.args) == 1 and isinstance(g.iter.args[0], ast.Attribute) and g.iter.args[0].attr in ("nodes", "edges") and isinstance(g.target, ast.Tuple) and len(g.target.elts) == 2 and not g.ifs:
                i, n = g.target.elts
                if isinstance(i, ast.Name) and isinstance(n, ast.Name) and isinstance(s.value.key, ast.Name) and s.value.key.id == n.id and isinstance(s.value.value, ast.Name) and s.value.value.id == i.id:
                    maps[g.iter.args[0].attr] = (s, s.targets[0].id, True)
    for which in ("nodes", "edges"):
        ok = which in maps and maps[which][2]
        res.inst("Q-LABEL", f"convert_labels_to_integers: {which} map is dict(zip(net.{which}, range(n)))", ok)
        if not ok:
            res.add(mk_finding(PROP, "Q-LABEL", fn, maps[which][0] if which in maps else fn.node, f"convert_labels_to_integers: the new {which} labels are not dict(zip(net.{which}, range(net.num_{which}))) - they are not a bijection onto 0..n-1 in view order", role=which))
    if len(maps) < 2:
        return
    clear = [s for s in stmts if any(isinstance(c, ast.Call) and getattr(c.func, "attr", None) == "clear" and isinstance(c.func.value, ast.Name) and c.func.value.id == net for c in own_nodes(s))]
    if not clear:
        raise AnalysisError("convert_labels_to_integers: net.clear(...) not found (extractor does not recognise the code)")
    for which in ("nodes", "edges"):
        ok = cfg.dominated_by(clear[0], lambda n, s=maps[which][0]: n is s)
        res.inst("Q-LABEL", f"the {which} map is built before the network is cleared", ok)
        if not ok:
            res.add(mk_finding(PROP, "Q-LABEL", fn, maps[which][0], f"convert_labels_to_integers builds the {which} map after clearing the network", role=which + ":before-clear"))
    keep = any(isinstance(c, ast.Call) and getattr(c.func, "attr", None) == "clear" and any(k.arg == "remove_net_attr" and isinstance(k.value, ast.Constant) and k.value.value is False for k in c.keywords) for s in clear for c in own_nodes(s))
    res.inst("Q-LABEL", "relabelling keeps the network attributes (clear(remove_net_attr=False))", keep)
    if not keep:
        res.add(mk_finding(PROP, "Q-LABEL", fn, clear[0], "convert_labels_to_integers clears the network attributes while relabelling", role="net-attr"))

    def calls(n, attr):
        return isinstance(n, ast.AST) and any(isinstance(c, ast.Call) and getattr(c.func, "attr", None) == attr and isinstance(c.func.value, ast.Name) and c.func.value.id == net for c in own_nodes(n))

    sn = [s for s in stmts if calls(s, "set_node_attributes")]
    se = [s for s in stmts if calls(s, "set_edge_attributes")]
    node_adders = [a for a in stmts if calls(a, "add_nodes_from")]
    ok = bool(sn) and all(cfg.dominated_by(s, lambda n: calls(n, "add_nodes_from")) for s in sn) and all(EXIT not in cfg.reachable(a, avoid=lambda n: calls(n, "set_node_attributes")) for a in node_adders)
    why = "does not record the old node labels after re-adding the nodes on every path (recording them before the nodes exist is silently ignored)"
    if not ok and not sn and node_adders:
        # the label is put into the attribute dict handed to add_nodes_from: it must win over an attribute of the same name
        verdicts = [inline_label(fn, a, maps["nodes"][1], fn.params[1]) for a in node_adders]
        if all(v[0] is True for v in verdicts):
            ok = True
        elif any(v[0] is False for v in verdicts):
            why = next(v[1] for v in verdicts if v[0] is False)
    res.inst("Q-LABEL", "old node labels are recorded after the nodes are re-added, on every path", ok)
    if not ok:
        res.add(mk_finding(PROP, "Q-LABEL", fn, sn[0] if sn else fn.node, f"convert_labels_to_integers {why}", role="node-labels"))
    adders = [s for s in stmts if calls(s, "add_edges_from") or calls(s, "add_simplices_from")]
    ok = bool(se) and bool(adders) and all(EXIT not in cfg.reachable(a, avoid=lambda n: calls(n, "set_edge_attributes")) for a in adders) and all(not any(a in cfg.reachable(s) for a in adders) for s in se)
    why = "does not record the old edge labels after re-adding the edges on every path"
    if not ok and not se and adders:
        verdicts = [inline_label(fn, a, maps["edges"][1], fn.params[1]) for a in adders]
        if all(v[0] is True for v in verdicts):
            ok = True
        elif any(v[0] is False for v in verdicts):
            why = next(v[1] for v in verdicts if v[0] is False)
    res.inst("Q-LABEL", "old edge labels are recorded after the edges are re-added, for every network class", ok)
    if not ok:
        res.add(mk_finding(PROP, "Q-LABEL", fn, se[0] if se else fn.node, f"convert_labels_to_integers {why}", role="edge-labels"))
    # the recorded label is the OLD label under the label attribute: {idx: {label_attribute: n} for n, idx in node_dict.items()}
    for s, mapname in ((sn[0] if sn else None, maps["nodes"][1]), (se[0] if se else None, maps["edges"][1])):
        if s is None:
            continue
        ok = False
        for c in ast.walk(s):
            if isinstance(c, ast.DictComp) and isinstance(c.generators[0].iter, ast.Call) and getattr(c.generators[0].iter.func, "attr", None) == "items" and isinstance(c.generators[0].iter.func.value, ast.Name) and c.generators[0].iter.func.value.id == mapname and isinstance(c.generators[0].target, ast.Tuple):
                old, new = (e.id for e in c.generators[0].target.elts)
                if isinstance(c.key, ast.Name) and c.key.id == new and isinstance(c.value, ast.Dict) and len(c.value.keys) == 1 and isinstance(c.value.keys[0], ast.Name) and c.value.keys[0].id == fn.params[1] and isinstance(c.value.values[0], ast.Name) and c.value.values[0].id == old:
                    ok = True
        res.inst("Q-LABEL", f"labels from `{mapname}`: new ID -> {{label_attribute: old ID}}", ok)
        if not ok:
            res.add(mk_finding(PROP, "Q-LABEL", fn, s, f"convert_labels_to_integers does not store, for each new ID, the old ID under `{fn.params[1]}` (map `{mapname}`)", role=mapname))
