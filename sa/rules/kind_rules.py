"""Shared driver for the ID/position kind rules (C09, C12, C20, C16)."""
from __future__ import annotations

import ast

from ..kinds import KindEngine, KResult
from ..model import AnalysisError
from ..report import mk_finding

# Functions documented to work on positional labels only (they raise otherwise); one line of reason each.
POSITIONAL_BY_CONTRACT = {
    "xgi.algorithms.centrality:line_vector_centrality": 'documented: "Nodes must be written with the Pythonic indexing (0,1,2...)"; scoped out by name',
}


def functions_of(repo, prefixes, exact=()):
    out = []
    for mn, mi in sorted(repo.modules.items()):
        if mn in exact or any(mn == p or mn.startswith(p + ".") for p in prefixes):
            out.extend(mi.functions.values())
            for c in mi.classes.values():
                out.extend(c.methods.values())
    return out


def run_kinds(ctx, res, prop, fns, floor_subscripts, floor_resolved, rule_prefix="K", floor_functions=1):
    repo = ctx.repo
    eng = KindEngine(repo)
    def is_private(f):
        if f.name.startswith("_") and not f.name.startswith("__"):
            return True
        # module-level helper that the module does not export
        return f.cls is None and f.module.all is not None and f.name not in f.module.all

    public = [f for f in fns if not is_private(f)]
    private = [f for f in fns if is_private(f)]
    for f in public:
        if ctx.only and ctx.only != f.qualname:
            continue
        eng.analyze(f)
    analysed_private = {k[0] for k in eng.results}
    for f in private:
        if ctx.only and ctx.only != f.qualname:
            continue
        if f.fq not in analysed_private:
            eng.analyze(f)  # never called with informative kinds: analyse with its documented parameter kinds
    # functions documented to require labels 0..n-1: their subscripts by label are scoped out, but the contract says
    # nothing about the order in which the nodes were inserted - analysed once more with the network as 'perm'
    for f in fns:
        if f.fq in POSITIONAL_BY_CONTRACT and f.params and not (ctx.only and ctx.only != f.qualname):
            eng.analyze(f, {f.params[0]: ("net", "perm")})
    in_scope = {f.fq for f in fns}
    totals = KResult()
    seen = set()
    for (fq, pk), r in eng.results.items():
        if fq not in in_scope:
            continue
        fn = next(f for f in fns if f.fq == fq)
        is_private = is_private_fn = (fn.name.startswith("_") and not fn.name.startswith("__")) or (fn.cls is None and fn.module.all is not None and fn.name not in fn.module.all)
        # a private function analysed both with and without call-site kinds: keep the call-site analyses only
        if is_private and not pk and any(k[0] == fq and k[1] for k in eng.results):
            continue
        if not pk or is_private:
            totals.subscripts += r.subscripts
            totals.both_resolved += r.both_resolved
            totals.container_only += r.container_only
            totals.index_only += r.index_only
            totals.neither += r.neither
        if (not pk or is_private) and r.subscripts:
            res.inst("K1/K2/K5", f"{fq}{' [call-site kinds]' if pk else ''}: {r.subscripts} subscripts, {r.both_resolved} fully resolved", not r.violations or fq in POSITIONAL_BY_CONTRACT)
        for v in r.violations:
            key = (fq, v.rule, getattr(v.node, "lineno", 0), getattr(v.node, "col_offset", 0))
            if key in seen:
                continue
            seen.add(key)
            if fq in POSITIONAL_BY_CONTRACT:
                if not pk:
                    res.info.append({"scoped_out": fq, "reason": POSITIONAL_BY_CONTRACT[fq], "site": v.text})
                continue
            res.add(mk_finding(prop, v.rule, fn, v.node, f"{fn.qualname}: {v.text} (container {fmt(v.container)}, index {fmt(v.index)}); the result depends on how nodes/edges are labelled or ordered", role=v.rule))
        for call, i in r.perm_pairs:
            key = (fq, "K-PERM", call.lineno, call.col_offset)
            if key in seen:
                continue
            seen.add(key)
            from .c09_labels import order_tag
            from .common import unparse

            others = [a for j, a in enumerate(call.args) if j != i]
            if all(order_tag(fn, a) == "view" for a in others):
                continue
            res.add(mk_finding(prop, "K-PERM", fn, call, f"{fn.qualname}: `{unparse(call, 70)}` pairs the view of a network whose labels are only known to be a permutation of 0..n-1 (guard `set(nodes) == set(range(n))`, not a relabelling) with a sequence addressed by position; the view lists the labels in insertion order, so element i of the sequence - the value of label i - is attached to the i-th inserted node; the result changes with the insertion order of the nodes", role="K-PERM"))
        for node, what in r.order_uses[:3]:
            res.info.append({"K3": f"{fq}:{getattr(node, 'lineno', 0)}", "note": what + " (label-order dependent for relabellings that are not order-isomorphic)"})
    res.inst("K1/K2/K5", f"{totals.subscripts} subscripts examined in {len(in_scope)} functions ({totals.both_resolved} with container and index kinds resolved)", True, sample={"rule": "K1/K2/K5", "subscripts": totals.subscripts, "both_resolved": totals.both_resolved, "container_only": totals.container_only, "index_only": totals.index_only, "neither": totals.neither})
    if not ctx.only:
        res.floor("subscripts examined", totals.subscripts, floor_subscripts)
        res.floor("functions with subscripts analysed by the kind engine", len({k[0] for k, r in eng.results.items() if k[0] in in_scope and r.subscripts}), floor_functions)
        res.floor("subscripts with container and index kinds both resolved", totals.both_resolved, floor_resolved)
    res.extra["kind_resolution"] = {"subscripts": totals.subscripts, "both_resolved": totals.both_resolved, "container_only": totals.container_only, "index_only": totals.index_only, "neither": totals.neither}
    res.extra["function_analyses"] = len(eng.results)
    return eng


def fmt(k):
    if k is None:
        return "?"
    t = k[0]
    if t == "id":
        return f"{k[1] or 'node/edge'}-label"
    if t in ("pos", "idpos", "num", "mat", "lit"):
        return t
    if t in ("seq", "set"):
        return f"{t}[{fmt(k[1])}]"
    if t == "map":
        return f"map[{fmt(k[1])}->{fmt(k[2])}]"
    if t == "tup":
        return "(" + ", ".join(fmt(x) for x in k[1]) + ")"
    return t
