"""C03 - Simplicial complexes stay downward closed and duplicate-free.

Insertion sites (found from the class body, not by name): calls of the private helpers that store a new key into
``_edge`` and the inline store in add_simplices_from, located in the public methods of MRO(SimplicialComplex).

S-DUP       every insertion is reachable only through the false outcome of ``has_simplex(<that value>)`` evaluated
            against the live table (a membership test against a snapshot taken before the loop is stale).
S-EMPTY     ... and only through the false outcome of an emptiness test of that value.
S-ID        an insertion under a caller-supplied ID is guarded by ``idx in self._edge`` (present branch warns, no write).
S-CLOSE     every insertion of a simplex is followed on every path (to the next iteration / normal exit) by scheduling
            its faces (_subfaces/powerset/combinations of the same value), and the scheduled collection is consumed on
            every path to the normal exit by a loop whose body inserts each face through the guarded face helper.
S-BOUND     when max_order is given, a simplex larger than max_order+1 never reaches an insertion, and the faces
            scheduled in its place are capped with max_size=max_order+1.
S-UP        remove_simplex_id removes every strict superset (``<`` on the stored frozensets) before the simplex itself.
S-FROZENSET every value finally stored in ``_edge`` by this class is a frozenset.
S-FACES     the face producer _subfaces enumerates combinations of its argument of every size from len-1 down to 2.
R-*         the relational-delta rules of C01 on the SimplicialComplex writer bodies (helpers under their call-site contract).
"""
from __future__ import annotations

import ast

from ..cfg import CFG, ENTRY, EXIT, own_nodes, own_statements
from ..effects import Effects
from ..model import AnalysisError
from ..report import Result, mk_finding
from .c04_uid import enclosing_loops, find_guard, is_self_table
from .common import unparse
from .incidence_rules import check_enc, check_fresh, check_share, run_class_with_helpers

PROP = "C03"
FACE_PRODUCERS = {"_subfaces", "powerset", "combinations"}


def _calls(st):
    return [n for n in own_nodes(st) if isinstance(n, ast.Call)]


def _is_self_call(c, selfn, names=None):
    return isinstance(c.func, ast.Attribute) and isinstance(c.func.value, ast.Name) and c.func.value.id == selfn and (names is None or c.func.attr in names)


def run(ctx):
    repo = ctx.repo
    res = Result(PROP)
    res.rules = ["S-DUP", "S-EMPTY", "S-ID", "S-CLOSE", "S-BOUND", "S-UP", "S-FROZENSET", "S-FACES", "R-EXIT", "R-INC", "R-ATTR", "R-EXC", "R-ONCE", "R-SHARE", "R-ENC", "U-OWN", "U-COPY", "U-FUNC", "U-PROV", "U-GUARD", "U-BUMP"]
    res.explanation = (
        "Guard-dominance and must-pass-through queries on the statement CFG of every public SimplicialComplex method that "
        "inserts or removes simplices (per valuation of the bulk-format flags), plus the relational-delta analysis of C01 "
        "on the class's writer bodies with private helpers analysed under the contract their call sites establish."
    )
    eng, direct, indirect = run_class_with_helpers(ctx, res, PROP, "SimplicialComplex", False, 5, skip=("__init__", "__setstate__"))
    ci = repo.get_class("SimplicialComplex")
    methods = repo.all_methods(ci)
    sc_methods = {m: f for m, f in methods.items() if f.cls is ci}

    # ---- helpers that insert a new key into _edge
    simplex_helpers, face_helpers = {}, {}
    for m, f in sc_methods.items():
        if not (m.startswith("_") and not m.startswith("__")):
            continue
        selfn = f.params[0]
        stores = [st for st in own_statements(f.node) if isinstance(st, ast.Assign) and any(isinstance(t, ast.Subscript) and is_self_table(t.value, selfn, "_edge") for t in st.targets)]
        if not stores:
            continue
        auto = any(isinstance(st, ast.Assign) and isinstance(st.value, ast.Call) and isinstance(st.value.func, ast.Name) and st.value.func.id == "next" for st in own_statements(f.node))
        (face_helpers if auto else simplex_helpers)[m] = f
    if not simplex_helpers or not face_helpers:
        raise AnalysisError("SimplicialComplex: cannot identify the simplex/face insertion helpers (extractor does not recognise the code)")
    res.extra["simplex_helpers"] = sorted(simplex_helpers)
    res.extra["face_helpers"] = sorted(face_helpers)

    global FACE_CONSUMERS
    FACE_CONSUMERS = face_consumers(sc_methods, face_helpers)
    res.extra["face_consumer_helpers"] = {k: v for k, v in FACE_CONSUMERS.items()}
    n_sites = 0
    for m, f in sorted(sc_methods.items()):
        if m in simplex_helpers or m in face_helpers:
            continue
        if ctx.only and ctx.only != f.qualname:
            continue
        n_sites += check_method(repo, eng, res, f, simplex_helpers, face_helpers)
    res.floor("simplex/face insertion sites in public methods", n_sites, 3 if not ctx.only else 0)
    if ctx.only:
        return res

    # S-BOUND (zero is a maximum order too): the limit is compared with None, never tested for truthiness
    from .common import optional_number_truthiness, pattern_lint
    pattern_lint(res, PROP, "S-BOUND", [f for _, f in sorted(sc_methods.items())], optional_number_truthiness,
                 "def f(self, x, max_order=None):\n    if max_order and len(x) > max_order + 1:\n        return None\n    return x",
                 lambda n: f"`{unparse(n, 60)}` tests an optional numeric limit for truthiness; 0 is an admissible maximum order and takes the branch meant for None, so nothing is truncated and simplices above the requested order are added",
                 "truthiness tests of optional numeric limits")
    check_sup(repo, res, sc_methods)
    check_close_method(repo, res, sc_methods)
    check_frozenset(repo, res, sc_methods, simplex_helpers, face_helpers)
    check_faces(repo, res, sc_methods)
    check_bypass(repo, eng, res, direct, indirect, sc_methods)
    check_enc(ctx, res, PROP, eng)
    check_share(ctx, res, PROP, "SimplicialComplex")
    check_fresh(ctx, res, PROP, ("SimplicialComplex",))
    return res


# ----------------------------------------------------------------------------------------------
FACE_CONSUMERS = {}


def face_consumers(sc_methods, face_helpers):
    """Private methods that take a collection of faces and insert each through the face helper:
    name -> index of that parameter (self excluded)."""
    out = {}
    for m, f in sc_methods.items():
        if not (m.startswith("_") and not m.startswith("__")) or m in face_helpers:
            continue
        selfn = f.params[0]
        for st in own_statements(f.node):
            if isinstance(st, (ast.For, ast.AsyncFor)) and isinstance(st.target, ast.Name):
                it = base_name(st.iter)
                if it in f.params[1:]:
                    for s in own_statements(st):
                        for c in _calls(s):
                            if _is_self_call(c, selfn, face_helpers) and c.args and base_name(c.args[0]) == st.target.id:
                                out[m] = f.params[1:].index(it)
    return out


def insertion_sites(f, simplex_helpers, face_helpers):
    """(stmt, kind, value-name, key-name|None) for every insertion in method f."""
    selfn = f.params[0]
    out = []
    for st in own_statements(f.node):
        for c in _calls(st):
            if _is_self_call(c, selfn, simplex_helpers):
                h = simplex_helpers[c.func.attr]
                hp = h.params[1:]
                val = c.args[0] if c.args else None
                key = c.args[1] if len(c.args) > 1 else next((k.value for k in c.keywords if len(hp) > 1 and k.arg == hp[1]), None)
                out.append((st, "simplex", val, key, c))
            elif _is_self_call(c, selfn, face_helpers):
                out.append((st, "face", c.args[0] if c.args else None, None, c))
        if isinstance(st, ast.Assign):
            for t in st.targets:
                if isinstance(t, ast.Subscript) and is_self_table(t.value, selfn, "_edge"):
                    out.append((st, "simplex", st.value, t.slice, None))
    return out


_ALIASES = {}


def local_aliases(f):
    """name -> base name for locals bound exactly once to another name or to frozenset/set/list/tuple of one
    (`simplex = frozenset(members)` denotes the same node set as `members`)."""
    counts, vals = {}, {}
    for st in own_statements(f.node):
        tgts = []
        if isinstance(st, ast.Assign):
            for t in st.targets:
                tgts += [n.id for n in ast.walk(t) if isinstance(n, ast.Name)]
            if len(st.targets) == 1 and isinstance(st.targets[0], ast.Name):
                vals.setdefault(st.targets[0].id, []).append(st.value)
        elif isinstance(st, (ast.For, ast.AugAssign)):
            tgts += [n.id for n in ast.walk(st.target) if isinstance(n, ast.Name)]
        for t in tgts:
            counts[t] = counts.get(t, 0) + 1
    out = {}
    params = set(f.all_params)
    for name, vs in vals.items():
        if counts.get(name) == len(vs) and name not in params:
            # every binding of the name (e.g. one per format branch) denotes the same base
            saved = dict(_ALIASES)
            _ALIASES.clear()
            bases = {base_name(v) for v in vs}
            _ALIASES.update(saved)
            if len(bases) == 1:
                b = bases.pop()
                if b is not None and b != name:
                    out[name] = b
    return out


def base_name(expr):
    """members / frozenset(members) / set(members) -> 'members' (through single-assignment local aliases)"""
    if isinstance(expr, ast.Name):
        seen = set()
        n = expr.id
        while n in _ALIASES and n not in seen:
            seen.add(n)
            n = _ALIASES[n]
        return n
    if isinstance(expr, ast.Call) and isinstance(expr.func, ast.Name) and expr.func.id in ("frozenset", "set", "list", "tuple") and expr.args:
        return base_name(expr.args[0])
    return None


def guard_nodes(cfg, f, st, pred_test):
    """If-nodes g with a disjunct/whole test satisfying pred_test such that st is unreachable through g's TRUE edge
    ... i.e. st is reachable only when the test is false."""
    out = []
    for g in cfg.nodes:
        if not isinstance(g, ast.If):
            continue
        parts = g.test.values if isinstance(g.test, ast.BoolOp) and isinstance(g.test.op, ast.Or) else [g.test]
        if not any(pred_test(p) for p in parts):
            continue
        def no_true(a, b, lab, g=g):
            return not (a is g and lab == "T")
        # every path ENTRY ->* st goes through g (dominance) and leaves g by F last time
        if cfg.dominated_by(st, lambda n, g=g: n is g) and st in cfg.reachable(g, edge_ok=no_true):
            # is st reachable from g's T-successors without passing g again?
            tsucc = [b for b in cfg.succ.get(g, ()) if cfg.label.get((g, b)) == "T"]
            bad = False
            for b in tsucc:
                if b is st or st in cfg.reachable(b, avoid=lambda n, g=g: n is g):
                    bad = True
            if not bad:
                out.append(g)
    return out


def check_method(repo, eng, res, f, simplex_helpers, face_helpers):
    selfn = f.params[0]
    sites = insertion_sites(f, simplex_helpers, face_helpers)
    if not sites:
        return 0
    cfg = CFG(f.node)
    params = set(f.all_params)
    n = 0
    _ALIASES.clear()
    _ALIASES.update(local_aliases(f))
    for st, kind, val, key, call in sites:
        n += 1
        vname = base_name(val) if val is not None else None
        where = f"{f.qualname}:{st.lineno} {kind} insertion of `{unparse(val, 40) if val is not None else '?'}`"
        if vname is None:
            raise AnalysisError(f"{f.fq}:{st.lineno}: inserted value `{unparse(val)}` is not a name or a frozenset/set/list of a name (extractor does not recognise the code)")

        # ---------------- S-DUP
        def is_dup_test(p, vname=vname):
            return isinstance(p, ast.Call) and _is_self_call(p, selfn, {"has_simplex"}) and p.args and base_name(p.args[0]) == vname

        def is_snapshot_test(p, vname=vname):
            return isinstance(p, ast.Compare) and len(p.ops) == 1 and isinstance(p.ops[0], ast.In) and base_name(p.left) == vname

        dups = guard_nodes(cfg, f, st, is_dup_test)
        ok = bool(dups)
        why = "is not guarded by has_simplex(<that value>) on every path"
        if not ok:
            snaps = guard_nodes(cfg, f, st, is_snapshot_test)
            for g in snaps:
                verdict, why2 = snapshot_guard_ok(cfg, f, g, st, vname, selfn)
                if verdict:
                    ok = True
                else:
                    why = why2
        res.inst("S-DUP", where, ok)
        if not ok:
            res.add(mk_finding(PROP, "S-DUP", f, st, f"{f.qualname}: the {kind} `{unparse(val, 40)}` {why}; two IDs can end up with the same node set", role=kind))

        # ---------------- S-EMPTY
        def is_empty_test(p, vname=vname):
            if isinstance(p, ast.UnaryOp) and isinstance(p.op, ast.Not) and base_name(p.operand) == vname:
                return True
            if isinstance(p, ast.Compare) and len(p.ops) == 1 and isinstance(p.ops[0], ast.Eq) and isinstance(p.left, ast.Call) and isinstance(p.left.func, ast.Name) and p.left.func.id == "len" and p.left.args and base_name(p.left.args[0]) == vname and isinstance(p.comparators[0], ast.Constant) and p.comparators[0].value == 0:
                return True
            return False

        ok = bool(guard_nodes(cfg, f, st, is_empty_test))
        res.inst("S-EMPTY", where, ok)
        if not ok:
            res.add(mk_finding(PROP, "S-EMPTY", f, st, f"{f.qualname}: the {kind} `{unparse(val, 40)}` can be inserted when it is empty (no dominating emptiness test that skips it)", role=kind))

        # ---------------- S-ID
        if kind == "simplex" and isinstance(key, ast.Name):
            g_ok, why, gnode = find_guard(repo, eng, cfg, f, st, {key.id}, selfn, lambda a, b, l: True)
            res.inst("S-ID", where + f" under ID `{key.id}`", g_ok)
            if not g_ok:
                res.add(mk_finding(PROP, "S-ID", f, gnode or st, f"{f.qualname}: simplex inserted under ID `{key.id}` {why}", role=key.id))

        # ---------------- S-CLOSE
        if kind == "simplex":
            check_close(res, cfg, f, st, vname, selfn, face_helpers, where)

        # ---------------- S-BOUND
        if kind == "simplex" and "max_order" in params:
            check_bound_guard(res, cfg, f, st, vname, where)
    if "max_order" in params:
        check_bound_producers(res, f)
    _ALIASES.clear()
    return n


def snapshot_guard_ok(cfg, f, g, st, vname, selfn):
    """`frozenset(x) in existing`: fine when `existing` is the live values view, or a snapshot that is kept up to
    date (existing.add(...)) after every insertion in the same loop; stale otherwise."""
    parts = g.test.values if isinstance(g.test, ast.BoolOp) else [g.test]
    snap = None
    for p in parts:
        if isinstance(p, ast.Compare) and len(p.ops) == 1 and isinstance(p.ops[0], ast.In) and isinstance(p.comparators[0], ast.Name):
            snap = p.comparators[0].id
        if isinstance(p, ast.Compare) and len(p.ops) == 1 and isinstance(p.ops[0], ast.In) and isinstance(p.comparators[0], ast.Call) and isinstance(p.comparators[0].func, ast.Attribute) and p.comparators[0].func.attr == "values" and is_self_table(p.comparators[0].func.value, selfn, "_edge"):
            return True, ""
    if snap is None:
        return False, "is guarded by a membership test the checker cannot relate to the edge table"
    defs = [s for s in own_statements(f.node) if isinstance(s, ast.Assign) and any(isinstance(t, ast.Name) and t.id == snap for t in s.targets)]
    live = all(isinstance(d.value, ast.Call) and isinstance(d.value.func, ast.Attribute) and d.value.func.attr == "values" and is_self_table(d.value.func.value, selfn, "_edge") for d in defs) and defs
    if live:
        return True, ""
    loops = enclosing_loops(f.node, st)
    if not loops:
        return True, ""
    inner = loops[-1]
    refreshed = any(
        (isinstance(s, ast.Assign) and any(isinstance(t, ast.Name) and t.id == snap for t in s.targets))
        or any(isinstance(c, ast.Call) and isinstance(c.func, ast.Attribute) and c.func.attr in ("add", "update", "append") and isinstance(c.func.value, ast.Name) and c.func.value.id == snap for c in _calls(s))
        for s in own_statements(inner) if s is not inner
    )
    if refreshed:
        return True, ""
    return False, f"is tested for duplicates against `{snap}`, a snapshot of the stored simplices taken before the loop and never updated, so two equal node sets inserted by the same call are both accepted"


def check_close(res, cfg, f, st, vname, selfn, face_helpers, where):
    loops = enclosing_loops(f.node, st)
    targets = {EXIT} | ({loops[-1]} if loops else set())

    sched_names = set()
    direct = set()

    def produces(expr):
        for c in ast.walk(expr):
            if isinstance(c, ast.Call):
                nm = c.func.attr if isinstance(c.func, ast.Attribute) else getattr(c.func, "id", None)
                if nm in FACE_PRODUCERS and c.args and base_name(c.args[0]) == vname:
                    return True
        return False

    def is_sched(n):
        # self._consume(self._subfaces(v)): scheduled and consumed by one statement
        if isinstance(n, ast.AST):
            for c in own_nodes(n):
                if isinstance(c, ast.Call) and _is_self_call(c, selfn, set(FACE_CONSUMERS)):
                    j = FACE_CONSUMERS[c.func.attr]
                    if j < len(c.args) and produces(c.args[j]):
                        direct.add(n)
                        return True
        if not isinstance(n, (ast.Assign, ast.AugAssign)):
            return False
        tgt = n.targets[0] if isinstance(n, ast.Assign) else n.target
        if not isinstance(tgt, ast.Name):
            return False
        for c in ast.walk(n.value):
            if isinstance(c, ast.Call):
                nm = c.func.attr if isinstance(c.func, ast.Attribute) else getattr(c.func, "id", None)
                if nm in FACE_PRODUCERS and c.args and base_name(c.args[0]) == vname:
                    sched_names.add(tgt.id)
                    return True
        return False

    reach = cfg.reachable(st, avoid=is_sched)
    missed = [t for t in targets if t in reach]
    # collect scheduling statements reachable from st
    scheds = [n for n in cfg.reachable(st) if isinstance(n, ast.AST) and is_sched(n)]
    ok1 = not missed and bool(scheds)
    res.inst("S-CLOSE", where + ": faces scheduled on every path", ok1)
    if not ok1:
        res.add(mk_finding(PROP, "S-CLOSE", f, st, f"{f.qualname}: after inserting `{vname}` a path reaches {'the end of the call' if EXIT in missed or not scheds else 'the next iteration'} without scheduling its faces (_subfaces/powerset of `{vname}`); the complex is no longer downward closed", role="schedule"))
        return
    # the scheduled collection is consumed by a guarded face-insertion loop on every path to EXIT
    def is_face_loop(n):
        if isinstance(n, ast.AST) and not isinstance(n, (ast.For, ast.AsyncFor)):
            for c in own_nodes(n):
                if isinstance(c, ast.Call) and _is_self_call(c, selfn, set(FACE_CONSUMERS)):
                    j = FACE_CONSUMERS[c.func.attr]
                    if j < len(c.args) and base_name(c.args[j]) in sched_names:
                        return True
        if not isinstance(n, (ast.For, ast.AsyncFor)):
            return False
        it = base_name(n.iter) if not isinstance(n.iter, ast.Name) else n.iter.id
        if it not in sched_names:
            return False
        if not isinstance(n.target, ast.Name):
            return False
        for s in own_statements(n):
            for c in _calls(s):
                if _is_self_call(c, selfn, face_helpers) and c.args and base_name(c.args[0]) == n.target.id:
                    return True
        return False

    ok2 = True
    for sch in scheds:
        if sch in direct:
            continue
        if EXIT in cfg.reachable(sch, avoid=is_face_loop):
            ok2 = False
    res.inst("S-CLOSE", where + ": scheduled faces are inserted on every path to the normal exit", ok2)
    if not ok2:
        res.add(mk_finding(PROP, "S-CLOSE", f, st, f"{f.qualname}: the faces scheduled for `{vname}` are not inserted on every path to the normal exit (no loop over the collection calling the face helper)", role="consume"))


def _is_bound_test(p, vname):
    """len(v) > max_order + 1   (or >= max_order + 2, or >= max_order + 1 which is stricter)"""
    if not (isinstance(p, ast.Compare) and len(p.ops) == 1 and isinstance(p.left, ast.Call) and isinstance(p.left.func, ast.Name) and p.left.func.id == "len" and p.left.args and base_name(p.left.args[0]) == vname):
        return False
    r = p.comparators[0]
    if not (isinstance(r, ast.BinOp) and isinstance(r.op, ast.Add) and isinstance(r.left, ast.Name) and r.left.id == "max_order" and isinstance(r.right, ast.Constant)):
        return False
    k = r.right.value
    if isinstance(p.ops[0], ast.Gt):
        return k <= 1
    if isinstance(p.ops[0], ast.GtE):
        return k <= 2
    return False


def check_bound_guard(res, cfg, f, st, vname, where):
    """When max_order is not None, the insertion is reachable only through the false outcome of len(v) > max_order+1."""
    from ..paths import edge_filter

    ef = edge_filter({}, {"max_order": False})

    def pred(n):
        return isinstance(n, ast.If) and any(_is_bound_test(p, vname) for p in ([n.test] + (list(n.test.values) if isinstance(n.test, ast.BoolOp) else [])))

    cands = [n for n in cfg.nodes if pred(n)]
    ok = False
    for g in cands:
        def edge_ok(a, b, lab, g=g):
            if not ef(a, b, lab):
                return False
            return not (a is g and lab == "F")
        # st reachable from ENTRY only via g's false edge: removing F edge makes st unreachable
        if st not in cfg.reachable(ENTRY, edge_ok=edge_ok):
            ok = True
    res.inst("S-BOUND", where + ": unreachable when len > max_order+1", ok)
    if not ok:
        res.add(mk_finding(PROP, "S-BOUND", f, st, f"{f.qualname}: with max_order given, `{vname}` can be inserted although it has more than max_order+1 nodes (no dominating `len({vname}) > max_order + 1` test that diverts it)", role="guard"))


def check_bound_producers(res, f):
    """Every powerset/combinations call that produces replacement faces under `max_order is not None` is capped."""
    n = 0
    for st in own_statements(f.node):
        if not isinstance(st, ast.If):
            continue
        t = st.test
        if not (isinstance(t, ast.Compare) and isinstance(t.left, ast.Name) and t.left.id == "max_order" and isinstance(t.ops[0], ast.IsNot)):
            continue
        for sub in own_statements(st):
            for c in _calls(sub):
                nm = c.func.attr if isinstance(c.func, ast.Attribute) else getattr(c.func, "id", None)
                if nm == "powerset":
                    n += 1
                    kw = next((k.value for k in c.keywords if k.arg == "max_size"), None)
                    ok = isinstance(kw, ast.BinOp) and isinstance(kw.op, ast.Add) and isinstance(kw.left, ast.Name) and kw.left.id == "max_order" and isinstance(kw.right, ast.Constant) and kw.right.value <= 1
                    if isinstance(kw, ast.Name) and kw.id == "max_order":
                        ok = True
                    res.inst("S-BOUND", f"{f.qualname}:{sub.lineno} powerset(..., max_size=max_order+1)", ok)
                    if not ok:
                        res.add(mk_finding(PROP, "S-BOUND", f, sub, f"{f.qualname}: faces that replace a too-large simplex are produced by `{unparse(c, 70)}` without max_size=max_order+1, so faces of order above max_order are added", role="producer"))
                elif nm in ("_subfaces", "subfaces"):
                    # every proper face of size >= 2 up to len-1, no cap: fine for a simplex one order too large, not beyond;
                    # accepted only when the produced faces are filtered by their length against max_order
                    n += 1
                    filtered = False
                    for comp in ast.walk(sub):
                        if isinstance(comp, (ast.ListComp, ast.GeneratorExp, ast.SetComp)) and any(x is c for x in ast.walk(comp)):
                            for g in comp.generators:
                                for t in g.ifs:
                                    if any(isinstance(x, ast.Call) and getattr(x.func, "id", None) == "len" for x in ast.walk(t)) and any(isinstance(x, ast.Name) and x.id == "max_order" for x in ast.walk(t)):
                                        filtered = True
                    res.inst("S-BOUND", f"{f.qualname}:{sub.lineno} {nm}(...) filtered by len <= max_order+1", filtered)
                    if not filtered:
                        res.add(mk_finding(PROP, "S-BOUND", f, sub, f"{f.qualname}: faces that replace a too-large simplex are produced by `{unparse(c, 70)}`, which yields every proper face up to one node less than the simplex; for a simplex more than one order above max_order, faces above max_order are added", role="producer"))
                elif nm == "combinations":
                    n += 1
                    r = c.args[1] if len(c.args) > 1 else None
                    ok = r is not None and any(isinstance(x, ast.Name) and x.id == "max_order" for x in ast.walk(r))
                    res.inst("S-BOUND", f"{f.qualname}:{sub.lineno} combinations(..., r) bounded by max_order", ok)
                    if not ok:
                        res.add(mk_finding(PROP, "S-BOUND", f, sub, f"{f.qualname}: `{unparse(c, 70)}` is not bounded by max_order", role="producer"))
    return n


# ----------------------------------------------------------------------------------------------
def check_close_method(repo, res, sc_methods):
    """S-CLOSE for close(): every simplex of the complex has all its faces handed to a (guarded) bulk insertion."""
    f = sc_methods.get("close")
    if f is None:
        raise AnalysisError("SimplicialComplex.close not found (anchor vanished)")
    selfn = f.params[0]

    def whole_view(e, depth=0):
        """e enumerates every simplex: self.edges.members() / self._edge.values() (through list/map/local names)."""
        if depth > 4:
            return False
        if isinstance(e, ast.Call):
            nm = getattr(e.func, "attr", getattr(e.func, "id", None))
            if nm == "members" and isinstance(e.func, ast.Attribute) and not e.args and isinstance(e.func.value, ast.Attribute) and e.func.value.attr == "edges":
                return True
            if nm == "values" and isinstance(e.func, ast.Attribute) and is_self_table(e.func.value, selfn, "_edge"):
                return True
            if nm in ("list", "tuple", "set", "sorted") and e.args:
                return whole_view(e.args[0], depth + 1)
            if nm == "map" and len(e.args) == 2:
                return whole_view(e.args[1], depth + 1)
        if isinstance(e, (ast.ListComp, ast.GeneratorExp, ast.SetComp)) and len(e.generators) == 1 and not e.generators[0].ifs:
            return whole_view(e.generators[0].iter, depth + 1)
        if isinstance(e, ast.Name):
            defs = [st.value for st in own_statements(f.node) if isinstance(st, ast.Assign) and any(isinstance(t, ast.Name) and t.id == e.id for t in st.targets)]
            return len(defs) == 1 and whole_view(defs[0], depth + 1)
        return False

    ok, why = False, "no loop over all simplices found"
    for lp in own_statements(f.node):
        if not (isinstance(lp, ast.For) and isinstance(lp.target, ast.Name) and whole_view(lp.iter)):
            continue
        var = lp.target.id
        # names denoting (a slice of) the loop simplex
        same = {var}
        for st in own_statements(lp):
            if isinstance(st, ast.Assign) and len(st.targets) == 1 and isinstance(st.targets[0], ast.Name):
                v = st.value
                if (isinstance(v, ast.Subscript) and isinstance(v.value, ast.Name) and v.value.id in same) or base_name(v) in same:
                    same.add(st.targets[0].id)
        faces = set()
        for st in own_statements(lp):
            if isinstance(st, ast.Assign) and isinstance(st.value, ast.Call) and getattr(st.value.func, "attr", getattr(st.value.func, "id", None)) in ("_subfaces", "powerset") and st.value.args and base_name(st.value.args[0]) in same:
                faces |= {t.id for t in st.targets if isinstance(t, ast.Name)}
        sinks = []
        for st in own_statements(lp):
            for c in _calls(st):
                nm = getattr(c.func, "attr", None)
                if nm in ("add_simplices_from",) or nm in FACE_CONSUMERS:
                    a = c.args[0] if c.args else None
                    direct = isinstance(a, ast.Call) and getattr(a.func, "attr", getattr(a.func, "id", None)) in ("_subfaces", "powerset") and a.args and base_name(a.args[0]) in same
                    if direct or (isinstance(a, ast.Name) and a.id in faces):
                        sinks.append(st)
        if not sinks:
            # accumulate-then-insert: faces of every simplex are gathered in a local collection that is inserted afterwards
            acc = None
            for st in own_statements(lp):
                for c in _calls(st):
                    if isinstance(c.func, ast.Attribute) and c.func.attr in ("update", "extend", "add", "append") and isinstance(c.func.value, ast.Name) and c.args:
                        if any(isinstance(x, ast.Call) and getattr(x.func, "attr", getattr(x.func, "id", None)) in ("_subfaces", "powerset") and x.args and base_name(x.args[0]) in same for x in ast.walk(c.args[0])):
                            acc = c.func.value.id
                if isinstance(st, ast.AugAssign) and isinstance(st.target, ast.Name) and any(isinstance(x, ast.Call) and getattr(x.func, "attr", getattr(x.func, "id", None)) in ("_subfaces", "powerset") and x.args and base_name(x.args[0]) in same for x in ast.walk(st.value)):
                    acc = st.target.id
            if acc is not None and not any(isinstance(b, ast.If) for b in lp.body):
                consumed = False
                for st in own_statements(f.node):
                    for c in _calls(st):
                        nm = getattr(c.func, "attr", None)
                        if (nm == "add_simplices_from" or nm in FACE_CONSUMERS) and c.args and isinstance(c.args[0], ast.Name) and c.args[0].id == acc:
                            consumed = True
                    if isinstance(st, ast.For) and isinstance(st.iter, ast.Name) and st.iter.id == acc and isinstance(st.target, ast.Name):
                        v = st.target.id
                        ins = [c for c in ast.walk(st) if isinstance(c, ast.Call) and getattr(c.func, "attr", None) in ("_add_face", "add_simplex") and c.args and base_name(c.args[0]) == v]
                        # the only way around the insertion is the skip of empty / already present faces
                        skips_ok = all(isinstance(b, ast.If) and all(isinstance(x, ast.Continue) for x in b.body) and not b.orelse and all((isinstance(t, ast.UnaryOp) and base_name(t.operand) == v) or (isinstance(t, ast.Call) and getattr(t.func, "attr", None) == "has_simplex") for t in (b.test.values if isinstance(b.test, ast.BoolOp) and isinstance(b.test.op, ast.Or) else [b.test])) for b in st.body if isinstance(b, ast.If))
                        if ins and skips_ok and any(i in [x for b in st.body for x in ast.walk(b)] for i in ins):
                            consumed = True
                if consumed:
                    ok = True
                    break
            why = f"the loop over the simplices never hands `_subfaces({var})` to add_simplices_from"
            continue
        # the sink is conditional on nothing but the simplex being non-empty
        par = {}
        for p in ast.walk(lp):
            for ch in ast.iter_child_nodes(p):
                par[ch] = p
        good = False
        for sk in sinks:
            p, fine = sk, True
            while p in par and par[p] is not lp:
                p = par[p]
                if isinstance(p, ast.If):
                    t = p.test
                    in_body = any(sk is x for b in p.body for x in ast.walk(b))
                    if not (in_body and isinstance(t, ast.Name) and t.id in same):
                        fine = False
                if isinstance(p, (ast.For, ast.While, ast.Try)):
                    fine = False
            good = good or fine
        ok = good
        if not ok:
            why = "the insertion of the faces is conditional on something other than the simplex being non-empty"
        break
    res.inst("S-CLOSE", "SimplicialComplex.close hands the faces of every simplex to the guarded bulk insertion", ok)
    if not ok:
        res.add(mk_finding(PROP, "S-CLOSE", f, f.node, f"SimplicialComplex.close: {why}; after close() the complex can still lack faces", role="close()"))


def check_sup(repo, res, sc_methods):
    f = sc_methods.get("remove_simplex_id")
    if f is None:
        raise AnalysisError("SimplicialComplex.remove_simplex_id not found (anchor vanished)")
    selfn = f.params[0]
    idx = f.params[1]
    cfg = CFG(f.node)
    removers = set()
    for st in own_statements(f.node):
        for c in _calls(st):
            if _is_self_call(c, selfn) and c.func.attr.startswith("_remove") and c.args and isinstance(c.args[0], ast.Name) and c.args[0].id == idx:
                removers.add(c.func.attr)
                own = st
    if not removers:
        raise AnalysisError("remove_simplex_id: removal of the simplex itself not found (extractor does not recognise the code)")
    # the query
    qname = None
    qvar = None
    for st in own_statements(f.node):
        if isinstance(st, ast.Assign) and isinstance(st.value, ast.Call) and _is_self_call(st.value, selfn) and st.value.args:
            a = st.value.args[0]
            if isinstance(a, ast.Subscript) and is_self_table(a.value, selfn, "_edge") and isinstance(a.slice, ast.Name) and a.slice.id == idx and isinstance(st.targets[0], ast.Name):
                qname, qvar = st.value.func.attr, st.targets[0].id
    inline_loop = None
    if qname is None:
        for st in own_statements(f.node):
            if isinstance(st, ast.For) and isinstance(st.iter, ast.Call) and _is_self_call(st.iter, selfn) and st.iter.args:
                a = st.iter.args[0]
                if isinstance(a, ast.Subscript) and is_self_table(a.value, selfn, "_edge") and isinstance(a.slice, ast.Name) and a.slice.id == idx:
                    qname, inline_loop = st.iter.func.attr, st
    ok = qname is not None
    res.inst("S-UP", "remove_simplex_id queries the supersets of the stored simplex", ok)
    if not ok:
        res.add(mk_finding(PROP, "S-UP", f, f.node, "remove_simplex_id does not query the simplices containing the one being removed", role="query"))
        return

    def is_sup_loop(n):
        if not (isinstance(n, ast.For) and isinstance(n.target, ast.Name) and ((isinstance(n.iter, ast.Name) and n.iter.id == qvar) or n is inline_loop)):
            return False
        return any(_is_self_call(c, selfn, removers) and c.args and isinstance(c.args[0], ast.Name) and c.args[0].id == n.target.id for s in own_statements(n) for c in _calls(s))

    ok = cfg.dominated_by(own, is_sup_loop)
    res.inst("S-UP", "removal of the simplex is preceded on every path by removal of each superset", ok)
    if not ok:
        res.add(mk_finding(PROP, "S-UP", f, own, "remove_simplex_id removes the simplex without first removing, on every path, every simplex that contains it; the complex is left not downward closed", role="order"))
    q = sc_methods.get(qname)
    if q is None:
        raise AnalysisError(f"SimplicialComplex.{qname} not found (anchor vanished)")
    strict = False
    for n in ast.walk(q.node):
        if isinstance(n, ast.Compare) and len(n.ops) == 1 and isinstance(n.ops[0], (ast.Lt, ast.LtE, ast.Gt, ast.GtE)):
            param = q.params[1]
            l, r = n.left, n.comparators[0]
            if isinstance(n.ops[0], ast.Lt) and isinstance(l, ast.Name) and l.id == param:
                strict = True
            if isinstance(n.ops[0], ast.Gt) and isinstance(r, ast.Name) and r.id == param:
                strict = True
    over_items = any(isinstance(n, ast.Call) and isinstance(n.func, ast.Attribute) and n.func.attr == "items" and is_self_table(n.func.value, q.params[0], "_edge") for n in ast.walk(q.node))
    ok = strict and over_items
    res.inst("S-UP", f"{q.qualname} selects exactly the strict supersets (simplex < s over self._edge.items())", ok)
    if not ok:
        res.add(mk_finding(PROP, "S-UP", q, q.node, f"{q.qualname} does not select exactly the strict supersets of the simplex (expected `simplex < s` over self._edge.items())", role="strict"))


def check_frozenset(repo, res, sc_methods, simplex_helpers, face_helpers):
    def is_frozen_expr(e):
        return isinstance(e, ast.Call) and isinstance(e.func, ast.Name) and e.func.id == "frozenset"

    for m, f in sorted(sc_methods.items()):
        selfn = f.params[0]
        cfg = None
        for st in own_statements(f.node):
            if not isinstance(st, ast.Assign):
                continue
            for t in st.targets:
                if not (isinstance(t, ast.Subscript) and is_self_table(t.value, selfn, "_edge")):
                    continue
                v = st.value
                ok = is_frozen_expr(v)
                why = ""
                if not ok and isinstance(v, ast.Name) and v.id not in f.params:
                    # a local bound (in every branch) to frozenset(...)
                    defs = [s2.value for s2 in own_statements(f.node) if isinstance(s2, ast.Assign) and any(isinstance(tt, ast.Name) and tt.id == v.id for tt in s2.targets)]
                    ok = bool(defs) and all(is_frozen_expr(d) for d in defs)
                if not ok and isinstance(v, ast.Name) and v.id in f.params and m in simplex_helpers:
                    # parameter of a helper: every call site must pass a frozenset
                    pidx = f.params.index(v.id) - 1
                    ok = True
                    for g in sc_methods.values():
                        gs = g.params[0]
                        for c in ast.walk(g.node):
                            if isinstance(c, ast.Call) and _is_self_call(c, gs, {m}):
                                a = c.args[pidx] if pidx < len(c.args) else None
                                if a is None:
                                    ok = False
                                elif is_frozen_expr(a):
                                    continue
                                elif isinstance(a, ast.Name):
                                    defs = [s for s in own_statements(g.node) if isinstance(s, ast.Assign) and any(isinstance(tt, ast.Name) and tt.id == a.id for tt in s.targets)]
                                    if not defs or not all(is_frozen_expr(d.value) for d in defs):
                                        ok = False
                                        why = f"{g.qualname} passes `{a.id}` which is not always a frozenset"
                                else:
                                    ok = False
                if not ok and not why:
                    # placeholder immediately replaced: a later store to the same key on every path to EXIT
                    cfg = cfg or CFG(f.node)
                    key = unparse(t.slice)

                    def later_store(n, key=key, st=st, selfn=selfn):
                        return n is not st and isinstance(n, ast.Assign) and any(isinstance(tt, ast.Subscript) and is_self_table(tt.value, selfn, "_edge") and unparse(tt.slice) == key for tt in n.targets)

                    if EXIT not in cfg.reachable(st, avoid=later_store):
                        ok = True
                    else:
                        why = f"`{unparse(v, 50)}` is stored and may remain"
                res.inst("S-FROZENSET", f"{f.qualname}:{st.lineno} `{unparse(st, 60)}`", ok)
                if not ok:
                    res.add(mk_finding(PROP, "S-FROZENSET", f, st, f"{f.qualname}: a simplex is stored as something other than a frozenset ({why}); has_simplex compares frozensets against the stored values, so duplicates would go unnoticed", role="value"))


def check_faces(repo, res, sc_methods):
    f = sc_methods.get("_subfaces")
    if f is None:
        raise AnalysisError("SimplicialComplex._subfaces not found (anchor vanished)")
    # all=True branch: for n in range(size, 2, -1): combinations(simplex, n - 1)
    ok = False
    for n in ast.walk(f.node):
        if isinstance(n, ast.For) and isinstance(n.iter, ast.Call) and isinstance(n.iter.func, ast.Name) and n.iter.func.id == "range":
            a = n.iter.args
            if len(a) == 3 and isinstance(a[1], ast.Constant) and a[1].value == 2 and isinstance(a[2], ast.UnaryOp) and isinstance(a[2].operand, ast.Constant) and a[2].operand.value == 1 and isinstance(a[0], ast.Name):
                # body uses combinations(simplex, n - 1)
                for c in ast.walk(n):
                    if isinstance(c, ast.Call) and isinstance(c.func, ast.Name) and c.func.id == "combinations" and len(c.args) == 2:
                        r = c.args[1]
                        if isinstance(r, ast.BinOp) and isinstance(r.op, ast.Sub) and isinstance(r.left, ast.Name) and isinstance(n.target, ast.Name) and r.left.id == n.target.id and isinstance(r.right, ast.Constant) and r.right.value == 1:
                            ok = True
            if len(a) == 2 and isinstance(a[0], ast.Constant) and a[0].value == 2 and isinstance(n.target, ast.Name):
                for c in ast.walk(n):
                    if isinstance(c, ast.Call) and isinstance(c.func, ast.Name) and c.func.id == "combinations" and len(c.args) == 2 and isinstance(c.args[1], ast.Name) and c.args[1].id == n.target.id:
                        ok = True
    for n in ast.walk(f.node):
        if isinstance(n, (ast.ListComp, ast.GeneratorExp)) and len(n.generators) == 2:
            g0, g1 = n.generators
            if isinstance(g0.iter, ast.Call) and getattr(g0.iter.func, "id", None) == "range" and isinstance(g0.target, ast.Name) and isinstance(g1.iter, ast.Call) and getattr(g1.iter.func, "id", None) == "combinations" and len(g1.iter.args) == 2:
                a = g0.iter.args
                r = g1.iter.args[1]
                if len(a) == 3 and isinstance(a[1], ast.Constant) and a[1].value == 2 and isinstance(a[2], ast.UnaryOp) and isinstance(a[2].operand, ast.Constant) and a[2].operand.value == 1 and isinstance(r, ast.BinOp) and isinstance(r.op, ast.Sub) and isinstance(r.left, ast.Name) and r.left.id == g0.target.id and isinstance(r.right, ast.Constant) and r.right.value == 1:
                    ok = True
                if len(a) == 2 and isinstance(a[0], ast.Constant) and a[0].value == 2 and isinstance(r, ast.Name) and r.id == g0.target.id:
                    ok = True
    res.inst("S-FACES", "_subfaces(all=True) enumerates combinations of every size from len-1 down to 2", ok)
    if not ok:
        res.add(mk_finding(PROP, "S-FACES", f, f.node, "_subfaces does not enumerate the faces of every size from len-1 down to 2 (range(size, 2, -1) with combinations(simplex, n - 1)); some faces of an added simplex would be missing", role="range"))


def check_bypass(repo, eng, res, direct, indirect, sc_methods):
    """Information: inherited Hypergraph writers not overridden on SimplicialComplex (outside the property's scope)."""
    inherited = sorted(m for m, f in direct.items() if f.cls is not None and f.cls.name != "SimplicialComplex" and not m.startswith("__"))
    res.extra["bypass_methods"] = inherited
    res.info.append({"S-BYPASS": inherited, "note": "inherited Hypergraph writers that do not go through the simplex insertion sites; the property is scoped to the class's own mutating calls"})
    own_scope = {"add_simplex", "add_simplices_from", "add_weighted_simplices_from", "remove_simplex_id", "remove_simplex_ids_from", "remove_node", "remove_nodes_from", "close", "cleanup", "add_edge", "add_edges_from", "add_weighted_edges_from", "remove_edge", "remove_edges_from"}
    for m in sorted(own_scope & set(sc_methods)):
        f = sc_methods[m]
        selfn = f.params[0]
        bad = [c.func.attr for c in ast.walk(f.node) if isinstance(c, ast.Call) and _is_self_call(c, selfn, set(inherited))]
        res.inst("S-BYPASS", f"{f.qualname} does not call an inherited raw writer", not bad)
        if bad:
            res.add(mk_finding(PROP, "S-BYPASS", f, f.node, f"{f.qualname} edits the complex through the inherited hypergraph writer(s) {sorted(set(bad))}, which do not maintain closure or uniqueness", role="bypass"))
