"""Shared driver of the relational-delta analysis (sa/incidence.py) for C01, C02 and C03."""
from __future__ import annotations

import ast

from ..effects import EATTR, EDGE, NATTR, NODE, Effects
from ..incidence import Balance, Infeasible, MethodAnalysis, Unsupported, compatible, describe_witness, show
from ..model import CORE_CLASSES, AnalysisError, FunctionInfo
from ..paths import describe_valuation, valuations
from ..selectors import inline_selectors
from ..report import mk_finding

STRUCT = (NODE, EDGE, NATTR, EATTR)
# random_edge_shuffle rewrites two member sets by set algebra on in-place aliases that the pairing
# abstraction does not model; it is the single named exception and is checked by the coarse rule R-BOTH.
COARSE = {"random_edge_shuffle": "set algebra on aliased member sets (exact pairing not decided; R-BOTH applies)"}


def direct_writer_methods(repo, eng: Effects, cname):
    """Methods of MRO(cname) whose own statements write the four tables; and those that write only through calls."""
    ci = repo.get_class(cname)
    direct, indirect = {}, {}
    for mname, fi in sorted(repo.all_methods(ci).items()):
        summ = eng.summarize(fi, cname, (), ())
        own = [w for w in eng.direct_writes.get(fi.fq, ()) if w.region in STRUCT and w.origin == ("p", 0)]
        if own:
            direct[mname] = fi
        elif any(w.origin == ("p", 0) and w.region in STRUCT for w in summ.writes):
            indirect[mname] = fi
    return direct, indirect


def external_writers(repo, eng: Effects):
    """R-ENC: direct writes to the four tables outside the three classes (any network, any origin)."""
    out = []
    for fn in repo.all_functions():
        if fn.cls is not None and fn.cls.name in CORE_CLASSES:
            continue
        ctx = fn.cls.name if (fn.cls is not None and fn.cls.name in ("NodeView", "EdgeView", "DiNodeView", "DiEdgeView")) else None
        eng.summarize(fn, ctx, (), ())
        for w in eng.direct_writes.get(fn.fq, ()):
            if w.region in STRUCT or w.region in ("ID", "BI", "IDATTR", "BIATTR"):
                out.append((fn, w))
    return out


MUTABLE_CTORS = {"set", "list", "dict", "defaultdict", "OrderedDict", "bytearray", "deque"}


def _is_mutable_expr(e, local_mut=()):
    if isinstance(e, (ast.Set, ast.List, ast.Dict, ast.SetComp, ast.ListComp, ast.DictComp)):
        return True
    if isinstance(e, ast.Call) and isinstance(e.func, ast.Name) and e.func.id in MUTABLE_CTORS:
        return True
    if isinstance(e, ast.Call) and isinstance(e.func, ast.Attribute) and e.func.attr in ("copy", "union", "difference", "intersection", "symmetric_difference"):
        return True
    if isinstance(e, ast.Name) and e.id in local_mut:
        return True
    return False


def _table_of(expr, selfname):
    """'_node' / '_edge' / ... when expr is `self.<table>`."""
    if isinstance(expr, ast.Attribute) and isinstance(expr.value, ast.Name) and expr.value.id == selfname and expr.attr in ("_node", "_edge", "_node_attr", "_edge_attr"):
        return expr.attr
    return None


def desugar_table_updates(fi):
    """`self._node.update({k: v for k in it})`, `self._node.update(dict.fromkeys(it, v))` and
    `self._node.update((k, v) for k in it)` are the loop `for k in it: self._node[k] = v` as far as *which pairs* the
    tables hold; the walker analyses the loop.  (That `fromkeys` evaluates v once and so stores one shared object under
    every key is the business of R-SHARE, not of the pairing analysis.)"""
    if not fi.params:
        return fi
    selfname = fi.params[0]
    hits = []
    for st in ast.walk(fi.node):
        if isinstance(st, ast.Expr) and isinstance(st.value, ast.Call) and isinstance(st.value.func, ast.Attribute) and st.value.func.attr == "update" and _table_of(st.value.func.value, selfname) and len(st.value.args) == 1 and not st.value.keywords:
            a = st.value.args[0]
            form = None
            if isinstance(a, ast.DictComp) and len(a.generators) == 1 and not a.generators[0].ifs and not a.generators[0].is_async:
                form = (a.generators[0].target, a.generators[0].iter, a.key, a.value)
            elif isinstance(a, ast.GeneratorExp) and len(a.generators) == 1 and not a.generators[0].ifs and isinstance(a.elt, ast.Tuple) and len(a.elt.elts) == 2:
                form = (a.generators[0].target, a.generators[0].iter, a.elt.elts[0], a.elt.elts[1])
            elif isinstance(a, ast.Call) and isinstance(a.func, ast.Attribute) and a.func.attr == "fromkeys" and isinstance(a.func.value, ast.Name) and a.func.value.id in ("dict", "OrderedDict") and len(a.args) == 2:
                kv = ast.Name(id="_k_fromkeys", ctx=ast.Store())
                form = (kv, a.args[0], ast.Name(id="_k_fromkeys", ctx=ast.Load()), a.args[1])
            if form is not None:
                hits.append(((st.lineno, st.col_offset), form))
    if not hits:
        return fi
    import copy as _copy

    node = _copy.deepcopy(fi.node)
    index = dict(hits)

    class T(ast.NodeTransformer):
        def visit_Expr(self, st):
            h = index.get((st.lineno, st.col_offset))
            if h is None or not (isinstance(st.value, ast.Call) and isinstance(st.value.func, ast.Attribute) and st.value.func.attr == "update"):
                return st
            target, it, key, value = (_copy.deepcopy(x) for x in h)
            tbl = _copy.deepcopy(st.value.func.value)
            store = ast.Assign(targets=[ast.Subscript(value=tbl, slice=key, ctx=ast.Store())], value=value)
            loop = ast.For(target=target, iter=it, body=[store], orelse=[])
            ast.copy_location(loop, st)
            ast.copy_location(store, st)
            ast.fix_missing_locations(loop)
            for sub in ast.walk(loop):
                if hasattr(sub, "lineno"):
                    sub.lineno = st.lineno
                    sub.end_lineno = getattr(st, "end_lineno", st.lineno)
            return loop

    node = T().visit(node)
    return FunctionInfo(fi.module, fi.name, fi.qualname, node, fi.cls, fi.parent)


def share_sites(fnode, selfname):
    """Yields (node, stmt, description, offending) for the two R-SHARE patterns in one function."""
    parents = {}
    for nd in ast.walk(fnode):
        for ch in ast.iter_child_nodes(nd):
            parents[id(ch)] = nd

    def loops_of(nd):
        out = []
        cur = parents.get(id(nd))
        while cur is not None and cur is not fnode:
            if isinstance(cur, (ast.For, ast.AsyncFor, ast.While, ast.ListComp, ast.SetComp, ast.DictComp, ast.GeneratorExp)):
                out.append(id(cur))
            cur = parents.get(id(cur))
        return out

    mut_bind = {}
    for nd in ast.walk(fnode):
        if isinstance(nd, ast.Assign) and len(nd.targets) == 1 and isinstance(nd.targets[0], ast.Name):
            mut_bind.setdefault(nd.targets[0].id, []).append((nd, _is_mutable_expr(nd.value)))
    mut_names = {k for k, v in mut_bind.items() if any(m for _, m in v)}
    for nd in ast.walk(fnode):
        shared = None
        if isinstance(nd, ast.Call) and isinstance(nd.func, ast.Attribute) and nd.func.attr == "fromkeys" and len(nd.args) == 2 and _is_mutable_expr(nd.args[1], mut_names):
            shared = f"dict.fromkeys(..., {ast.unparse(nd.args[1])}) evaluates the value once"
        if isinstance(nd, ast.BinOp) and isinstance(nd.op, ast.Mult) and isinstance(nd.left, ast.List) and len(nd.left.elts) == 1 and _is_mutable_expr(nd.left.elts[0], mut_names):
            shared = f"[{ast.unparse(nd.left.elts[0])}] * n repeats one object"
        if shared:
            st = nd
            while id(st) in parents and not isinstance(st, ast.stmt):
                st = parents[id(st)]
            reaches = any(_table_of(x, selfname) for x in ast.walk(st))
            if not reaches and isinstance(st, ast.Assign) and len(st.targets) == 1 and isinstance(st.targets[0], ast.Name):
                nm = st.targets[0].id
                reaches = any(isinstance(s2, ast.stmt) and s2 is not st and not isinstance(s2, (ast.FunctionDef, ast.For, ast.While, ast.If, ast.Try, ast.With)) and any(isinstance(x, ast.Name) and x.id == nm for x in ast.walk(s2)) and any(_table_of(x, selfname) for x in ast.walk(s2)) for s2 in ast.walk(fnode))
            yield nd, st, f"{shared}; every key of the table then holds the SAME set object, so the next in-place update of one node's (edge's) entry changes all of them while the other table is updated for one ID only", reaches
        if isinstance(nd, ast.Assign) and isinstance(nd.value, ast.Name):
            for t in nd.targets:
                if isinstance(t, ast.Subscript) and _table_of(t.value, selfname) in ("_node", "_edge"):
                    binds = mut_bind.get(nd.value.id, [])
                    my_loops = loops_of(nd)
                    bad = bool(my_loops) and bool(binds) and any(m for _, m in binds) and all(my_loops[0] not in loops_of(b) for b, _ in binds)
                    yield nd, nd, f"`{ast.unparse(nd)}` stores the container `{nd.value.id}`, created once outside the loop, under every key the loop visits; all those entries are one object", bad


_SHARE_POSITIVE = (
    "def clear_edges(self):\n    self._node.update(dict.fromkeys(self._node, set()))\n",
    "def reset(self, ns):\n    empty = set()\n    for n in ns:\n        self._node[n] = empty\n",
)
_SHARE_NEGATIVE = (
    "def clear_edges(self):\n    for n in self._node:\n        self._node[n] = set()\n",
    "def reset(self, ns):\n    for n in ns:\n        fresh = set()\n        self._node[n] = fresh\n",
)


def check_share(ctx, res, prop, cname):
    """R-SHARE: every entry of the incidence tables is an object of its own.  The tables map an ID to a *mutable* set
    that the other writer methods update in place (`self._node[n].add(e)`), so one object stored under two keys makes
    every later single-entry update a multi-entry update - the pairing analysis, which identifies an entry with its
    key, would be unsound without this premise.  Reported: (a) dict.fromkeys(keys, <mutable>) / [<mutable>] * n whose
    result reaches a table (update argument, stored value, rebinding); (b) a store `table[k] = name` inside a loop
    where `name` is bound to a mutable container outside that loop and not rebound inside it."""
    for src in _SHARE_POSITIVE:
        if not any(bad for *_x, bad in share_sites(ast.parse(src).body[0], "self")):
            raise AnalysisError("R-SHARE self-check: an embedded positive example is no longer recognised")
    for src in _SHARE_NEGATIVE:
        if any(bad for *_x, bad in share_sites(ast.parse(src).body[0], "self")):
            raise AnalysisError("R-SHARE self-check: an embedded negative example is reported")
    repo = ctx.repo
    ci = repo.get_class(cname)
    n = nf = 0
    for mname, fi in sorted(repo.all_methods(ci).items()):
        if not fi.params:
            continue
        if ctx.only and ctx.only not in (fi.qualname, f"{cname}.{mname}"):
            continue
        nf += 1
        for nd, st, msg, bad in share_sites(fi.node, fi.params[0]):
            n += 1
            if bad:
                res.inst("R-SHARE", f"{cname}.{mname}:{nd.lineno} `{' '.join(ast.unparse(st).split())[:60]}`", False)
                res.add(mk_finding(prop, "R-SHARE", fi, st, f"{cname}.{mname}: {msg}", role=f"{cname}:share"))
    res.inst("R-SHARE", f"{nf} methods of {cname} scanned for one container stored under several keys ({n} candidate sites; embedded positive and negative examples behave)", True)


def alias_variants(fi):
    """Two ID parameters of one method may be handed the same ID (`H.double_edge_swap(n, n, e1, e2)`).  The walker
    identifies an ID with the name that carries it, so such calls are analysed separately: for every pair of parameters
    that are both used as keys of the same incidence table (and are never rebound), a variant of the method in which
    the second name is replaced by the first - and one variant with all pairs merged.  Returns [(description, fi)]."""
    if not fi.params:
        return []
    selfname = fi.params[0]
    params = [p for p in fi.params[1:]]
    rebound = {t.id for n in ast.walk(fi.node) for t in ast.walk(n) if isinstance(t, ast.Name) and isinstance(t.ctx, (ast.Store, ast.Del))}
    use = {}
    for n in ast.walk(fi.node):
        if isinstance(n, ast.Subscript) and isinstance(n.slice, ast.Name) and n.slice.id in params and n.slice.id not in rebound:
            tb = _table_of(n.value, selfname)
            if tb in ("_node", "_edge"):
                use.setdefault(n.slice.id, set()).add(tb)
    pairs = []
    names = [p for p in params if p in use]
    for i, a in enumerate(names):
        for b in names[i + 1:]:
            if use[a] & use[b]:
                pairs.append((a, b))
    if not pairs:
        return []
    import copy as _copy

    def variant(ps):
        mapping = {b: a for a, b in ps}
        node = _copy.deepcopy(fi.node)

        class Rn(ast.NodeTransformer):
            def visit_Name(self, n):
                if n.id in mapping:
                    return ast.copy_location(ast.Name(id=mapping[n.id], ctx=n.ctx), n)
                return n

        node.body = [Rn().visit(b) for b in node.body]
        return FunctionInfo(fi.module, fi.name, fi.qualname, node, fi.cls, fi.parent)

    out = [(f"{b} is {a}", variant([(a, b)])) for a, b in pairs]
    disjoint = len({x for p in pairs for x in p}) == 2 * len(pairs)
    if len(pairs) > 1 and disjoint:
        out.append((" and ".join(f"{b} is {a}" for a, b in pairs), variant(pairs)))
    return out


def analyse_method(repo, res, prop, cname, fi, directed, writer_names, trusted=(), only_rules=None, _alias=None):
    """Runs the delta analysis on one method for every valuation of its mode names; adds findings."""
    n_paths = 0
    seen = set()
    if _alias is None:
        fi = inline_selectors(repo, fi)
        fi = desugar_table_updates(fi)
        for adesc, fi2 in alias_variants(fi):
            n_paths += analyse_method(repo, res, prop, cname, fi2, directed, writer_names, trusted=trusted, only_rules=only_rules, _alias=adesc)
    for val in valuations(fi.node, with_strings=True):
        ma = MethodAnalysis(repo, fi, directed, val, trusted_params=trusted, writer_methods=writer_names, cname=cname)
        ma.helper_post = lambda m, cname=cname: helper_postcondition(repo, cname, m, directed, writer_names)
        # a private helper analysed on its own (no caller of this class inlined it): that a key parameter is not yet
        # present is its callers' obligation, discharged where the helper is inlined
        ma.assume_new_keys = fi.name.startswith("_") and not fi.name.startswith("__")
        try:
            ma.run()
        except Infeasible:
            continue
        except Unsupported as e:
            raise AnalysisError(str(e))
        n_paths += 1
        INLINED.setdefault((repo.digest(), cname), set()).update(ma.inlined)
        bal = Balance(ma)
        vdesc = describe_valuation(val) + (f"; called with the same ID twice: {_alias}" if _alias else "")
        evs = [e for e in ma.events if e.rel != "CALL"]
        # ---- normal exits
        try:
            diffs = bal.check(evs)
        except Unsupported as e:
            raise AnalysisError(str(e))
        res.inst("R-EXIT", f"{cname}.{fi.name} [{vdesc}]: {len(evs)} delta events, {len(ma.raises)} raise points", not diffs, sample={"rule": "R-EXIT", "method": f"{cname}.{fi.name}", "valuation": vdesc, "events": [f"{e.rel}{e.sign} {show(bal.event_formula(e))}" for e in evs][:8]})
        for a, b, sign, w, fa, fb in diffs:
            rule = "R-ATTR" if a.startswith("K:") else "R-INC"
            what = "gains" if sign == "+" else "losses"
            key = (rule, a, sign)
            if key in seen:
                continue
            seen.add(key)
            st = _culprit(evs, a, b, sign)
            f = mk_finding(
                prop, rule, fi, st if st is not None else fi.node,
                f"{cname}.{fi.name}: {what} of {a} and {b} differ on a normal exit [{vdesc}]: {a}: {show(fa)}  vs  {b}: {show(fb)}; differing case: {describe_witness(w)}",
                role=f"{cname}:{a}{sign}",
            )
            res.add(f)
        # ---- an entry created earlier in this very call is replaced by a fresh one
        for (t, kterm, cst) in ma.cover_clobbers:
            key = ("R-INC", "clobber", getattr(cst, "lineno", 0))
            res.inst("R-INC", f"{cname}.{fi.name}:{getattr(cst, 'lineno', 0)} store cannot replace an entry created earlier in the call [{vdesc}]", False)
            if key in seen:
                continue
            seen.add(key)
            res.add(mk_finding(
                prop, "R-INC", fi, cst,
                f"{cname}.{fi.name}: `{' '.join(ast.unparse(cst).split())[:70]}` stores a fresh empty entry under an ID that an earlier loop of the same call may already have created (the test for presence was taken before that loop ran); the memberships recorded for it in between are dropped while the other table keeps them [{vdesc}]",
                role=f"{cname}:clobber",
            ))
        # ---- raise points
        for rp in ma.raises:
            if rp.callee is not None and not callee_may_raise(repo, cname, rp.callee, rp.validated, directed, writer_names):
                res.inst("R-EXC", f"{cname}.{fi.name}:{getattr(rp.stmt, 'lineno', 0)} call of self.{rp.callee}() cannot raise with validated arguments [{vdesc}]", True)
                continue
            in_finally = lambda e: any(a <= e.order <= b for a, b in rp.final_ranges)
            prefix = [e for e in evs if (e.order < rp.order or in_finally(e)) and compatible(e.conds, rp.conds)]
            fin = [e for e in evs if in_finally(e)]
            rp_loops = tuple(rp.loops)
            between_iterations = False
            if fin and isinstance(rp.stmt, (ast.For, ast.AsyncFor)):
                # the iteration protocol itself raises (a one-shot iterator that fails midway): between two iterations
                inside = {id(x) for b in rp.stmt.body for x in ast.walk(b)}
                lids = [e.loops[len(rp_loops)] for e in evs if id(e.stmt) in inside and len(e.loops) > len(rp_loops) and tuple(e.loops[: len(rp_loops)]) == rp_loops]
                if lids:
                    rp_loops = rp_loops + (lids[0],)
                    between_iterations = True
            post_loop_finally = bool(rp_loops) and any(tuple(e.loops[: len(rp_loops)]) != rp_loops for e in fin)
            try:
                if post_loop_finally:
                    # try: <loop> finally: <settle>: when an iteration raises, the finally block settles what the completed
                    # iterations did.  Completed iterations = the loop's events over (a part of) its domain, the same part
                    # on both sides; the iteration that raises = its events so far, with the loop variable fixed.
                    k = 0
                    while k < len(rp_loops) and all(len(e.loops) > k and e.loops[k] == rp_loops[k] for e in fin):
                        k += 1
                    outer = tuple(rp_loops[:k])
                    in_inner = lambda e: tuple(e.loops[: k + 1]) == tuple(rp_loops[: k + 1])
                    whole = [e for e in evs if ((e.order < rp.order and not in_inner(e) and compatible(e.conds, rp.conds)) or in_inner(e) or in_finally(e))]
                    d = bal.check(whole, fixed_loops=outer)
                    partial = [] if between_iterations else [e for e in evs if e.order < rp.order and tuple(e.loops[: len(rp_loops)]) == rp_loops and compatible(e.conds, rp.conds)]
                    if not d and partial:
                        d = bal.check(partial, fixed_loops=rp_loops)
                    loop_unbalanced = None
                else:
                    d = bal.check(prefix, fixed_loops=rp.loops)
                    loop_unbalanced = None
                for lid in (() if post_loop_finally else rp.loops):
                    body = [e for e in evs if lid in e.loops]
                    d2 = bal.check(body, fixed_loops=tuple(l for l in rp.loops))
                    if d2 and not any(e.order > rp.order for e in body):
                        pass
                    if d2:
                        loop_unbalanced = (lid, d2)
            except Unsupported as e:
                raise AnalysisError(str(e))
            if not d and loop_unbalanced is not None:
                # the iteration that raises is balanced so far, but every completed iteration of the enclosing loop
                # leaves a difference that only code after the loop settles - code an exception here skips
                lid, d2 = loop_unbalanced
                a, b, sign, w, fa, fb = d2[0]
                res.inst("R-EXC", f"{cname}.{fi.name}:{getattr(rp.stmt, 'lineno', 0)} {rp.text[:70]} [{vdesc}]", False)
                key = ("R-EXC", "iter", getattr(rp.stmt, "lineno", 0), a, sign)
                if key not in seen:
                    seen.add(key)
                    res.add(mk_finding(
                        prop, "R-EXC", fi, rp.stmt,
                        f"{cname}.{fi.name}: if `{rp.text.replace('soft:', '')}` raises in a later iteration, the iterations already completed have left the tables inconsistent (their {'gains' if sign == '+' else 'losses'} are only settled after the loop) [{vdesc}]: per iteration {a}{sign} {show(fa)}  vs  {b}{sign} {show(fb)}",
                        role=f"{cname}:{a}{sign}:iter",
                    ))
                continue
            ok = not d
            res.inst("R-EXC", f"{cname}.{fi.name}:{getattr(rp.stmt, 'lineno', 0)} {rp.text[:70]} [{vdesc}]", ok)
            if d:
                a, b, sign, w, fa, fb = d[0]
                key = ("R-EXC", getattr(rp.stmt, "lineno", 0), a, sign)
                if key in seen:
                    continue
                seen.add(key)
                f = mk_finding(
                    prop, "R-EXC", fi, rp.stmt,
                    f"{cname}.{fi.name}: if `{rp.text.replace('soft:', '')}` raises here the tables are left inconsistent [{vdesc}]: {a}{sign} {show(fa)}  vs  {b}{sign} {show(fb)}",
                    role=f"{cname}:{a}{sign}",
                )
                res.add(f)
        # ---- one-shot iterables
        by_source = {}
        for e in evs:
            for tok in e.toks:
                by_source.setdefault(tok[0], set()).add(tok[1])
        for src, toks in by_source.items():
            ok = len(toks) <= 1
            res.inst("R-ONCE", f"{cname}.{fi.name}: caller iterable {src} feeds the tables from {len(toks)} consumption(s) [{vdesc}]", ok)
            if not ok and ("R-ONCE", src) not in seen:
                seen.add(("R-ONCE", src))
                sites = [ma.consumed[src][i][0] for i in sorted(toks)]
                f = mk_finding(
                    prop, "R-ONCE", fi, sites[1],
                    f"{cname}.{fi.name}: the caller's iterable `{src}` is consumed at line {sites[0].lineno} and again at line {sites[1].lineno} to fill the two sides of the incidence; a one-shot iterator yields an edge whose members were never registered",
                    role=f"{cname}:{src}",
                )
                res.add(f)
    return n_paths


_CALLEE_CACHE = {}
_POST_CACHE = {}
INLINED = {}  # class name -> private helpers whose events were analysed inside their callers


def helper_postcondition(repo, cname, mname, directed, writer_names):
    """(table, parameter index) pairs such that private helper `mname` leaves table[param] present on every normal exit."""
    ci = repo.get_class(cname)
    callee = repo.find_method(ci, mname)
    if callee is None or not mname.startswith("_") or mname.startswith("__"):
        return []
    key = (repo.digest(), callee.fq, directed)
    if key in _POST_CACHE:
        return _POST_CACHE[key]
    _POST_CACHE[key] = []
    params = callee.params[1:]
    common = None
    try:
        for val in valuations(callee.node, with_strings=True):
            ma = MethodAnalysis(repo, callee, directed, val, writer_methods=writer_names)
            try:
                ma.run()
            except Infeasible:
                continue
            est = {(t, term) for (t, term) in ma.established if term.startswith("P:") and term[2:] in params}
            common = est if common is None else (common & est)
    except Unsupported:
        common = set()
    out = [(t, params.index(term[2:])) for (t, term) in sorted(common or ())]
    _POST_CACHE[key] = out
    return out


def callee_may_raise(repo, cname, mname, validated, directed, writer_names, depth=0):
    """Does private helper `mname`, called with arguments whose validation status is `validated`, contain a raise point?"""
    ci = repo.get_class(cname)
    callee = repo.find_method(ci, mname)
    if callee is None or not mname.startswith("_") or mname.startswith("__") or depth > 2:
        return True
    params = callee.params[1:]
    trusted = tuple(p for p, v in zip(params, validated) if v)
    key = (repo.digest(), callee.fq, trusted, directed)
    if key in _CALLEE_CACHE:
        return _CALLEE_CACHE[key]
    _CALLEE_CACHE[key] = True
    may = False
    try:
        for val in valuations(callee.node, with_strings=True):
            ma = MethodAnalysis(repo, callee, directed, val, trusted_params=trusted, writer_methods=writer_names)
            try:
                ma.run()
            except Infeasible:
                continue
            for rp in ma.raises:
                if rp.callee is not None and not callee_may_raise(repo, cname, rp.callee, rp.validated, directed, writer_names, depth + 1):
                    continue
                may = True
    except Unsupported:
        may = True
    _CALLEE_CACHE[key] = may
    return may


def _culprit(evs, a, b, sign):
    c = [e for e in evs if e.rel in (a, b) and e.sign == sign]
    return c[0].stmt if c else None


def check_coarse(repo, eng, res, prop, cname, fi):
    """R-BOTH for the named exception: writes member sets on both sides, inserts/deletes no key, no raise after the first write."""
    summ = eng.summarize(fi, cname, (), ())
    own = [w for w in eng.direct_writes.get(fi.fq, ()) if w.origin == ("p", 0)]
    sides = {w.region for w in own if w.region in (NODE, EDGE)}
    ok = sides == {NODE, EDGE}
    res.inst("R-BOTH", f"{cname}.{fi.name} writes both the node side and the edge side", ok)
    if not ok:
        res.add(mk_finding(prop, "R-BOTH", fi, fi.node, f"{cname}.{fi.name} updates only {sorted(sides)} of the incidence", role=cname))
    first = min((w.line for w in own if w.region in (NODE, EDGE)), default=None)
    late_raises = [n for n in ast.walk(fi.node) if isinstance(n, ast.Raise) and first is not None and n.lineno > first]
    res.inst("R-BOTH", f"{cname}.{fi.name} has no explicit raise after its first write", not late_raises)
    for r in late_raises:
        res.add(mk_finding(prop, "R-BOTH", fi, r, f"{cname}.{fi.name} raises after it has started rewriting the member sets", role=cname))


def run_class(ctx, res, prop, cname, directed, floor_direct, skip=()):
    repo = ctx.repo
    eng = Effects(repo)
    direct, indirect = direct_writer_methods(repo, eng, cname)
    writer_names = set(direct) | set(indirect)
    n = 0
    paths = 0
    calls_helpers = {m: f for m, f in indirect.items() if any(isinstance(c, ast.Call) and isinstance(c.func, ast.Attribute) and isinstance(c.func.value, ast.Name) and c.func.value.id == f.params[0] and c.func.attr.startswith("_") and not c.func.attr.startswith("__") and c.func.attr in writer_names for c in ast.walk(f.node))}
    todo = {**calls_helpers, **direct}
    ordered = sorted(todo.items(), key=lambda kv: (kv[0].startswith("_") and not kv[0].startswith("__"), kv[0]))
    for mname, fi in ordered:
        if ctx.only and ctx.only not in (fi.qualname, f"{cname}.{mname}"):
            continue
        if mname in skip:
            continue
        if mname.startswith("_") and not mname.startswith("__") and mname in INLINED.get((repo.digest(), cname), ()):
            if mname in direct:
                n += 1
            res.inst("R-EXIT", f"{cname}.{mname}: private helper analysed inside its callers (events inlined at every call site)", True)
            continue
        if mname in direct:
            n += 1
        if mname in COARSE:
            check_coarse(repo, eng, res, prop, cname, fi)
            res.info.append({"coarse_rule_only": f"{cname}.{mname}", "reason": COARSE[mname]})
            continue
        try:
            paths += analyse_method(repo, res, prop, cname, fi, directed, writer_names)
        except AnalysisError as e:
            # the other writer methods and the other rules of the property are still decided; the run ends as
            # analysis-error (exit 2) unless one of them finds a violation
            res.refusals.append(str(e))
    res.floor(f"direct writer methods of {cname}", n, floor_direct if not ctx.only else 0)
    res.counters[f"indirect writer methods of {cname}"] = len(indirect)
    res.counters["method x valuation walks"] = res.counters.get("method x valuation walks", 0) + paths
    res.extra.setdefault("direct_writers", {})[cname] = sorted(direct)
    res.extra.setdefault("indirect_writers", {})[cname] = sorted(indirect)
    return eng


def check_enc(ctx, res, prop, eng):
    ext = external_writers(ctx.repo, eng)
    res.inst("R-ENC", f"{len(ctx.repo.all_functions())} functions scanned: tables written only inside the three classes", not ext)
    for fn, w in ext:
        f = mk_finding(prop, "R-ENC", fn, fn.node, f"{fn.qualname} writes a network table directly (`{w.text}`, {w.region}/{w.kind}) instead of going through the class methods that keep both sides of the incidence in step", role=w.region)
        f.statement = f"{fn.qualname}: {w.text}"
        f.line = w.line
        res.add(f)


def check_fresh(ctx, res, prop, classes=()):
    """R-FRESH: insertions under an automatic key preserve I only if that key is new, i.e. if the counter
    invariant of C04 holds; its global rules (owners of the counter, shape of update_uid_counter) and, for the classes
    of this property, the per-site rules (guard before a caller-supplied ID, counter bump after it) are premises here."""
    from .c04_uid import check_owners, check_update_uid_counter, site_checks

    check_owners(ctx.repo, res, prop)
    check_update_uid_counter(ctx.repo, res, prop)
    if classes:
        n, _ = site_checks(ctx, ctx.repo, Effects(ctx.repo), res, classes, prop)
        res.floor(f"insertion sites of new edge keys in {'/'.join(classes)}", n, 2)


def helper_contracts(repo, cname, directed, methods, writer_names):
    """For each private writer helper: parameters that receive validated (materialised, hashable, non-None) values
    at every call site inside the class. Returns {helper name: tuple(param names)} and the call-site census."""
    ci = repo.get_class(cname)
    calls = {}
    for mname, fi in methods.items():
        for val in valuations(fi.node, with_strings=True):
            ma = MethodAnalysis(repo, fi, directed, val, writer_methods=writer_names)
            ma.helper_post = lambda m, cname=cname: helper_postcondition(repo, cname, m, directed, writer_names)
            try:
                ma.run()
            except Infeasible:
                continue
            except Unsupported:
                continue
            for (h, node, validated, conds, loops) in ma.helper_calls:
                if h.startswith("_") and not h.startswith("__"):
                    calls.setdefault(h, {}).setdefault((fi.qualname, node.lineno), []).append(tuple(validated))
    contracts = {}
    for h, sites in calls.items():
        callee = repo.find_method(ci, h)
        if callee is None:
            continue
        params = callee.params[1:]
        trusted = []
        for j, pn in enumerate(params):
            ok = True
            for site, vals in sites.items():
                for v in vals:
                    if j >= len(v) or not v[j]:
                        ok = False
            if ok and sites:
                trusted.append(pn)
        contracts[h] = tuple(trusted)
    return contracts, {h: sorted(f"{q}:{l}" for (q, l) in sites) for h, sites in calls.items()}


def run_class_with_helpers(ctx, res, prop, cname, directed, floor_direct, skip=()):
    """Like run_class, for a class whose insertions go through private helpers: helpers are analysed under the
    contract established at their call sites, and the public methods that call them are analysed as well."""
    repo = ctx.repo
    eng = Effects(repo)
    direct, indirect = direct_writer_methods(repo, eng, cname)
    writer_names = set(direct) | set(indirect)
    methods = {m: f for m, f in {**indirect, **direct}.items() if m not in skip}
    contracts, census = helper_contracts(repo, cname, directed, methods, writer_names)
    res.extra["helper_contracts"] = {h: list(t) for h, t in contracts.items()}
    res.extra["helper_call_sites"] = census
    n = 0
    paths = 0
    # public methods first: private helpers they call are analysed inside them (inlined); a helper is analysed on its
    # own only if no caller inlined it
    ordered = sorted(methods.items(), key=lambda kv: (kv[0].startswith("_") and not kv[0].startswith("__"), kv[0]))
    for mname, fi in ordered:
        if ctx.only and ctx.only not in (fi.qualname, f"{cname}.{mname}"):
            continue
        if mname.startswith("_") and not mname.startswith("__") and mname in INLINED.get((repo.digest(), cname), ()):
            if mname in direct:
                n += 1
            res.inst("R-EXIT", f"{cname}.{mname}: private helper analysed inside its callers (events inlined at every call site)", True)
            continue
        if mname in COARSE:
            if mname in direct:
                n += 1
                check_coarse(repo, eng, res, prop, cname, fi)
            continue
        calls_helper = any(isinstance(c, ast.Call) and isinstance(c.func, ast.Attribute) and isinstance(c.func.value, ast.Name) and c.func.value.id == fi.params[0] and c.func.attr in writer_names and c.func.attr.startswith("_") and not c.func.attr.startswith("__") for c in ast.walk(fi.node))
        if mname not in direct and not calls_helper:
            continue
        if mname in direct:
            n += 1
        trusted = contracts.get(mname, ()) if (mname.startswith("_") and not mname.startswith("__")) else ()
        try:
            paths += analyse_method(repo, res, prop, cname, fi, directed, writer_names, trusted=trusted)
        except AnalysisError as e:
            res.refusals.append(str(e))
    res.floor(f"direct writer methods of {cname}", n, floor_direct if not ctx.only else 0)
    res.counters["method x valuation walks"] = res.counters.get("method x valuation walks", 0) + paths
    res.extra.setdefault("direct_writers", {})[cname] = sorted(direct)
    res.extra.setdefault("indirect_writers", {})[cname] = sorted(indirect)
    return eng, direct, indirect
